#!/usr/bin/env python3
"""Regenerates /verif/MANIFEST.json from the table below (one entry per property that has a check)."""
import json, os, subprocess

HERE = os.path.dirname(os.path.dirname(os.path.abspath(__file__)))

TRUST = "Trusted base: the Go type checker and x/tools SSA/VTA; OPA, json-gold, yaml.v3 and encoding/json behave as documented on runtime values."

# id -> (technique, level text, level note, design ref)
CLAIMED = {
    "C08": (
        "type-resolved API census + constant resolution through the linked OPA's sources (go/packages, go/types, SSA def-use)",
        "Structural necessary conditions, decided for every call site in the module: the deny-list handed to the only rego.New contains the five named built-ins as the linked OPA spells them; no second compile/load/eval path or builtin-registering API exists; the deny-list is immutable. It is the right level because the property is a who-may-call rule plus a table agreement with a dependency, both visible in the source; what OPA does with the list at run time is declined.",
        "Does not decide that OPA's compiler rejects every syntactic form of a call to a listed builtin. " + TRUST,
        "DESIGN.md section 3, C08",
    ),
}

CLAIMED["C11"] = (
    "exhaustive path enumeration over go/ssa with inlining, nil-ness refinement and defer/recover modelling (E-path) + syntax-level table agreement for the milestone switch",
    "Every control-flow path of every entry point that takes an event channel is enumerated over the alphabet {emit(E), close, return, panic}; the bracket/prefix language, the close count per exit, no-send-after-close, no panic exit and plain blocking sends are decided on that complete, finite path set (the pipeline functions are loop-free; a loop would be reported as undecided). The milestone consumer is checked for exhaustive, correctly paired handling of all EventType constants. This is the right level because the property is a path property of a small loop-free pipeline whose alphabet is visible in the source.",
    "Durations are runtime clock values (declined). Dependency calls are assumed able to panic anywhere except a short list of pure standard-library functions; go/ssa's defer/recover model is trusted. " + TRUST,
    "DESIGN.md section 3, C11",
)
CLAIMED["C04"] = (
    "intra-procedural error-discipline rule + exhaustive inlined path enumeration (E-path) with value-origin tracking",
    "Structural necessary conditions decided on all paths: no data-path error is dropped or turned into a nil error (per function), every inlined entry-point path with a failed read returns a non-nil error and never reaches policy evaluation or the report builder, and the evaluated input is always the reader's result of the same call. Right level: the property is an error-propagation rule whose violations are visible as a branch that returns nil or as a value of foreign origin.",
    "Which byte strings encoding/json and json-gold reject is a runtime matter of the dependencies (trusted). " + TRUST,
    "DESIGN.md section 3, C04",
)

CLAIMED["C18"] = (
    "exhaustive path enumeration of the CLI commands over go/ssa (E-path) with value-origin tracking of printed/written operands + constant-flag check",
    "All paths of the four commands and main are enumerated over {library call, stdout/stderr print, open/create/write/sync, os.Exit(n), panic}. Decided on every path: the emitted text is the library's own value passed as an operand (never a format string, never recomputed), at most once; failures (non-nil error or library panic) print nothing to stdout and end non-zero; files are truncated when opened for writing; writes are synced; no error result is discarded. Right level: the CLI is thin glue whose obligations are orderings and value identities visible in the source.",
    "The operating system's handling of the file, and the byte content of the library's value, are out of scope. Zero-emission paths are not reported because the infeasible 'neither 4 nor 5 arguments' path cannot be excluded statically; instead at least one emitting path per command is required. " + TRUST,
    "DESIGN.md section 3, C18",
)

CLAIMED["C17"] = (
    "panic-site census over go/ssa + recover-boundary coverage fixpoint on the module call graph (VTA) + syntax-level loop/blocking census",
    "Decides that every function reachable from the public API either installs a verified recover boundary (deferred function that calls recover() directly, assigns the error result the recover block returns) or is only called from protected functions, and that the few unprotected frames contain no undischarged panic site or fallible dependency call; no goroutine, no blocking operation other than the event send, only ranges/counted loops, and the indexer accepts the empty document. Right level: 'never panics' over all byte strings cannot be sampled, but 'every panic is caught by a boundary that returns an error' is a coverage fact of the call graph.",
    "Panics, blocking and non-termination inside OPA, json-gold and yaml.v3 are only covered in so far as the boundary catches panics; termination of the module's recursive functions over finite input trees is listed as a census, not decided. One named API precondition (non-nil compiled profile). " + TRUST,
    "DESIGN.md section 3, C17",
)

CLAIMED["C10"] = (
    "package-level state census with alias tracking and per-parameter mutation summaries over go/ssa + VTA call graph (E-glob)",
    "Every package-level variable of the module and every access to it in reach of the library's entry points is enumerated (direct, by address, and through aliases followed into callees). Decided: variables written after initialisation are atomic-and-monotone or lock-protected; shared maps/slices/pointees are never mutated through any alias; no goroutines or unsafe sharing. This excludes the only way two concurrent calls could interfere inside the module's own code, which is what the property asks of the repository; exploring interleavings is a different technique and is not attempted.",
    "Thread-safety of OPA's prepared query and of json-gold is their documented contract. Lock protection is judged per function (coarse). " + TRUST,
    "DESIGN.md section 3, C10",
)
CLAIMED["C09"] = (
    "type-directed classification of entry points + SSA argument/result identity (pass-through and composition) + state census in reach of validate-with-compiled (E-glob)",
    "Equivalence by construction: the text route is literally compile() followed by validateCompiled() on unchanged arguments, and the public compile / validate-with-compiled entry points delegate to those same two functions, so both routes execute the same code; reusability: nothing in reach of validate-with-compiled writes package-level state and the compiled profile is only read. Right level: the property compares two call sequences of the same code, which is an identity of call structure, not of runtime values.",
    "OPA's Eval is assumed not to mutate the prepared query and to return fresh values. " + TRUST,
    "DESIGN.md section 3, C09",
)

CLAIMED["C06"] = (
    "syntax-level effect analysis of every range-over-map loop (E-order, with SSA mutation summaries for callees) + nondeterminism-source census over the reachable call graph",
    "Decides that no run-dependent quantity can enter the generated code or the report through the module's code: every map iteration is order-insensitive or sorted before use; the clock is read only by the event constructor and the configured clock; no randomness, environment, scheduling, reflective map iteration; addresses formatted into text are provably dead; the one shared counter is monotone. Right level: byte-identity over all runs cannot be sampled, but each source of run-to-run variation is a syntactic construct that can be enumerated.",
    "Sorted serialisation inside OPA and encoding/json, and json-gold's output order, are the trusted base. " + TRUST,
    "DESIGN.md section 3, C06",
)
CLAIMED["C15"] = (
    "syntax/type-level rules on the YAML wrapper and prefix resolution (key/value discrimination, sorted key lists, context construction order, hard-coded prefix census, yaml.Node field census) + E-order",
    "Structural necessary conditions for invariance under rewriting of the profile text: mapping lookups cannot confuse values with keys; key order is canonicalised before it reaches the translator; a prefix name never decides anything (only its binding does, defaults first, profile second); only structural fields of YAML nodes are read. Right level: each clause is a who-reads-what rule on a 200-line wrapper; the equivalence of YAML spellings themselves is yaml.v3's contract.",
    "yaml.v3 yields the same node tree for equivalent spellings (trusted). Semantic commutativity of and/or is C01's subject. " + TRUST,
    "DESIGN.md section 3, C15",
)

CLAIMED["C16"] = (
    "PEG model extracted from the generated parser's grammar table (syntax tree of peg.go) + nullable/left-call analysis + branch-start error-discipline rule on go/ssa + source/table agreement",
    "Structural facts decided on the grammar the parser actually interprets: the entry rule is anchored at both ends (optional whitespace, then `!.`), every terminal lies in the documented alphabet, there is no left recursion or nullable repetition, grouping is transparent and operators admit whitespace, the syntax error propagates as an error value, and the .peg source agrees with the table. These are necessary conditions of 'accepted iff the whole string is a sentence' that hold for every input string; language equality itself is declined.",
    "The embedded pigeon runtime is trusted to implement PEG semantics. " + TRUST,
    "DESIGN.md section 3, C16",
)

CLAIMED["C03"] = (
    "sibling-table agreement across parser, generator templates, embedded Rego (parsed with OPA's parser) and report builder (syntax + types), control-dependence of conditional report keys, field-use census",
    "The severity word is followed through the four tables it passes (profile parser -> generator rule heads and defaults -> report[level] rules of the embedded Rego -> report buckets/severity IRI/id prefix) and agreement is required at every hop for all three levels; conforms is computed from the violation bucket only; result/dateCreated are stored under exactly the stated conditions with a zone-preserving layout; the report configuration is read nowhere else. Right level: each clause of the property is an agreement between constants in sibling tables, which no amount of sampling checks for the unsampled level, but which is visible in the source.",
    "OPA's set-to-array conversion and the contents of each level's result set (C01) are out of scope. " + TRUST,
    "DESIGN.md section 3, C03",
)

CLAIMED["C14"] = (
    "syntax/type-level copy-only dataflow rules on the lexical indexer + structural rules on the embedded Rego location()/error()/trace() helpers parsed with OPA's parser",
    "Decides that locations are copied and never computed: one id serves as index key, membership test and file-lookup argument; range and uri are stored unchanged; the store is conditional on node membership only; all source maps and entries are visited; multi-valued properties are read through the single-or-array helper; in the embedded Rego the four numbers are to_number(parts[0..3]) in the documented order without arithmetic and the with/without-location variants are complementary. Right level: 'exactly the numbers recorded' for all magnitudes is a copy-only property of the code shape.",
    "AMF's range syntax and regex.find_n/to_number semantics are trusted. " + TRUST,
    "DESIGN.md section 3, C14",
)
CLAIMED["C05"] = (
    "must-pass-through rule on go/ssa (indexer applied unconditionally to Flatten(decoded, ctx = {}, default options)) + shape-exhaustiveness of type switches + iteration-source rule on the embedded Rego parsed with OPA's parser",
    "The equivalence of serialisations is json-gold's algorithm on runtime values and is NOT decided. Decided is the repository's share, each a necessary condition: every document reaches the policy only through Flatten with an empty non-nil context and unmodified default options, followed unconditionally by the indexer; the indexer and its helpers handle every shape compaction leaves open (@type string/array, single object/array, @graph object/empty array); iterated property values pass through nodes_array in the embedded Rego.",
    "json-gold implements JSON-LD flattening/compaction correctly (blank-node labels, @base, duplicate elimination): trusted base, the dominant part of this property. " + TRUST,
    "DESIGN.md section 3, C05",
)

CLAIMED["C13"] = (
    "context-sensitive taint analysis on go/ssa (field-based with root-aware keys, sanitiser labels intersected over paths) + lexing of every generator format string as Rego to obtain the lexical context of each verb",
    "For every formatting site of the generator that a text named by the property can reach (profile name, validation name, message, list values, pattern), the sanitisers applied on every path must neutralise what is special in the lexical context of the verb (code / double-quoted / raw string / comment); placeholders are handled by a structural rule on the message parser and the sprintf template; embedded-Rego placeholders are substituted only in user Rego. This is a statement about the absence of an escaping step, so it covers every Unicode string without sampling any.",
    "What a given string looks like in the report is runtime behaviour (declined). IRIs and path text are outside this property's list; their sinks are listed in the evidence. " + TRUST,
    "DESIGN.md section 3, C13",
)

CLAIMED["C07"] = (
    "template census of the generator + OPA's parser applied to instantiated templates + abstract interpretation of bracket stacks over emitting functions + identifier-collision tables + taint analysis + grammar/regexp table agreement",
    "The translator's templates and name generators are finite, so 'never fails because of names or code the translator invented' is decided per template: every self-contained template parses (for every operator constant its holes can take), multi-line emitters keep bracket discipline and built-in arity for any number of alternatives (loops unrolled, first-iteration idiom understood), no generated identifier collides with a keyword / preamble rule / built-in / template-local name, rule heads are fresh or level names, path text and the package name are neutralised, text is quoted with JSON (not Go) escapes, and the IRI characters of the grammar are accepted by the expander. This covers the negated twin of every constraint and every rarely taken emission branch, which no fixture instantiates.",
    "OPA's later compile stages (safety, types, recursion, compile time) on the assembled module are not decided; the checker links OPA v0.47.0 as parser and keyword/builtin table (same version as the repository's go.mod). " + TRUST,
    "DESIGN.md section 3, C07",
)

CLAIMED["C01"] = (
    "structural rules on the failure-DNF translator: type-flow set of rule kinds (SSA MakeInterface census) vs dispatch switch, SSA store analysis of Negate methods, syntax-level De Morgan / implication / cross-product rules, slice-aliasing rule, complement decision procedure on instantiated literal pairs, operator-table agreement",
    "The propositional skeleton of the translation (and/or/not/if-then-else over atoms) is correct iff a handful of structural facts hold, each decided for the translator itself and hence for every profile: exhaustive dispatch, information-preserving Negate with De Morgan, dual generators for negated connectives, conjunction-by-concatenation never applied under a negated conditional, condition negated in exactly one implication, cross product built from fresh slices, no operand dropped between YAML and generation, complementary literal twins in every atomic generator, operator words bound to the comparators they name, one result per atom. Breaking any of them makes some truth assignment of the atoms come out wrong.",
    "Declined and left to the golden tests / trusted base: the orientation of each atom, Rego's semantics of each atom over data, and multi-valued atoms under negation (documented limitation). " + TRUST,
    "DESIGN.md section 3, C01",
)

CLAIMED["C02"] = (
    "PEG model of the grammar table (precedence, node types, modifier actions) + syntax/type rules on the tree builder and the traversal functions + by-value slice-ownership rule + aggregation census + shape rules on embedded Rego helpers parsed with OPA's parser",
    "Structural necessary conditions of 'paths denote composition, union and converse': the grammar gives | tighter binding than /, the builder keeps every element and maps operators to the right node types, the traversal unions all alternatives, composes from each head result with node fetching on and emits the converse search for ^, traversal state is never extended in place when shared between alternatives, consumers use the set aggregation (except uniqueValues), and search_subjects/find have the dereferencing shape. Each is visible in the code for all paths and graphs.",
    "Value-level semantics of the Rego helpers and OPA's partial-set semantics are trusted; transitive paths are parsed but not generated (repository TODO). " + TRUST,
    "DESIGN.md section 3, C02",
)
CLAIMED["C12"] = (
    "structural rules on the id assignment and on every node constructor (embedded Rego object literals parsed with OPA's parser, trace-value templates instantiated and parsed), argument-identity rules on error(...) call templates, census of post-processing in the JSON encoder",
    "Decided: the id scheme parent_key / parent_index is applied to every typed node and is injective for the node constructors that exist (no numeric keys, at most one array-of-nodes key each); results are appended without gaps; both variants of error()/trace() carry all required keys; focusNode is the @id of a variable that the emitted code binds from the input graph; sourceShapeName is the validation name or `nested`; one dialect instance encodes one report; the JSON text is the encoder's output untouched.",
    "encoding/json's validity is trusted; non-emptiness of messages and traces is decided for the degenerate profiles found so far (empty message, connectives without operands), not for every profile. " + TRUST,
    "DESIGN.md section 3, C12",
)

# properties without a check yet (or declined), with the reason
NOT_APPLICABLE = {
}

ESYM = {"C01", "C02", "C03", "C07", "C11", "C12", "C13", "C14", "C15", "C16"}

# clauses added after the first full pass (see DESIGN.md section 3)
EXTRA = {
    "C01": "Also: error()/trace() are total (R8); every operand of a body is generated unconditionally; the negation and the failure form of if/then/else are compared as truth tables over (if, then, else) with the expected implication tables (R2/R4); every rule kind with a Negate method, not only the atomic ones, copies everything but the flag; the parser hands each constructor the polarity it was given (R9). The IRIs of the formula are resolved from this profile's prefixes only (R10). The fresh-name counter is never reset (R11); no variable name is also a template-local name (R12). The conversion the set constraints compare values through does not round numbers (R13; one known finding: format_int truncates). Every constraint keyword of a property adds its conjunct independently of the others (R14); every class of a node's @type is indexed (R15). The operator tables are read by evaluating the functions per constant (a switch, a keyed table, a map with a fallback alike). Every atomic constraint built for a property carries that property's own path (R16).",
    "C02": "Also: one clause per alternative in the aggregations (P5); path rules are named by the fresh-name generator whose counter is never reset in reach of the entry points (P8); fresh expander context (P9). Every traversal result is kept wherever results are collected (P5); the index holds every node because the input is flattened unconditionally (P10). The subject searches exclude no candidate by a second test (P6); a forward and an inverse step yield nodes in the same form (P11; one known finding). A compact IRI expands to its namespace followed by its local name and nothing else (P12); the grammar actions for / and | keep every operand (P13). The helper that merges the default prefixes copies entries, it never adopts the map (P9). No parse result is kept across calls (P14). Nodes the data only refers to are entered in the node index, so a path that passes through one keeps it (P15). The id under which a referenced-only node is indexed is read from the referring value's \"@id\" entry, and the store is not confined to values that failed their type test (P15 #id-source, #reached).",
    "C03": "Also: no report, header field or time survives a call in a package-level variable (L7). The public entry points hand the caller's configurations on unchanged (L8). Every rule of every level reaches the generator (L9); YAML aliases are rejected (L10). The profile name in the header is Profile.Name quoted by the escaping helper and by nothing else (L5).",
    "C04": "Also: the JSON decoder reads the entry point's data text unchanged (E5), the decode dominates the normalisation (E6), explicit panics on the data path never carry nil (E7). An error that is never compared with nil must be returned on every later return (E1); the CLI hands the library the data file as read (E8). No validation outcome survives a call (E9); a failed read ends the CLI with a non-zero status (E10).",
    "C05": "Also: the embedded Rego never prints a data value in its written form (N4; one known finding: as_string of typed literals); the data text is only handed to the decoder, never inspected (N5). The CLI hands the library the data file's bytes as read (N6); only uniqueValues reads values as an array (N7). Placeholder values must not depend on value order or spelling (N8; one known finding); no template reads a value at a computed position (N9). Every class of a node's @type is indexed whatever the other classes and their order (N10). No template prints a value with json.marshal (N4 for templates); no generated code asks whether a property key is present (N11).",
    "C06": "Also: no package-level variable is written in reach of the entry points, synchronised or not (D4). No package-level variable holds a mutable object of a dependency (D5); the CLI truncates the output file (D6). No package-level state is written in reach of validation, scratch buffers included (D7). No deadline or timer in reach of the entry points (D2); no compilation writes into the shared default prefix table (D8).",
    "C07": "Also: constraint templates declare no fixed-name local at rule-body scope (H7); no profile text reaches code position as written (H8); the aggregation emitters, evaluated symbolically on 1..3 (thorough: 4) alternatives, parse with OPA's parser (H9); variable names are drawn from the generator's own table indexed by its own counter (H10). and/or are only built from non-empty lists (H11); every rule of every level is generated (H12); the path parser runs without an expression budget (H13). The parser runtime has no expression budget or other limit of its own (H14, H16); a type switch of the translator that panics otherwise handles every type the model function returns (H15). H6 is decided on words: every prefix / name of one or two characters the grammar admits matches the expander's pattern. Whether a profile compiles depends on that profile alone: no compilation writes into the shared default prefix table (H17).",
    "C08": "Also: no compilation outcome survives a call in a package-level variable (B5). The error of the compilation stage is tested and propagated by every function between the compiler and the entry points (B6). Every rego.New keeps print() calls visible to the unsafe built-in check (B7). Embedded Rego is pasted whole: only template variables are substituted and lines split, all kept (B8). After a successful compilation the with-modifiers of print calls, which the compiler drops before its check, are searched in the module as written (B9). B9 also requires that the search starts from the whole parsed module and reads the with-modifiers of every expression (with-targets, fix 5022ef9).",
    "C09": "Also: locks taken while validating are released by defer (S3). No map iteration order reaches the report (S4).",
    "C10": "Also: no call leaves state behind in a package-level variable (G4); no package-level channel (G5); no package-level object of a dependency (G6); no process-wide registry of a dependency is written (G7). An object put into a process-wide sync.Pool counts as state left behind (G4).",
    "C12": "Also: the JSON encoder's error is never dropped (J6), Negate keeps the component name and every constructor names the component it builds (J7), the report stays a tree (J8), the @ids index holds exactly the input's nodes (J9). Where the generator discards the error of a text-valued function the callee hands its argument back on error returns (J10); a YAML node's text is read only under a scalar test (J11). The message text is never empty (J12); and/or rules have operands (J13). A report file is the whole content of its file (J14); every enumeration value has a non-empty name (J15); a validation is parsed under the key it was found under (J16). The CLI never prints the report as a format string (J17). The dialect-instance envelope is decided on the values the function returns (J5). The message parser deletes nothing from the text (J18).",
    "C13": "Also: one sprintf argument per recorded variable and one recorded variable per occurrence (Q3); the lossy printed form of a rule never decides equality (Q5). Names are stored as the YAML accessor returned them, traced through SSA to every call site (Q6); Q3 is decided on the values the message parser and formatter build. The CLI never uses the report as a format (Q7); placeholders resolve with this profile's prefixes only (Q8). The profile name reaches the header unprocessed (Q9); the default message replaces a missing or empty message only (Q10). The text handed to the message parser is what the YAML accessor returned or the default (Q11).",
    "C14": "Also: no panic is swallowed while the lexical index is built (K5); the trace node follows the $traceNode placeholder exactly (K6). The file lookup returns the entry of exactly the id asked about or the default location (K2, on values). The report builder does not remove or rewrite location nodes (K7). JSON is decoded into untyped values only with UseNumber: no line or column is routed through float64 (K8). No json.Number is converted to a machine number (K9); no text of the data is re-serialised through net/url (K10).",
    "C15": "Also: the YAML decoder is handed the entry point's profile text unchanged (O5); operand lists are only permuted, never filtered (O6); prefix names are not validated more strictly than the grammar (O7). The placeholder pattern finds every prefix name the grammar admits (O7); no loop of the profile parser that fills a list stops early (O8); scalar test before a node's text is read (O9). YAML aliases are rejected (O10). Constructors store the operand list they are given and no operand is conditional, on values (O6); no in-place extension of shared operand lists (O11). Every prefix and name the grammar admits is accepted by the IRI expander (O12). A boolean flag accumulated over the operands is never overwritten with what the current operand says (O13).",
    "C16": "Also: the generated parser is handed the caller's string unchanged (X7); the tree builder keeps every operand (X8); no parse result is cached across calls (X9). The generated interpreter gives back consumed input when a sequence, literal or predicate fails (X10). RuneError is only tested together with the decoder's width (X11); no expression budget by default (X12). The runtime has no other limit: no explicit panic under an ordering comparison of a depth, length or count (X13). The runtime folds the case of the input only for expressions marked ignoreCase (X14).",
    "C17": "Also: explicit panics never carry nil (Z7); a deferred close of the event channel is the only close (Z8); locks are released by defer. Negate of and/or returns a non-negated rule, so the two generators cannot recurse into each other for ever (Z9). No compilation writes into the shared default prefix table (Z10). No recursion whose calls hand on only unchanged parameters and looked-up texts (Z11).",
    "C18": "Also: every text handed to the library is a file's content as read (W5); a path that writes to stderr ends with a non-zero exit (W7). Nothing in reach of the library writes to standard output or error (W8); accepted argument counts are exactly the counts with an output branch (W9). What the library returns does not depend on profiles compiled earlier (W10); no map iteration order reaches what the commands print (W11). The public entry points hand the caller's texts to the validator unchanged (W12). Every command function is reached by the dispatch in main (W13). A file opened for writing without O_CREATE is opened only on the 'exists' outcome of an existence test of the same path, polarity computed on SSA (W14: the 'absent' prior state).",
}


def main():
    props = [json.loads(l) for l in open(os.path.join(HERE, "properties.jsonl"))]
    checks = []
    na = []
    for p in props:
        pid = p["id"]
        if pid in CLAIMED:
            tech, text, note, ref = CLAIMED[pid]
            if pid in ESYM:
                tech += "; rules about values built by the code (texts, lists, struct copies, per-case behaviour) are decided on a symbolic evaluation of the syntax (E-sym: tables unrolled, helpers interpreted, strings reduced to shapes), not on idioms"
            if pid in EXTRA:
                text += " " + EXTRA[pid]
            checks.append({
                "property_id": pid,
                "quick_cmd": "bin/acvlint check -property %s -tier quick" % pid,
                "thorough_cmd": "bin/acvlint check -property %s -tier thorough" % pid,
                "evidence_file": "evidence/%s.json" % pid,
                "replay_cmd_template": "bin/acvlint explain {path}",
                "engine": "acvlint",
                "level_claimed": {"category": "other", "text": text, "design_ref": ref},
                "level_note": note,
                "technique": "static analysis: " + tech,
            })
        else:
            na.append({"property_id": pid, "reason": NOT_APPLICABLE.get(pid, "no static check is armed for this property yet: the rule set described in DESIGN.md section 3 is still under construction, so nothing is claimed")})
    manifest = {
        "version": 1,
        "setup_cmd": "cd checker && env -u GOWORK GOFLAGS=-mod=mod GOPROXY=off GOSUMDB=off GOTOOLCHAIN=local go build -o ../bin/acvlint .",
        "hooks": {
            "guard": "verif",
            "enable": "none needed: the checks read /repo's source as it is (go/packages on the working tree); no hook or instrumentation commits exist",
            "baseline_off_cmd": "cd /repo && GOFLAGS=-mod=mod GOPROXY=off GOSUMDB=off go test -vet=off -count=1 -timeout 25m ./...",
            "source_commits": [],
            "add_only": True,
        },
        "engines": [{
            "name": "acvlint",
            "path": "checker/",
            "serves_properties": [c["property_id"] for c in checks],
            "kind_free_text": "repository-specific static analyser (go/packages + go/types + go/ssa + VTA call graph + OPA's Rego parser applied to string constants); never executes the validator",
        }],
        "checks": checks,
        "not_applicable": na,
        "notes": "All checks are static analyses of /repo's working tree. fix: commits in /repo repair genuine defects found by the rules (listed as fixed: lines in known_findings.txt). Clauses that several properties share are decided under each of them (Ctx.Borrow, checker/rules_shared.go). tools/selftest.py runs all checks against the breaking changes under seeded/ and mutants/ (must fire) and the behaviour-preserving refactorings under equiv/ (must stay silent), each in a scratch worktree; the last result is SELFTEST.md.",
    }
    with open(os.path.join(HERE, "MANIFEST.json"), "w") as f:
        json.dump(manifest, f, indent=1)
        f.write("\n")
    print("claimed:", [c["property_id"] for c in checks])
    print("not_applicable:", [n["property_id"] for n in na])

if __name__ == "__main__":
    main()
