module mutate

go 1.23
