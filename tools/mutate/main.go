// mutate: classical mutation operators over the repository's hand-written Go sources. Used only to look for blind spots
// of the checker (tools/mutation_survey.sh): a mutant that survives the project's test suite and is not reported by any
// check is read by hand. Not part of any registered check.
//
//	mutate -repo /repo -out /tmp/mut -max 800 -seed 1
package main

import (
	"bytes"
	"flag"
	"fmt"
	"go/ast"
	"go/parser"
	"go/printer"
	"go/token"
	"math/rand"
	"os"
	"os/exec"
	"path/filepath"
	"sort"
	"strings"
)

type site struct {
	file string
	pos  token.Pos
	op   string
	apply func() (undo func())
	desc string
}

func main() {
	repo := flag.String("repo", "/repo", "repository")
	out := flag.String("out", "/tmp/mut", "output directory")
	max := flag.Int("max", 800, "maximum number of mutants")
	seed := flag.Int64("seed", 1, "sampling seed")
	flag.Parse()
	os.MkdirAll(*out, 0o755)
	var files []string
	for _, root := range []string{"internal", "pkg", "cmd"} {
		filepath.Walk(filepath.Join(*repo, root), func(p string, info os.FileInfo, err error) error {
			if err != nil || info.IsDir() {
				return nil
			}
			if !strings.HasSuffix(p, ".go") || strings.HasSuffix(p, "_test.go") || strings.HasSuffix(p, "peg.go") || strings.HasSuffix(p, "test_utils.go") {
				return nil
			}
			files = append(files, p)
			return nil
		})
	}
	sort.Strings(files)
	type job struct {
		file string
		idx  int
	}
	// first pass: count sites per file
	var jobs []job
	for _, f := range files {
		n := len(sitesOf(f))
		for i := 0; i < n; i++ {
			jobs = append(jobs, job{f, i})
		}
	}
	rnd := rand.New(rand.NewSource(*seed))
	rnd.Shuffle(len(jobs), func(i, j int) { jobs[i], jobs[j] = jobs[j], jobs[i] })
	if len(jobs) > *max {
		jobs = jobs[:*max]
	}
	sort.Slice(jobs, func(i, j int) bool {
		if jobs[i].file != jobs[j].file {
			return jobs[i].file < jobs[j].file
		}
		return jobs[i].idx < jobs[j].idx
	})
	fmt.Fprintf(os.Stderr, "%d files, %d mutants selected\n", len(files), len(jobs))
	for k, j := range jobs {
		fset := token.NewFileSet()
		af, err := parser.ParseFile(fset, j.file, nil, parser.ParseComments)
		if err != nil {
			continue
		}
		ss := collect(fset, af, j.file)
		if j.idx >= len(ss) {
			continue
		}
		s := ss[j.idx]
		s.apply()
		var buf bytes.Buffer
		if err := printer.Fprint(&buf, fset, af); err != nil {
			continue
		}
		rel, _ := filepath.Rel(*repo, j.file)
		// the unmutated file printed the same way, so that the diff shows the mutation only
		fset0 := token.NewFileSet()
		af0, _ := parser.ParseFile(fset0, j.file, nil, parser.ParseComments)
		var buf0 bytes.Buffer
		printer.Fprint(&buf0, fset0, af0)
		a := filepath.Join(*out, "a.go")
		b := filepath.Join(*out, "b.go")
		os.WriteFile(a, buf0.Bytes(), 0o644)
		os.WriteFile(b, buf.Bytes(), 0o644)
		cmd := exec.Command("diff", "-u", "--label", "a/"+rel, "--label", "b/"+rel, a, b)
		d, _ := cmd.Output()
		if len(d) == 0 {
			continue
		}
		name := fmt.Sprintf("m%04d", k)
		// the patch must apply to the file as it is in the repository: write the normalised original as a first patch? No:
		// produce the mutant as a full replacement of the file's printed form only when the original is gofmt-clean.
		os.WriteFile(filepath.Join(*out, name+".diff"), d, 0o644)
		os.WriteFile(filepath.Join(*out, name+".txt"), []byte(fmt.Sprintf("%s:%d %s %s\n", rel, fset.Position(s.pos).Line, s.op, s.desc)), 0o644)
	}
	os.Remove(filepath.Join(*out, "a.go"))
	os.Remove(filepath.Join(*out, "b.go"))
}

func sitesOf(file string) []site {
	fset := token.NewFileSet()
	af, err := parser.ParseFile(fset, file, nil, parser.ParseComments)
	if err != nil {
		return nil
	}
	return collect(fset, af, file)
}

func exprString(fset *token.FileSet, e ast.Node) string {
	var b bytes.Buffer
	printer.Fprint(&b, fset, e)
	s := b.String()
	if len(s) > 60 {
		s = s[:57] + "..."
	}
	return strings.ReplaceAll(s, "\n", " ")
}

func collect(fset *token.FileSet, af *ast.File, file string) []site {
	var out []site
	swap := map[token.Token]token.Token{token.EQL: token.NEQ, token.NEQ: token.EQL, token.LSS: token.LEQ, token.LEQ: token.LSS, token.GTR: token.GEQ, token.GEQ: token.GTR, token.LAND: token.LOR, token.LOR: token.LAND, token.ADD: token.SUB, token.SUB: token.ADD}
	ast.Inspect(af, func(n ast.Node) bool {
		switch x := n.(type) {
		case *ast.IfStmt:
			cond := x.Cond
			out = append(out, site{file, x.Pos(), "negate-if", func() func() {
				x.Cond = &ast.UnaryExpr{Op: token.NOT, X: &ast.ParenExpr{X: cond}}
				return func() { x.Cond = cond }
			}, exprString(fset, cond)})
		case *ast.BinaryExpr:
			if to, ok := swap[x.Op]; ok {
				from := x.Op
				// string concatenation: + -> - does not compile; skip ADD on non-obvious numerics
				if from == token.ADD || from == token.SUB {
					if _, isLit := x.Y.(*ast.BasicLit); !isLit {
						return true
					}
					if bl := x.Y.(*ast.BasicLit); bl.Kind != token.INT {
						return true
					}
				}
				out = append(out, site{file, x.OpPos, "binop " + from.String() + "->" + to.String(), func() func() {
					x.Op = to
					return func() { x.Op = from }
				}, exprString(fset, x)})
			}
		case *ast.BlockStmt:
			for i, st := range x.List {
				i, st := i, st
				switch s := st.(type) {
				case *ast.ExprStmt:
					if call, ok := s.X.(*ast.CallExpr); ok {
						if id, ok := call.Fun.(*ast.Ident); ok && id.Name == "panic" {
							continue
						}
					}
					out = append(out, site{file, st.Pos(), "delete-stmt", func() func() {
						x.List[i] = &ast.EmptyStmt{Semicolon: st.Pos(), Implicit: false}
						return func() { x.List[i] = st }
					}, exprString(fset, st)})
				case *ast.AssignStmt:
					if s.Tok == token.ASSIGN || s.Tok == token.ADD_ASSIGN {
						out = append(out, site{file, st.Pos(), "delete-assign", func() func() {
							x.List[i] = &ast.EmptyStmt{Semicolon: st.Pos(), Implicit: false}
							return func() { x.List[i] = st }
						}, exprString(fset, st)})
					}
				case *ast.DeferStmt:
					out = append(out, site{file, st.Pos(), "delete-defer", func() func() {
						x.List[i] = &ast.EmptyStmt{Semicolon: st.Pos(), Implicit: false}
						return func() { x.List[i] = st }
					}, exprString(fset, st)})
				}
			}
		case *ast.Ident:
			if x.Name == "true" || x.Name == "false" {
				old := x.Name
				nw := "true"
				if old == "true" {
					nw = "false"
				}
				out = append(out, site{file, x.Pos(), "bool " + old + "->" + nw, func() func() {
					x.Name = nw
					return func() { x.Name = old }
				}, old})
			}
		case *ast.BasicLit:
			if x.Kind == token.INT && (x.Value == "0" || x.Value == "1" || x.Value == "2") {
				old := x.Value
				nw := map[string]string{"0": "1", "1": "0", "2": "1"}[old]
				out = append(out, site{file, x.Pos(), "int " + old + "->" + nw, func() func() {
					x.Value = nw
					return func() { x.Value = old }
				}, old})
			}
		}
		return true
	})
	return out
}
