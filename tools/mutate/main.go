// mutate: classical mutation operators over the repository's hand-written Go sources. Used only to look for blind spots
// of the checker (tools/mutation_survey.sh): a mutant that survives the project's test suite and is not reported by any
// check is read by hand. Not part of any registered check.
//
//	mutate -repo /repo -out /tmp/mut -max 800 -seed 1
package main

import (
	"bytes"
	"flag"
	"fmt"
	"go/ast"
	"go/parser"
	"go/printer"
	"go/token"
	"math/rand"
	"os"
	"os/exec"
	"path/filepath"
	"sort"
	"strings"
)

type site struct {
	file string
	pos  token.Pos
	op   string
	apply func() (undo func())
	desc string
}

func main() {
	repo := flag.String("repo", "/repo", "repository")
	out := flag.String("out", "/tmp/mut", "output directory")
	max := flag.Int("max", 800, "maximum number of mutants")
	seed := flag.Int64("seed", 1, "sampling seed")
	flag.StringVar(&opSet, "ops", "classic", "operator set: classic (conditions, operators, deleted statements, literals) or extra (texts inside string literals, swapped arguments, dropped else / case bodies, removed negations)")
	flag.Parse()
	os.MkdirAll(*out, 0o755)
	var files []string
	for _, root := range []string{"internal", "pkg", "cmd"} {
		filepath.Walk(filepath.Join(*repo, root), func(p string, info os.FileInfo, err error) error {
			if err != nil || info.IsDir() {
				return nil
			}
			if !strings.HasSuffix(p, ".go") || strings.HasSuffix(p, "_test.go") || strings.HasSuffix(p, "peg.go") || strings.HasSuffix(p, "test_utils.go") {
				return nil
			}
			files = append(files, p)
			return nil
		})
	}
	sort.Strings(files)
	type job struct {
		file string
		idx  int
	}
	// first pass: count sites per file
	var jobs []job
	for _, f := range files {
		n := len(sitesOf(f))
		for i := 0; i < n; i++ {
			jobs = append(jobs, job{f, i})
		}
	}
	rnd := rand.New(rand.NewSource(*seed))
	rnd.Shuffle(len(jobs), func(i, j int) { jobs[i], jobs[j] = jobs[j], jobs[i] })
	if len(jobs) > *max {
		jobs = jobs[:*max]
	}
	sort.Slice(jobs, func(i, j int) bool {
		if jobs[i].file != jobs[j].file {
			return jobs[i].file < jobs[j].file
		}
		return jobs[i].idx < jobs[j].idx
	})
	fmt.Fprintf(os.Stderr, "%d files, %d mutants selected\n", len(files), len(jobs))
	for k, j := range jobs {
		fset := token.NewFileSet()
		af, err := parser.ParseFile(fset, j.file, nil, parser.ParseComments)
		if err != nil {
			continue
		}
		ss := collect(fset, af, j.file)
		if j.idx >= len(ss) {
			continue
		}
		s := ss[j.idx]
		s.apply()
		var buf bytes.Buffer
		if err := printer.Fprint(&buf, fset, af); err != nil {
			continue
		}
		rel, _ := filepath.Rel(*repo, j.file)
		// the unmutated file printed the same way, so that the diff shows the mutation only
		fset0 := token.NewFileSet()
		af0, _ := parser.ParseFile(fset0, j.file, nil, parser.ParseComments)
		var buf0 bytes.Buffer
		printer.Fprint(&buf0, fset0, af0)
		a := filepath.Join(*out, "a.go")
		b := filepath.Join(*out, "b.go")
		os.WriteFile(a, buf0.Bytes(), 0o644)
		os.WriteFile(b, buf.Bytes(), 0o644)
		cmd := exec.Command("diff", "-u", "--label", "a/"+rel, "--label", "b/"+rel, a, b)
		d, _ := cmd.Output()
		if len(d) == 0 {
			continue
		}
		name := fmt.Sprintf("m%04d", k)
		// the patch must apply to the file as it is in the repository: write the normalised original as a first patch? No:
		// produce the mutant as a full replacement of the file's printed form only when the original is gofmt-clean.
		os.WriteFile(filepath.Join(*out, name+".diff"), d, 0o644)
		os.WriteFile(filepath.Join(*out, name+".txt"), []byte(fmt.Sprintf("%s:%d %s %s\n", rel, fset.Position(s.pos).Line, s.op, s.desc)), 0o644)
	}
	os.Remove(filepath.Join(*out, "a.go"))
	os.Remove(filepath.Join(*out, "b.go"))
}

var opSet = "classic"

// textSwaps: what is exchanged inside string literals (the generator's Rego templates, report keys, messages)
var textSwaps = [][2]string{
	{" == ", " != "}, {" != ", " == "}, {" >= ", " > "}, {" <= ", " < "}, {" > ", " >= "}, {" < ", " <= "},
	{"not ", ""}, {"[_]", "[0]"}, {"true", "false"}, {"false", "true"}, {" = ", " != "}, {"count(", "sum("},
	{"violation", "warning"}, {"warning", "info"}, {"@id", "@type"}, {",", ""},
}

func collectExtra(fset *token.FileSet, af *ast.File, file string) []site {
	var out []site
	ast.Inspect(af, func(n ast.Node) bool {
		switch x := n.(type) {
		case *ast.ImportSpec:
			return false
		case *ast.BasicLit:
			if x.Kind != token.STRING || len(x.Value) > 1500 || len(x.Value) < 4 {
				return true
			}
			old := x.Value
			per := 0
			for _, sw := range textSwaps {
				if per >= 4 {
					break
				}
				idx := strings.Index(old[1:len(old)-1], sw[0])
				if idx < 0 {
					continue
				}
				idx++
				nw := old[:idx] + sw[1] + old[idx+len(sw[0]):]
				per++
				out = append(out, site{file, x.Pos(), "text " + strconvQuote(sw[0]) + "->" + strconvQuote(sw[1]), func() func() {
					x.Value = nw
					return func() { x.Value = old }
				}, exprString(fset, x)})
			}
		case *ast.CallExpr:
			for i := 0; i+1 < len(x.Args); i++ {
				i := i
				a, b := x.Args[i], x.Args[i+1]
				same := false
				switch a.(type) {
				case *ast.Ident:
					_, same = b.(*ast.Ident)
				case *ast.SelectorExpr:
					_, same = b.(*ast.SelectorExpr)
				case *ast.BasicLit:
					bl, ok := b.(*ast.BasicLit)
					same = ok && bl.Kind == a.(*ast.BasicLit).Kind
				}
				if !same || exprString(fset, a) == exprString(fset, b) {
					continue
				}
				out = append(out, site{file, a.Pos(), "swap-args", func() func() {
					x.Args[i], x.Args[i+1] = b, a
					return func() { x.Args[i], x.Args[i+1] = a, b }
				}, exprString(fset, x)})
			}
		case *ast.IfStmt:
			if x.Else != nil {
				els := x.Else
				out = append(out, site{file, x.Else.Pos(), "drop-else", func() func() {
					x.Else = nil
					return func() { x.Else = els }
				}, exprString(fset, x.Cond)})
			}
		case *ast.CaseClause:
			if len(x.Body) > 0 && x.List != nil {
				body := x.Body
				if _, isRet := body[len(body)-1].(*ast.ReturnStmt); !isRet {
					out = append(out, site{file, x.Pos(), "empty-case", func() func() {
						x.Body = nil
						return func() { x.Body = body }
					}, exprString(fset, x.List[0])})
				}
			}
		case *ast.UnaryExpr:
			if x.Op == token.NOT {
				inner := x.X
				out = append(out, site{file, x.Pos(), "drop-not", func() func() {
					x.X = &ast.UnaryExpr{Op: token.NOT, X: &ast.ParenExpr{X: inner}}
					return func() { x.X = inner }
				}, exprString(fset, x)})
			}
		}
		return true
	})
	return out
}

func strconvQuote(s string) string { return fmt.Sprintf("%q", s) }

func sitesOf(file string) []site {
	fset := token.NewFileSet()
	af, err := parser.ParseFile(fset, file, nil, parser.ParseComments)
	if err != nil {
		return nil
	}
	return collect(fset, af, file)
}

func exprString(fset *token.FileSet, e ast.Node) string {
	var b bytes.Buffer
	printer.Fprint(&b, fset, e)
	s := b.String()
	if len(s) > 60 {
		s = s[:57] + "..."
	}
	return strings.ReplaceAll(s, "\n", " ")
}

func collect(fset *token.FileSet, af *ast.File, file string) []site {
	if opSet == "extra" {
		return collectExtra(fset, af, file)
	}
	var out []site
	swap := map[token.Token]token.Token{token.EQL: token.NEQ, token.NEQ: token.EQL, token.LSS: token.LEQ, token.LEQ: token.LSS, token.GTR: token.GEQ, token.GEQ: token.GTR, token.LAND: token.LOR, token.LOR: token.LAND, token.ADD: token.SUB, token.SUB: token.ADD}
	ast.Inspect(af, func(n ast.Node) bool {
		switch x := n.(type) {
		case *ast.IfStmt:
			cond := x.Cond
			out = append(out, site{file, x.Pos(), "negate-if", func() func() {
				x.Cond = &ast.UnaryExpr{Op: token.NOT, X: &ast.ParenExpr{X: cond}}
				return func() { x.Cond = cond }
			}, exprString(fset, cond)})
		case *ast.BinaryExpr:
			if to, ok := swap[x.Op]; ok {
				from := x.Op
				// string concatenation: + -> - does not compile; skip ADD on non-obvious numerics
				if from == token.ADD || from == token.SUB {
					if _, isLit := x.Y.(*ast.BasicLit); !isLit {
						return true
					}
					if bl := x.Y.(*ast.BasicLit); bl.Kind != token.INT {
						return true
					}
				}
				out = append(out, site{file, x.OpPos, "binop " + from.String() + "->" + to.String(), func() func() {
					x.Op = to
					return func() { x.Op = from }
				}, exprString(fset, x)})
			}
		case *ast.BlockStmt:
			for i, st := range x.List {
				i, st := i, st
				switch s := st.(type) {
				case *ast.ExprStmt:
					if call, ok := s.X.(*ast.CallExpr); ok {
						if id, ok := call.Fun.(*ast.Ident); ok && id.Name == "panic" {
							continue
						}
					}
					out = append(out, site{file, st.Pos(), "delete-stmt", func() func() {
						x.List[i] = &ast.EmptyStmt{Semicolon: st.Pos(), Implicit: false}
						return func() { x.List[i] = st }
					}, exprString(fset, st)})
				case *ast.AssignStmt:
					if s.Tok == token.ASSIGN || s.Tok == token.ADD_ASSIGN {
						out = append(out, site{file, st.Pos(), "delete-assign", func() func() {
							x.List[i] = &ast.EmptyStmt{Semicolon: st.Pos(), Implicit: false}
							return func() { x.List[i] = st }
						}, exprString(fset, st)})
					}
				case *ast.DeferStmt:
					out = append(out, site{file, st.Pos(), "delete-defer", func() func() {
						x.List[i] = &ast.EmptyStmt{Semicolon: st.Pos(), Implicit: false}
						return func() { x.List[i] = st }
					}, exprString(fset, st)})
				}
			}
		case *ast.Ident:
			if x.Name == "true" || x.Name == "false" {
				old := x.Name
				nw := "true"
				if old == "true" {
					nw = "false"
				}
				out = append(out, site{file, x.Pos(), "bool " + old + "->" + nw, func() func() {
					x.Name = nw
					return func() { x.Name = old }
				}, old})
			}
		case *ast.BasicLit:
			if x.Kind == token.INT && (x.Value == "0" || x.Value == "1" || x.Value == "2") {
				old := x.Value
				nw := map[string]string{"0": "1", "1": "0", "2": "1"}[old]
				out = append(out, site{file, x.Pos(), "int " + old + "->" + nw, func() func() {
					x.Value = nw
					return func() { x.Value = old }
				}, old})
			}
		}
		return true
	})
	return out
}
