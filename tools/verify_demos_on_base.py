#!/usr/bin/env python3
"""Re-runs the demonstration of every seeded change on the UNCHANGED tree (scratch worktrees of /repo's HEAD under /tmp):
each must pass there, otherwise the change is no longer a change that breaks something (a later fix of the repository may
have made its demonstration obsolete).  usage: tools/verify_demos_on_base.py [-j N]"""
import glob, json, os, shutil, subprocess, sys
from concurrent.futures import ThreadPoolExecutor

VERIF = os.path.dirname(os.path.dirname(os.path.abspath(__file__)))
ENV = dict(os.environ, GOFLAGS="-mod=mod", GOPROXY="off", GOSUMDB="off", GOTOOLCHAIN="local")
ENV.pop("GOWORK", None)

def worker(args):
    idx, entries = args
    wt = "/tmp/vdb-%d" % idx
    subprocess.run(["git", "-C", "/repo", "worktree", "remove", "--force", wt], capture_output=True)
    subprocess.run(["git", "-C", "/repo", "worktree", "add", "-q", "--detach", wt, "HEAD"], check=True)
    out = []
    for d in entries:
        meta = json.load(open(os.path.join(d, "meta.json")))
        demo = meta["demonstration"]
        dst = os.path.join(wt, demo["copy_to"])
        copied = []
        for f in demo["files"]:
            name = "zz_" + f[:-4] if f.endswith(".txt") else "zz_" + f
            shutil.copy(os.path.join(d, f), os.path.join(dst, name))
            copied.append(os.path.join(dst, name))
        r = subprocess.run(["go", "test", "-vet=off", "-count=1", "-run", "^(%s)$" % demo["tests"], "./" + demo["copy_to"] + "/"], cwd=wt, env=ENV, capture_output=True, text=True)
        for c in copied:
            os.remove(c)
        ok = r.returncode == 0
        out.append((os.path.basename(d), ok, "" if ok else (r.stdout + r.stderr)[-400:]))
        print("%-8s %s" % (os.path.basename(d), "passes on the unchanged tree" if ok else "FAILS ON THE UNCHANGED TREE"), flush=True)
    subprocess.run(["git", "-C", "/repo", "worktree", "remove", "--force", wt], capture_output=True)
    return out

def main():
    jobs = 6
    if len(sys.argv) >= 3 and sys.argv[1] == "-j":
        jobs = int(sys.argv[2])
    entries = sorted(glob.glob(os.path.join(VERIF, "seeded", "*")))
    chunks = [(i, entries[i::jobs]) for i in range(jobs)]
    bad = []
    with ThreadPoolExecutor(max_workers=jobs) as ex:
        for res in ex.map(worker, chunks):
            bad += [r for r in res if not r[1]]
    print("%d demonstrations, %d fail on the unchanged tree" % (len(entries), len(bad)))
    for name, _, tail in bad:
        print("==", name); print(tail)
    sys.exit(1 if bad else 0)

if __name__ == "__main__":
    main()
