#!/bin/bash
# Runs the repository's pinned suite (guard off) and prints pass/fail counts.
export GOFLAGS=-mod=mod GOPROXY=off GOSUMDB=off GOTOOLCHAIN=local
unset GOWORK
dir=${1:-/repo}
cd "$dir" || exit 2
out=$(go test -vet=off -count=1 -json -timeout 25m ./... 2>&1)
pass=$(echo "$out" | grep -c '"Action":"pass","Package":"[^"]*","Test":"[^"/]*"')
fail=$(echo "$out" | grep -c '"Action":"fail","Package":"[^"]*","Test":"[^"/]*"')
echo "top-level tests: pass=$pass fail=$fail"
if [ "$fail" != 0 ] || [ "$pass" -lt 115 ]; then
  echo "$out" | grep '"Action":"fail"' | head -20
  echo "$out" | grep -i 'build failed\|cannot\|undefined' | head
  exit 1
fi
