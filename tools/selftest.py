#!/usr/bin/env python3
"""Self-test of the checker (not a registered property check; it edits /repo's working tree temporarily).

  tools/selftest.py                 # everything
  tools/selftest.py seeded C11      # only entries whose name contains C11
  tools/selftest.py equiv

For every change under /verif/seeded/*/ and /verif/mutants/*.diff the change is applied to /repo (which must be clean),
the checks listed as `caught_by` are run and must FAIL (exit 1, a VIOLATION line), and the change is undone.
For every patch under /verif/equiv/*/ (behaviour-preserving refactorings) ALL checks are run and must stay silent.
"""
import json, os, subprocess, sys, glob, time

VERIF = os.path.dirname(os.path.dirname(os.path.abspath(__file__)))
REPO = "/repo"
ALL = ["C%02d" % i for i in range(1, 19)]

def sh(cmd, **kw):
    return subprocess.run(cmd, shell=True, capture_output=True, text=True, **kw)

def clean():
    return sh("git -C %s status --porcelain" % REPO).stdout.strip() == ""

def apply(patch):
    r = sh("git -C %s apply %s" % (REPO, patch))
    return r.returncode == 0, r.stderr

def undo(patch):
    sh("git -C %s apply -R %s" % (REPO, patch))
    sh("git -C %s checkout -- ." % REPO)
    # files created by the patch
    for line in open(patch):
        if line.startswith("+++ b/"):
            f = line[6:].strip()
            if sh("git -C %s ls-files --error-unmatch %s" % (REPO, f)).returncode != 0:
                try:
                    os.remove(os.path.join(REPO, f))
                except OSError:
                    pass

def run_check(pid, tier="quick"):
    r = sh("%s/bin/acvlint check -property %s -tier %s" % (VERIF, pid, tier), cwd=VERIF)
    viol = [l for l in r.stdout.splitlines() if l.startswith(("VIOLATED", "UNDECIDED"))]
    return r.returncode, viol

def main():
    args = sys.argv[1:]
    kinds = [a for a in args if a in ("seeded", "mutants", "equiv")] or ["seeded", "mutants", "equiv"]
    filt = [a for a in args if a not in ("seeded", "mutants", "equiv")]
    if not clean():
        print("/repo has uncommitted changes; refusing")
        return 2
    failures = 0
    rows = []
    entries = []
    if "seeded" in kinds:
        for d in sorted(glob.glob(os.path.join(VERIF, "seeded", "*"))):
            meta = json.load(open(os.path.join(d, "meta.json")))
            entries.append(("seeded", os.path.basename(d), os.path.join(d, "patch.diff"), meta.get("caught_by", []), False))
    if "mutants" in kinds:
        idx = json.load(open(os.path.join(VERIF, "mutants", "index.json")))
        for name, m in sorted(idx.items()):
            entries.append(("mutant", name, os.path.join(VERIF, "mutants", name + ".diff"), m["caught_by"], False))
    if "equiv" in kinds:
        for d in sorted(glob.glob(os.path.join(VERIF, "equiv", "*"))):
            entries.append(("equiv", os.path.basename(d), os.path.join(d, "patch.diff"), ALL, True))
    for kind, name, patch, props, must_pass in entries:
        if filt and not any(f in name for f in filt):
            continue
        ok, err = apply(patch)
        if not ok:
            print("%-8s %-22s PATCH DOES NOT APPLY: %s" % (kind, name, err.strip()[:100]))
            failures += 1
            continue
        try:
            t0 = time.time()
            outcome = {}
            for pid in props:
                code, viol = run_check(pid)
                outcome[pid] = (code, viol)
        finally:
            undo(patch)
        if must_pass:
            bad = {p: v for p, (c, v) in outcome.items() if c != 0}
            status = "silent" if not bad else "FALSE ALARM in " + ",".join(sorted(bad))
            if bad:
                failures += 1
                for p, v in bad.items():
                    for l in v[:3]:
                        print("      " + l[:260])
        else:
            missed = [p for p, (c, v) in outcome.items() if c == 0]
            caught = [p for p, (c, v) in outcome.items() if c != 0]
            status = "caught by " + ",".join(caught) if not missed else "MISSED by " + ",".join(missed)
            if missed or not props:
                failures += 1
            if not props:
                status = "NOT CAUGHT BY ANY CHECK (no caught_by listed)"
        print("%-8s %-22s %s (%.0fs)" % (kind, name, status, time.time() - t0))
        rows.append((kind, name, status))
    if not clean():
        print("WARNING: /repo is not clean after the self-test")
        failures += 1
    # leave the evidence files describing the unchanged tree
    print("self-test finished: %d problem(s) in %d entries" % (failures, len(rows)))
    return 1 if failures else 0

if __name__ == "__main__":
    sys.exit(main())
