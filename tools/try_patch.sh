#!/bin/bash
# usage: tools/try_patch.sh <patch.diff> [-R] -- C01 C02 ...   : applies the patch to /repo, runs the quick checks, undoes it
patch=$1; shift
rev=""
if [ "$1" = "-R" ]; then rev="-R"; shift; fi
[ "$1" = "--" ] && shift
cd /repo || exit 2
if [ -n "$(git status --porcelain --untracked-files=no)" ]; then echo "/repo is dirty, refusing"; exit 2; fi
git apply $rev "$patch" || { echo "patch does not apply"; exit 2; }
for id in "$@"; do
  /verif/bin/acvlint check -property "$id" -tier ${TIER:-quick} | grep -v '^KNOWN-FINDING' | tail -${LINES_SHOWN:-8}
  echo "exit[$id]=${PIPESTATUS[0]}"
done
git -C /repo apply -R $rev "$patch" 2>/dev/null || { [ -n "$rev" ] && git -C /repo apply "$patch"; }
git -C /repo checkout -- .
# files created by the patch
for f in $(grep '^+++ b/' "$patch" | sed 's|^+++ b/||'); do
  if ! git -C /repo ls-files --error-unmatch "$f" >/dev/null 2>&1; then rm -f "/repo/$f"; fi
done
git -C /repo status --porcelain
