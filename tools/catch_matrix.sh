#!/bin/bash
# usage: tools/catch_matrix.sh <patch.diff> <name>   -> one JSON line {name, applies, results:{C01:exit,...}}
# Runs all 18 checks against a scratch worktree of /repo's HEAD with the patch applied (never touches /repo's tree).
# env: ACVLINT (binary, default /verif/bin/acvlint), CHECKS (space separated ids, default all 18), BASE (commit, default HEAD)
patch=$1; name=$2
bin=${ACVLINT:-/verif/bin/acvlint}
checks=${CHECKS:-$(for i in $(seq -w 1 18); do echo C$i; done)}
wt=/tmp/cm-$name; ev=/tmp/cm-ev-$name
git -C /repo worktree remove --force $wt >/dev/null 2>&1
git -C /repo worktree add -q --detach $wt ${BASE:-HEAD} || exit 2
mkdir -p $ev; cp /verif/known_findings.txt $ev/ 2>/dev/null
applies=true
(cd $wt && git apply "$patch") 2>/dev/null || applies=false
res=""
if $applies; then
  for id in $checks; do
    $bin check -property $id -repo $wt -verif $ev >/tmp/cm-$name.$id.log 2>&1
    code=$?
    res="$res\"$id\":$code,"
  done
fi
git -C /repo worktree remove --force $wt >/dev/null 2>&1
rm -rf $ev
echo "{\"name\":\"$name\",\"applies\":$applies,\"results\":{${res%,}}}"
