#!/usr/bin/env python3
"""Imports verified seeded changes and equivalent refactorings into /verif/seeded and /verif/equiv.

  tools/import_seeds.py <keep-dir> <verify-results.jsonl>... -- <matrix-results.jsonl>...

<keep-dir> holds seed/<ID>/<A|B>, seed2/<ID>/<C|D>, ... seed6/<ID>/<K|L> (patch.diff, *_test.go, NOTES.md) and eq*/<E>/<R>/ (patch.diff, NOTES.md).
The verify results come from tools/verify_seed.sh (one JSON per line), the matrix results from tools/catch_matrix.sh.
meta.json records: the property the change breaks, what it needs in order to manifest (first paragraphs of NOTES.md),
what was run to confirm it, and which checks of this repository catch it (caught_by).
"""
import glob, json, os, re, shutil, sys

VERIF = os.path.dirname(os.path.dirname(os.path.abspath(__file__)))

def load_jsonl(paths):
    out = {}
    for p in paths:
        if not os.path.exists(p):
            continue
        for l in open(p):
            l = l.strip()
            if not l:
                continue
            try:
                d = json.loads(l)
            except Exception:
                continue
            out[d["name"]] = d
    return out

def needs_from_notes(path):
    if not os.path.exists(path):
        return ""
    txt = open(path).read()
    m = re.search(r"(?is)(what (?:it|is) need[^\n]*\n+)(.+?)(\n#+ |\Z)", txt)
    if m:
        return " ".join(m.group(2).split())[:900]
    return " ".join(txt.split())[:600]

def main():
    args = sys.argv[1:]
    keep = args[0]
    rest = args[1:]
    split = rest.index("--")
    verify = load_jsonl(rest[:split])
    matrix = load_jsonl(rest[split + 1:])
    n = 0
    for sub in ("seed", "seed2", "seed3", "seed4", "seed5", "seed6", "seed7"):
        for d in sorted(glob.glob(os.path.join(keep, sub, "C*", "[A-N]"))):
            pid, var = d.split("/")[-2], d.split("/")[-1]
            name = "%s-%s" % (pid, var)
            v = verify.get(name)
            if not v or not (v["applies"] and v["builds"] and v["suite_passes"] and v["demo_fails_with_patch"] and v["demo_passes_without_patch"]):
                print("skip (not verified):", name)
                continue
            dst = os.path.join(VERIF, "seeded", name)
            os.makedirs(dst, exist_ok=True)
            shutil.copy(os.path.join(d, "patch.diff"), os.path.join(dst, "patch.diff"))
            for f in glob.glob(os.path.join(d, "*_test.go")):
                shutil.copy(f, os.path.join(dst, os.path.basename(f) + ".txt"))
            if os.path.exists(os.path.join(d, "NOTES.md")):
                shutil.copy(os.path.join(d, "NOTES.md"), os.path.join(dst, "NOTES.md"))
            m = matrix.get("seeded-" + name, {})
            caught = sorted(k for k, c in m.get("results", {}).items() if c != 0)
            if not m and os.path.exists(os.path.join(dst, "meta.json")):
                caught = json.load(open(os.path.join(dst, "meta.json"))).get("caught_by", [])
            meta = {
                "id": name,
                "breaks_property": pid,
                "origin": "produced by a sub-agent that was given only the property text and its own scratch worktree of the repository",
                "needs_to_manifest": needs_from_notes(os.path.join(d, "NOTES.md")),
                "demonstration": {
                    "files": [os.path.basename(f) + ".txt" for f in glob.glob(os.path.join(d, "*_test.go"))],
                    "copy_to": v["demo_dir"],
                    "tests": v["demo_tests"],
                },
                "confirmed": {
                    "how": "tools/verify_seed.sh in a scratch worktree of /repo HEAD: patch applies, go build ./... succeeds, the pinned suite passes with the patch, the demonstration fails with the patch and passes without it",
                    "applies": v["applies"], "builds": v["builds"], "suite_passes": v["suite_passes"],
                    "suite_pass_count": v["suite_pass_count"],
                    "demo_fails_with_patch": v["demo_fails_with_patch"],
                    "demo_passes_without_patch": v["demo_passes_without_patch"],
                },
                "caught_by": caught,
                "caught_by_own_property_check": pid in caught,
            }
            json.dump(meta, open(os.path.join(dst, "meta.json"), "w"), indent=1, sort_keys=True)
            n += 1
    e = 0
    for d in sorted(glob.glob(os.path.join(keep, "eq*", "*", "R*"))):
        grp, var = d.split("/")[-2], d.split("/")[-1]
        name = grp + var
        dst = os.path.join(VERIF, "equiv", name)
        os.makedirs(dst, exist_ok=True)
        shutil.copy(os.path.join(d, "patch.diff"), os.path.join(dst, "patch.diff"))
        if os.path.exists(os.path.join(d, "NOTES.md")):
            shutil.copy(os.path.join(d, "NOTES.md"), os.path.join(dst, "NOTES.md"))
        m = matrix.get("equiv-" + name, {})
        alarms = sorted(k for k, c in m.get("results", {}).items() if c != 0)
        if not m and os.path.exists(os.path.join(dst, "meta.json")):
            alarms = json.load(open(os.path.join(dst, "meta.json"))).get("alarms", [])
        json.dump({"id": name, "kind": "behaviour-preserving refactoring (suite passes, argument in NOTES.md)", "alarms": alarms}, open(os.path.join(dst, "meta.json"), "w"), indent=1, sort_keys=True)
        e += 1
    print("imported %d seeded changes and %d equivalent refactorings" % (n, e))

if __name__ == "__main__":
    main()
