#!/bin/bash
# usage: tools/verify_seed.sh <source dir with patch.diff + *_test.go> <name>
# Confirms, in a scratch worktree of /repo's HEAD, that a seeded change (1) applies and builds, (2) keeps the pinned suite
# green, (3) makes its demonstration fail, and that (4) the demonstration passes on the unchanged tree.
# Prints one line of JSON with the outcome; the worktree is removed afterwards.
src=$1; name=$2
export GOFLAGS=-mod=mod GOPROXY=off GOSUMDB=off GOTOOLCHAIN=local
unset GOWORK
wt=/tmp/vs-$name
git -C /repo worktree remove --force $wt >/dev/null 2>&1
git -C /repo worktree add -q --detach $wt HEAD || { echo "{\"name\":\"$name\",\"error\":\"worktree\"}"; exit 2; }
cd $wt || exit 2
pkgclause=$(grep -h '^package' $src/*_test.go | head -1 | awk '{print $2}')
pkgclause=${pkgclause%_test}   # external test packages live in the same directory
case "$pkgclause" in
  validator) dir=internal/validator ;;
  pkg) dir=pkg ;;
  path) dir=internal/parser/path ;;
  main) dir=cmd ;;
  generator) dir=internal/generator ;;
  profile) dir=internal/parser/profile ;;
  parser) dir=internal/parser ;;
  helpers) dir=cmd/commands/helpers ;;
  commands) dir=cmd/commands ;;
  yaml) dir=internal/parser/yaml ;;
  misc) dir=internal/misc ;;
  contexts) dir=internal/validator/contexts ;;
  milestones) dir=pkg/milestones ;;
  events) dir=pkg/events ;;
  config) dir=pkg/config ;;
  *) dir=internal/validator ;;
esac
demo=$(ls $src/*_test.go | head -1)
runpat=$(grep -ohE 'func (Test[A-Za-z0-9_]+)' $demo | awk '{print $2}' | paste -sd'|')
applies=true; builds=false; suite=false; demo_fails_with=false; demo_passes_without=false
cp $demo $dir/zz_seed_demo_test.go
# unchanged tree
if go test -vet=off -count=1 -run "^($runpat)\$" ./$dir/ >/tmp/vs-$name.clean.log 2>&1; then demo_passes_without=true; fi
rm -f $dir/zz_seed_demo_test.go
if ! git apply $src/patch.diff 2>/tmp/vs-$name.apply.log; then applies=false; fi
if $applies; then
  if go build ./... >/tmp/vs-$name.build.log 2>&1; then builds=true; fi
  if $builds; then
    out=$(go test -vet=off -count=1 -json -timeout 25m ./... 2>&1)
    pass=$(echo "$out" | grep -c '"Action":"pass","Package":"[^"]*","Test":"[^"/]*"')
    fail=$(echo "$out" | grep -c '"Action":"fail","Package":"[^"]*","Test":"[^"/]*"')
    if [ "$fail" = 0 ] && [ "$pass" -ge 115 ]; then suite=true; fi
    cp $demo $dir/zz_seed_demo_test.go
    if ! go test -vet=off -count=1 -run "^($runpat)\$" ./$dir/ >/tmp/vs-$name.patched.log 2>&1; then demo_fails_with=true; fi
  fi
fi
cd /
git -C /repo worktree remove --force $wt >/dev/null 2>&1
echo "{\"name\":\"$name\",\"demo_dir\":\"$dir\",\"demo_tests\":\"$runpat\",\"applies\":$applies,\"builds\":$builds,\"suite_passes\":$suite,\"suite_pass_count\":${pass:-0},\"demo_fails_with_patch\":$demo_fails_with,\"demo_passes_without_patch\":$demo_passes_without}"
