#!/bin/bash
cd /verif/checker && env -u GOWORK GOFLAGS=-mod=mod GOPROXY=off GOSUMDB=off GOTOOLCHAIN=local go build -o ../bin/acvlint .
