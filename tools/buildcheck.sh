#!/bin/bash
# usage: buildcheck.sh <worker idx> <list file of patches>
export GOFLAGS=-mod=mod GOPROXY=off GOSUMDB=off GOTOOLCHAIN=local
wt=/tmp/bc-$1
git -C /repo worktree remove --force $wt >/dev/null 2>&1
git -C /repo worktree add -q --detach $wt HEAD || exit 2
cd $wt
while read p; do
  git checkout -q . ; git clean -fdq
  if ! git apply "$p" 2>/dev/null; then echo "NOAPPLY $p"; continue; fi
  if ! go build ./... >/tmp/bc-$1.log 2>&1; then echo "NOBUILD $p: $(head -2 /tmp/bc-$1.log | tr '\n' ' ')"; fi
done < $2
cd /tmp; git -C /repo worktree remove --force $wt >/dev/null 2>&1
