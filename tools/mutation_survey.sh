#!/bin/bash
# usage: tools/mutation_survey.sh <patch.diff> <name>  -> one JSON line {name, applies, builds, survives}
# Applies a mechanical mutant (tools/mutate) to a scratch worktree of /repo's HEAD and runs the project's test suite.
# "survives" = the project still builds and its whole suite passes. Used to look for blind spots of the checker by hand;
# not part of any registered check.
patch=$1; name=$2
export GOFLAGS=-mod=mod GOPROXY=off GOSUMDB=off GOTOOLCHAIN=local
unset GOWORK
wt=/tmp/ms-$name
git -C /repo worktree remove --force $wt >/dev/null 2>&1
git -C /repo worktree add -q --detach $wt HEAD || exit 2
cd $wt
applies=true; builds=false; survives=false
git apply $patch 2>/dev/null || applies=false
if $applies; then
  if go build ./... >/dev/null 2>&1; then
    builds=true
    if timeout 300 go test -vet=off -count=1 -failfast ./... >/dev/null 2>&1; then survives=true; fi
  fi
fi
cd /
git -C /repo worktree remove --force $wt >/dev/null 2>&1
echo "{\"name\":\"$name\",\"applies\":$applies,\"builds\":$builds,\"survives\":$survives}"
