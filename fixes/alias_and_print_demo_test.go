package validator

// Demonstration for the fix: commits 432e10f and 6bc7743 (copy into internal/validator/): fails before them, passes after.

import (
	"strings"
	"testing"
)

func TestAliasedLevelIsNotSilentlyDropped(t *testing.T) {
	data := `{"@graph":[{"@id":"http://x/a","@type":["http://a.ml/vocabularies/apiContract#WebAPI"]}]}`
	p := "#%Validation Profile 1.0\nprofile: P\nwarning: &w [v1]\nviolation: *w\nvalidations:\n  v1:\n    message: m\n    targetClass: apiContract.WebAPI\n    propertyConstraints:\n      core.name:\n        minCount: 1\n"
	rep, err := Validate(p, data, false, nil)
	if err == nil && strings.Contains(rep, `"conforms": true`) {
		t.Errorf("v1 is listed under violation (through an alias) and the node fails it, yet the report conforms")
	}
}

func TestPrintDoesNotHideUnsafeBuiltins(t *testing.T) {
	for _, code := range []string{`print(http.send({"method":"get","url":"http://127.0.0.1:1/"}))`, `print(opa.runtime())`} {
		p := "#%Validation Profile 1.0\nprofile: P\nviolation:\n  - v1\nvalidations:\n  v1:\n    message: m\n    targetClass: apiContract.WebAPI\n    rego: |\n      " + code + "\n      $result = false\n"
		if _, err := ProcessProfile(p, false, nil); err == nil {
			t.Errorf("%s: the profile was accepted", code)
		}
	}
}
