package validator

import (
	"strings"
	"testing"
)

func shadowProfile(ext, code string) string {
	return `#%Validation Profile 1.0
profile: probe
prefixes:
  ex: http://example.org/
violation:
  - v1
validations:
  v1:
    message: bad
    targetClass: ex.Thing
    rego: |
` + code + `
rego_extensions: |
` + ext + `
`
}

func TestPrintWithDeniedCall(t *testing.T) {
	for _, c := range []struct {
		name, ext, code string
		rejected        bool
	}{
		{"own walk", "  walk(x) = y { y := x }", "      y := walk(1)\n      $result = (y == 1)", false},
		{"plain", "  f(x) = x", "      print(\"x\")\n      $result = true", false},
		{"print with input", "  f(x) = x", "      print(\"x\") with input as http.send({\"method\":\"get\",\"url\":\"http://127.0.0.1:9/\"})\n      $result = true", true},
		{"print with data", "  f(x) = x", "      print(\"x\") with data.foo as opa.runtime()\n      $result = true", true},
		{"print with in helper", "  g(x) { print(\"a\") with input as net.lookup_ip_addr(x) }", "      g(\"localhost\")\n      $result = true", true},
		{"with only", "  f(x) = x", "      y := f(1) with input as http.send({\"method\":\"get\",\"url\":\"http://127.0.0.1:9/\"})\n      $result = true", true},
	} {
		_, err := ProcessProfile(shadowProfile(c.ext, c.code), false, nil)
		msg := "<nil>"
		if err != nil {
			msg = strings.ReplaceAll(err.Error(), "\n", " | ")
		}
		if (err != nil) != c.rejected {
			t.Errorf("%s: rejected=%v, expected %v (%s)", c.name, err != nil, c.rejected, msg)
		}
		t.Logf("%s: err=%s", c.name, msg)
	}
}
