package validator

// Demonstration for fix 5022ef9 (copy into internal/validator): a denied built-in called inside the target of a
// with-modifier is rejected at compile time.  Before the fix both profiles were accepted.

import (
	"strings"
	"testing"
)

func withTargetProfile(code string) string {
	return `#%Validation Profile 1.0
profile: probe
prefixes:
  ex: http://example.org/
violation:
  - v1
validations:
  v1:
    message: bad
    targetClass: ex.Thing
    rego: |
` + code + `
`
}

func TestDeniedCallInWithTarget(t *testing.T) {
	for _, c := range []struct {
		name, code string
		rejected   bool
	}{
		{"with target input", "      cc := count([1]) with input[http.send({\"method\":\"get\",\"url\":\"http://127.0.0.1:9/\"}).body] as 1\n      $result = true", true},
		{"with target data", "      cc := count([1]) with data.foo[opa.runtime().version] as 1\n      $result = true", true},
		{"harmless with", "      cc := count([1]) with input.foo as 1\n      $result = true", false},
	} {
		_, err := ProcessProfile(withTargetProfile(c.code), false, nil)
		if (err != nil) != c.rejected {
			msg := "<nil>"
			if err != nil {
				msg = strings.ReplaceAll(err.Error(), "\n", " | ")
			}
			t.Errorf("%s: rejected=%v, expected %v (%s)", c.name, err != nil, c.rejected, msg)
		}
	}
}
