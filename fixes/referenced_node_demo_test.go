package validator

import (
	"strings"
	"testing"

	"github.com/aml-org/amf-custom-validator/internal/parser/profile"
	"github.com/aml-org/amf-custom-validator/pkg/config"
)

const refProfile = `#%Validation Profile 1.0
profile: probe
prefixes:
  ex: http://example.org/
violation:
  - v1
validations:
  v1:
    message: bad
    targetClass: ex.Paper
    propertyConstraints:
      ex.cites / ex.cites^:
        minCount: 1
`

func refData(describeW bool) string {
	w := ""
	if describeW {
		w = `,{"@id":"http://example.org/W","@type":["http://example.org/Work"]}`
	}
	return `{"@graph":[
{"@id":"http://example.org/p1","@type":["http://example.org/Paper"],"http://example.org/cites":[{"@id":"http://example.org/W"}]},
{"@id":"http://example.org/p2","@type":["http://example.org/Paper"],"http://example.org/cites":[{"@id":"http://example.org/W"}]}` + w + `]}`
}

func TestReferencedOnlyNodeIsANode(t *testing.T) {
	for _, described := range []bool{true, false} {
		profile.GenReset()
		rep, err := ValidateWithConfiguration(refProfile, refData(described), false, nil, config.TestValidationConfiguration{}, config.DefaultReportConfiguration())
		if err != nil {
			t.Fatal(err)
		}
		conforms := strings.Contains(rep, `"conforms": true`)
		t.Logf("W described=%v conforms=%v", described, conforms)
		if !conforms {
			t.Errorf("W described=%v: every paper cites W, which p1 and p2 cite: cites/cites^ reaches at least one node, but minCount 1 is reported", described)
		}
	}
}
