package validator

// Demonstration for the fix: commits dc1f4aa and b66921c (copy into internal/validator/): fails before them, passes after.

import (
	"strings"
	"testing"
)

const degenerateData = `{"@graph":[{"@id":"http://x/a","@type":["http://a.ml/vocabularies/apiContract#WebAPI"]}]}`

func degenerateProfile(message, constraint string) string {
	return "#%Validation Profile 1.0\nprofile: P\nviolation:\n  - v1\nvalidations:\n  v1:\n    message: " + message + "\n    targetClass: apiContract.WebAPI\n" + constraint
}

func TestEmptyMessageGetsTheDefault(t *testing.T) {
	rep, err := Validate(degenerateProfile(`""`, "    propertyConstraints:\n      core.name:\n        minCount: 1\n"), degenerateData, false, nil)
	if err != nil {
		t.Fatal(err)
	}
	if strings.Contains(rep, `"resultMessage": ""`) {
		t.Errorf("a result with an empty message was reported")
	}
}

func TestConnectivesNeedOperands(t *testing.T) {
	for _, c := range []string{"    or: []\n", "    not:\n      and: []\n", "    not:\n      propertyConstraints: {}\n", "    propertyConstraints: {}\n", "    and: []\n"} {
		rep, err := Validate(degenerateProfile("m", c), degenerateData, false, nil)
		if err == nil && strings.Contains(rep, `"trace": []`) {
			t.Errorf("%q: a result with an empty trace was reported", c)
		}
		if err != nil && strings.Contains(err.Error(), "rego_") {
			t.Errorf("%q: the profile was translated into a policy the engine rejects: %v", c, err)
		}
	}
}
