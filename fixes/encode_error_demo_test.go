package validator

import (
	"encoding/json"
	"os"
	"regexp"
	"testing"

	"github.com/aml-org/amf-custom-validator/internal/parser/profile"
	"github.com/aml-org/amf-custom-validator/pkg/config"
)

func TestDemoLeadingZeroRange(t *testing.T) {
	prof, _ := os.ReadFile("../../test/data/integration/profile1/profile.yaml")
	data, _ := os.ReadFile("../../test/data/integration/profile1/negative.data.lexical.jsonld")
	re := regexp.MustCompile(`\[\((\d+),(\d+)\)-\(`)
	mutated := re.ReplaceAllString(string(data), "[(0$1,$2)-(")
	profile.GenReset()
	report, err := ValidateWithConfiguration(string(prof), mutated, false, nil, config.TestValidationConfiguration{}, config.DefaultReportConfiguration())
	if err != nil {
		t.Logf("refused with error: %v", err)
		return
	}
	var v any
	if jerr := json.Unmarshal([]byte(report), &v); jerr != nil {
		t.Fatalf("no error but the report is not JSON (%d bytes): %v", len(report), jerr)
	}
}
