package main

// E-sym: a small symbolic evaluator over the syntax of straight-line / loop-over-table Go code.
//
// Several rules compare "what value reaches this call / this map key" with a table confirmed by hand. Matching the
// syntax of today's code (three copy-pasted loops, a Sprintf, a particular if/else) makes such a rule fire on refactorings
// that leave the behaviour unchanged. E-sym instead evaluates the function symbolically:
//   - strings are normalised to a concatenation of constants and symbolic parts (a + "_" + b, Sprintf("%s_%d", a, b) and
//     a + "_" + strconv.Itoa(b) have the same shape);
//   - loops over composite literals (tables) are unrolled, element fields are substituted;
//   - loops over other values bind the key to Idx(X) and the value to Elem(X);
//   - calls to functions of the module are interpreted in the caller's context (bounded depth, no recursion);
//   - every call, store and return is reported to the rule together with the path conditions and enclosing loops.
// The evaluator never guesses: what it cannot evaluate is Unknown, and rules treat Unknown as undecided.

import (
	"fmt"
	"go/ast"
	"go/constant"
	"go/token"
	"go/types"
	"sort"
	"strconv"
	"strings"

	"golang.org/x/tools/go/packages"
)

type symKind int

const (
	symUnknown symKind = iota
	symConst
	symVar    // a parameter, free or package-level variable
	symField  // X.Name
	symConcat // Parts joined
	symCall   // Fn(Parts...)
	symList   // Parts are the elements
	symStruct // Fields (struct literal or map literal with constant keys)
	symElem   // an element of X (range value)
	symIdx    // the index / key of a range over X
	symLen    // len(X)
	symBin    // X Op Y
	symNot    // !X
	symIndex  // X[Y]
	symNil
	symRepeat // inside a list: for every element of X (in order), the values Parts are appended
	symAcc    // placeholder for an accumulator while the loop body that appends to it is evaluated
	symChoice // one of Parts, Alts[i] is the condition under which Parts[i] is the value
	symFuncLit
)

type Sym struct {
	K      symKind
	C      constant.Value
	Obj    types.Object
	X, Y   *Sym
	Name   string
	Parts  []*Sym
	Fields map[string]*Sym
	Order  []string // field / key order of a struct or map literal
	Fn     string
	Op     token.Token
	Expr   ast.Expr
	Type   types.Type
	Alts   []string              // symChoice: the condition of each alternative
	Env    map[types.Object]*Sym // symFuncLit: the environment the literal was created in
	Lit    *ast.FuncLit
	RecvT  types.Type // symField: the static type of the expression the field was selected from
	Origin ast.Node   // symChoice from a multi-return helper: the call; alternatives of all results of that call are aligned
}

func symUnknownOf(e ast.Expr) *Sym { return &Sym{K: symUnknown, Expr: e} }

func symStr(s string) *Sym { return &Sym{K: symConst, C: constant.MakeString(s)} }

func (s *Sym) ConstString() (string, bool) {
	if s != nil && s.K == symConst && s.C != nil && s.C.Kind() == constant.String {
		return constant.StringVal(s.C), true
	}
	return "", false
}

func (s *Sym) ConstInt() (int64, bool) {
	if s != nil && s.K == symConst && s.C != nil && s.C.Kind() == constant.Int {
		v, ok := constant.Int64Val(s.C)
		return v, ok
	}
	return 0, false
}

func (s *Sym) ConstBool() (bool, bool) {
	if s != nil && s.K == symConst && s.C != nil && s.C.Kind() == constant.Bool {
		return constant.BoolVal(s.C), true
	}
	return false, false
}

// String renders a canonical text: two values with the same text have the same shape.
func (s *Sym) String() string {
	if s == nil {
		return "?"
	}
	switch s.K {
	case symConst:
		if s.C == nil {
			return "const"
		}
		if s.C.Kind() == constant.String {
			return strconv.Quote(constant.StringVal(s.C))
		}
		return s.C.ExactString()
	case symNil:
		return "nil"
	case symVar:
		if s.Obj != nil {
			return s.Obj.Name()
		}
		return "var"
	case symField:
		return s.X.String() + "." + s.Name
	case symConcat:
		var ps []string
		for _, p := range s.Parts {
			ps = append(ps, p.String())
		}
		return strings.Join(ps, "+")
	case symCall:
		var ps []string
		for _, p := range s.Parts {
			ps = append(ps, p.String())
		}
		if s.X != nil {
			return s.X.String() + "->" + s.Fn + "(" + strings.Join(ps, ",") + ")"
		}
		return s.Fn + "(" + strings.Join(ps, ",") + ")"
	case symList:
		var ps []string
		for _, p := range s.Parts {
			ps = append(ps, p.String())
		}
		return "[" + strings.Join(ps, ",") + "]"
	case symStruct:
		var ps []string
		keys := append([]string{}, s.Order...)
		sort.Strings(keys)
		for _, k := range keys {
			ps = append(ps, k+":"+s.Fields[k].String())
		}
		return "{" + strings.Join(ps, ",") + "}"
	case symElem:
		return s.X.String() + "[*]"
	case symIdx:
		return "#" + s.X.String()
	case symLen:
		return "len(" + s.X.String() + ")"
	case symBin:
		return "(" + s.X.String() + " " + s.Op.String() + " " + s.Y.String() + ")"
	case symNot:
		return "!" + s.X.String()
	case symIndex:
		return s.X.String() + "[" + s.Y.String() + "]"
	case symRepeat:
		var ps []string
		for _, p := range s.Parts {
			ps = append(ps, p.String())
		}
		return "each(" + s.X.String() + " => " + strings.Join(ps, ",") + ")"
	case symAcc:
		return "acc"
	case symChoice:
		var ps []string
		for i, p := range s.Parts {
			ps = append(ps, s.Alts[i]+" => "+p.String())
		}
		return "choice(" + strings.Join(ps, " | ") + ")"
	case symFuncLit:
		return "func-literal"
	}
	if s.Expr != nil {
		return "?(" + types.ExprString(s.Expr) + ")"
	}
	return "?"
}

// HasUnknown reports whether any part of the value could not be evaluated.
func (s *Sym) HasUnknown() bool {
	if s == nil {
		return true
	}
	if s.K == symUnknown {
		return true
	}
	for _, p := range s.Parts {
		if p.HasUnknown() {
			return true
		}
	}
	for _, p := range s.Fields {
		if p.HasUnknown() {
			return true
		}
	}
	if s.X != nil && s.X.HasUnknown() {
		return true
	}
	if s.Y != nil && s.Y.HasUnknown() {
		return true
	}
	return false
}

// Walk visits s and all its sub-values.
func (s *Sym) Walk(f func(*Sym)) {
	if s == nil {
		return
	}
	f(s)
	for _, p := range s.Parts {
		p.Walk(f)
	}
	for _, k := range s.Order {
		s.Fields[k].Walk(f)
	}
	s.X.Walk(f)
	s.Y.Walk(f)
}

type symCond struct {
	Cond *Sym
	Neg  bool
}

func (c symCond) String() string {
	if c.Neg {
		return fold(&Sym{K: symNot, X: c.Cond}).String()
	}
	return c.Cond.String()
}

// normalised emptiness test: returns (X, true, isEmpty) when the condition says len(X)==0 (isEmpty) or len(X)!=0.
func (c symCond) Emptiness() (*Sym, bool, bool) {
	s, neg := c.Cond, c.Neg
	for s != nil && s.K == symNot {
		s, neg = s.X, !neg
	}
	if s == nil || s.K != symBin {
		return nil, false, false
	}
	x, y, op := s.X, s.Y, s.Op
	if x.K == symConst && y.K == symLen {
		x, y = y, x
		switch op {
		case token.LSS:
			op = token.GTR
		case token.GTR:
			op = token.LSS
		case token.LEQ:
			op = token.GEQ
		case token.GEQ:
			op = token.LEQ
		}
	}
	if x.K != symLen {
		// x == nil for slices / maps
		if y.K == symNil && (op == token.EQL || op == token.NEQ) {
			empty := op == token.EQL
			if neg {
				empty = !empty
			}
			_ = empty
		}
		return nil, false, false
	}
	n, ok := y.ConstInt()
	if !ok {
		return nil, false, false
	}
	var empty bool
	switch {
	case op == token.EQL && n == 0, op == token.LSS && n == 1, op == token.LEQ && n == 0:
		empty = true
	case op == token.NEQ && n == 0, op == token.GTR && n == 0, op == token.GEQ && n == 1:
		empty = false
	default:
		return nil, false, false
	}
	if neg {
		empty = !empty
	}
	return x.X, true, empty
}

type symWalker struct {
	p     *Prog
	pk    *packages.Package
	info  *types.Info
	fd    *ast.FuncDecl
	env   map[types.Object]*Sym
	conds []symCond
	loops []*Sym
	depth int
	stack map[types.Object]bool
	// Inline decides which module functions are interpreted in the caller's context (nil: none).
	Inline func(fn *types.Func) bool
	// callbacks
	OnCall   func(w *symWalker, call *ast.CallExpr, fn types.Object, args []*Sym, result *Sym)
	OnStore  func(w *symWalker, at ast.Node, target *Sym, key *Sym, val *Sym)
	OnReturn func(w *symWalker, ret *ast.ReturnStmt, results []*Sym)
	// OnText is called for every outermost string concatenation / Sprintf with a constant format
	OnText    func(w *symWalker, at ast.Expr, text *Sym)
	textDepth int
	returned  []*Sym // last return values seen at depth of this walker
	nret      int
	rets      []symReturn
	baseCond  int
	// Assume fixes the truth value of boolean expressions by their canonical text (e.g. "rule.Negated")
	Assume map[string]bool
	// AssumeFn may replace a field / variable value by a constant (a case split by the rule)
	AssumeFn func(s *Sym) *Sym
	// OnSend is called for every channel send statement
	OnSend      func(w *symWalker, st *ast.SendStmt, ch *Sym, val *Sym)
	feas        map[ast.Node][]bool // per multi-return call: which of its return alternatives are still possible on this path
	broke       bool                // an unconditional break was executed in the loop body being unrolled
	globalsSeen map[types.Object]*Sym
}

type symReturn struct {
	conds string
	vals  []*Sym
}

func mkChoice(alts []string, vals []*Sym) *Sym {
	same := true
	for _, v := range vals[1:] {
		if v.String() != vals[0].String() {
			same = false
		}
	}
	if same {
		return vals[0]
	}
	c := &Sym{K: symChoice, Parts: vals, Alts: alts}
	if len(c.String()) > 6000 {
		return &Sym{K: symUnknown, Name: "choice too large"}
	}
	return c
}

func symBool(b bool) *Sym { return &Sym{K: symConst, C: constant.MakeBool(b)} }

// fold simplifies boolean structure with constant operands.
func fold(s *Sym) *Sym {
	switch s.K {
	case symNot:
		if b, ok := s.X.ConstBool(); ok {
			return symBool(!b)
		}
		if s.X.K == symNot {
			return s.X.X
		}
	case symBin:
		// integer arithmetic and comparisons on constants
		if li, ok1 := s.X.ConstInt(); ok1 {
			if ri, ok2 := s.Y.ConstInt(); ok2 {
				switch s.Op {
				case token.ADD:
					return &Sym{K: symConst, C: constant.MakeInt64(li + ri)}
				case token.SUB:
					return &Sym{K: symConst, C: constant.MakeInt64(li - ri)}
				case token.MUL:
					return &Sym{K: symConst, C: constant.MakeInt64(li * ri)}
				case token.LSS:
					return symBool(li < ri)
				case token.LEQ:
					return symBool(li <= ri)
				case token.GTR:
					return symBool(li > ri)
				case token.GEQ:
					return symBool(li >= ri)
				case token.EQL:
					return symBool(li == ri)
				case token.NEQ:
					return symBool(li != ri)
				}
			}
		}
		lb, lok := s.X.ConstBool()
		rb, rok := s.Y.ConstBool()
		switch s.Op {
		case token.LAND:
			if lok && !lb || rok && !rb {
				return symBool(false)
			}
			if lok && lb {
				return s.Y
			}
			if rok && rb {
				return s.X
			}
		case token.LOR:
			if lok && lb || rok && rb {
				return symBool(true)
			}
			if lok && !lb {
				return s.Y
			}
			if rok && !rb {
				return s.X
			}
		case token.EQL, token.NEQ:
			// comparison of a boolean with a constant
			if lok != rok {
				x, b := s.Y, lb
				if rok {
					x, b = s.X, rb
				}
				if b == (s.Op == token.EQL) {
					return x
				}
				return fold(&Sym{K: symNot, X: x})
			}
			if s.X.K == symConst && s.Y.K == symConst && s.X.C != nil && s.Y.C != nil && s.X.C.Kind() == s.Y.C.Kind() {
				eq := constant.Compare(s.X.C, token.EQL, s.Y.C)
				return symBool(eq == (s.Op == token.EQL))
			}
		}
	}
	return s
}

func (w *symWalker) Conds() []symCond { return append([]symCond{}, w.conds...) }
func (w *symWalker) Loops() []*Sym    { return append([]*Sym{}, w.loops...) }
func (w *symWalker) FuncName() string {
	if w.fd == nil {
		return ""
	}
	if rn := recvName(w.fd); rn != "" {
		return rn + "." + w.fd.Name.Name
	}
	return w.fd.Name.Name
}

// findDecl locates the syntax of a module function.
func (p *Prog) findDecl(fn *types.Func) (*ast.FuncDecl, *packages.Package) {
	if fn == nil || fn.Pkg() == nil || !strings.HasPrefix(fn.Pkg().Path(), ModulePath) {
		return nil, nil
	}
	pk := p.AnyPkg(fn.Pkg().Path())
	if pk == nil {
		return nil, nil
	}
	for _, f := range pk.Syntax {
		for _, d := range f.Decls {
			if fd, ok := d.(*ast.FuncDecl); ok && pk.TypesInfo.Defs[fd.Name] == types.Object(fn) {
				return fd, pk
			}
		}
	}
	return nil, nil
}

// SymWalk evaluates fd symbolically; params are bound to symVar unless given in bind.
func (p *Prog) SymWalk(pk *packages.Package, fd *ast.FuncDecl, proto *symWalker, bind map[types.Object]*Sym) *symWalker {
	w := &symWalker{p: p, pk: pk, info: pk.TypesInfo, fd: fd, env: map[types.Object]*Sym{}, stack: map[types.Object]bool{}}
	if proto != nil {
		w.Inline, w.OnCall, w.OnStore, w.OnReturn, w.OnText, w.Assume = proto.Inline, proto.OnCall, proto.OnStore, proto.OnReturn, proto.OnText, proto.Assume
		w.AssumeFn, w.OnSend = proto.AssumeFn, proto.OnSend
		w.feas = copyFeas(proto.feas)
		w.conds, w.loops, w.depth = append([]symCond{}, proto.conds...), append([]*Sym{}, proto.loops...), proto.depth
		for k := range proto.stack {
			w.stack[k] = true
		}
	}
	if o := pk.TypesInfo.Defs[fd.Name]; o != nil {
		w.stack[o] = true
	}
	for k, v := range bind {
		w.env[k] = v
	}
	w.baseCond = len(w.conds)
	if fd.Body != nil {
		w.block(fd.Body.List)
	}
	return w
}

// restrict drops the alternatives of a multi-return choice that the path conditions have excluded.
func (w *symWalker) restrict(s *Sym) *Sym {
	if s == nil || s.K != symChoice || s.Origin == nil || w.feas == nil {
		return s
	}
	f, ok := w.feas[s.Origin]
	if !ok || len(f) != len(s.Parts) {
		return s
	}
	var vals []*Sym
	var alts []string
	for i, p := range s.Parts {
		if f[i] {
			vals = append(vals, p)
			alts = append(alts, s.Alts[i])
		}
	}
	switch len(vals) {
	case 0:
		return s
	case 1:
		return vals[0]
	}
	if len(vals) == len(s.Parts) {
		return s
	}
	out := mkChoice(alts, vals)
	if out.K == symChoice {
		out.Origin = nil // indices no longer aligned with the call's alternatives
	}
	return out
}

// nilness of one alternative: +1 certainly non-nil, -1 the nil literal, 0 unknown
func altNilness(s *Sym) int {
	switch s.K {
	case symNil:
		return -1
	case symStruct, symList, symConcat:
		return 1
	case symCall:
		switch s.Fn {
		case "errors.New", "fmt.Errorf":
			return 1
		}
	}
	return 0
}

func copyFeas(f map[ast.Node][]bool) map[ast.Node][]bool {
	out := map[ast.Node][]bool{}
	for k, v := range f {
		out[k] = append([]bool{}, v...)
	}
	return out
}

// assumeNilTest records, for a condition `choice != nil` / `choice == nil` that is known to hold (holds=true) or known to
// fail, which alternatives of the choice's call remain possible.
func (w *symWalker) assumeNilTest(cond *Sym, holds bool) {
	for cond != nil && cond.K == symNot {
		cond, holds = cond.X, !holds
	}
	if cond == nil || cond.K != symBin || (cond.Op != token.NEQ && cond.Op != token.EQL) {
		return
	}
	var ch *Sym
	switch {
	case cond.X.K == symChoice && cond.Y.K == symNil:
		ch = cond.X
	case cond.Y.K == symChoice && cond.X.K == symNil:
		ch = cond.Y
	default:
		return
	}
	if ch.Origin == nil {
		return
	}
	wantNonNil := (cond.Op == token.NEQ) == holds
	if w.feas == nil {
		w.feas = map[ast.Node][]bool{}
	}
	f, ok := w.feas[ch.Origin]
	if !ok || len(f) != len(ch.Parts) {
		f = make([]bool, len(ch.Parts))
		for i := range f {
			f[i] = true
		}
	}
	for i, p := range ch.Parts {
		n := altNilness(p)
		if wantNonNil && n == -1 {
			f[i] = false
		}
		if !wantNonNil && n == 1 {
			f[i] = false
		}
	}
	w.feas[ch.Origin] = f
}

func (w *symWalker) lookup(o types.Object, e ast.Expr) *Sym {
	if s, ok := w.env[o]; ok {
		return w.restrict(s)
	}
	switch x := o.(type) {
	case *types.Const:
		return &Sym{K: symConst, C: x.Val(), Expr: e}
	case *types.Var:
		if x.Pkg() != nil && x.Parent() == x.Pkg().Scope() && !x.Exported() {
			if v := w.globalTable(x); v != nil {
				return v
			}
		}
		return &Sym{K: symVar, Obj: o, Expr: e, Type: x.Type()}
	case *types.Nil:
		return &Sym{K: symNil, Expr: e}
	case *types.Func:
		return &Sym{K: symVar, Obj: o, Expr: e}
	}
	return symUnknownOf(e)
}

func concatOf(parts ...*Sym) *Sym {
	var flat []*Sym
	for _, p := range parts {
		if p == nil {
			continue
		}
		if p.K == symConcat {
			flat = append(flat, p.Parts...)
		} else {
			flat = append(flat, p)
		}
	}
	// merge adjacent constants
	var out []*Sym
	for _, p := range flat {
		if s, ok := p.ConstString(); ok {
			if s == "" {
				continue
			}
			if len(out) > 0 {
				if prev, ok := out[len(out)-1].ConstString(); ok {
					out[len(out)-1] = symStr(prev + s)
					continue
				}
			}
		}
		out = append(out, p)
	}
	if len(out) == 0 {
		return symStr("")
	}
	if len(out) == 1 {
		return out[0]
	}
	return &Sym{K: symConcat, Parts: out}
}

// sprintfShape turns a constant format and its arguments into a concatenation; verbs other than %s %d %v %q keep the call.
func sprintfShape(format string, args []*Sym) (*Sym, bool) {
	var parts []*Sym
	ai := 0
	lit := strings.Builder{}
	for i := 0; i < len(format); i++ {
		ch := format[i]
		if ch != '%' {
			lit.WriteByte(ch)
			continue
		}
		if i+1 >= len(format) {
			return nil, false
		}
		i++
		switch format[i] {
		case '%':
			lit.WriteByte('%')
		case 's', 'd', 'v', 'f', 't':
			if ai >= len(args) {
				return nil, false
			}
			parts = append(parts, symStr(lit.String()), args[ai])
			lit.Reset()
			ai++
		default:
			return nil, false
		}
	}
	parts = append(parts, symStr(lit.String()))
	if ai != len(args) {
		return nil, false
	}
	return concatOf(parts...), true
}

func (w *symWalker) evalAll(es []ast.Expr) []*Sym {
	out := make([]*Sym, len(es))
	for i, e := range es {
		out[i] = w.eval(e)
	}
	return out
}

func (w *symWalker) eval(e ast.Expr) *Sym {
	s := w.eval1(e)
	if s != nil && (s.K == symNot || s.K == symBin) {
		s = fold(s)
	}
	if s != nil && w.Assume != nil && (s.K == symField || s.K == symVar) {
		if b, ok := w.Assume[s.String()]; ok {
			return symBool(b)
		}
	}
	if s != nil && w.AssumeFn != nil && (s.K == symField || s.K == symVar) {
		if r := w.AssumeFn(s); r != nil {
			return r
		}
	}
	if s != nil && s.Type == nil {
		if tv, ok := w.info.Types[e]; ok && tv.Type != nil {
			if s.K == symCall || s.K == symField || s.K == symIndex || s.K == symElem || s.K == symUnknown {
				s.Type = tv.Type
			}
		}
	}
	return s
}

func (w *symWalker) eval1(e ast.Expr) *Sym {
	if e == nil {
		return nil
	}
	if tv, ok := w.info.Types[e]; ok && tv.Value != nil {
		return &Sym{K: symConst, C: tv.Value, Expr: e, Type: tv.Type}
	}
	switch x := e.(type) {
	case *ast.ParenExpr:
		return w.eval(x.X)
	case *ast.Ident:
		if x.Name == "nil" {
			return &Sym{K: symNil, Expr: e}
		}
		o := w.info.Uses[x]
		if o == nil {
			o = w.info.Defs[x]
		}
		if o == nil {
			return symUnknownOf(e)
		}
		return w.lookup(o, e)
	case *ast.SelectorExpr:
		if sel := w.info.Selections[x]; sel != nil {
			base := w.eval(x.X)
			if sel.Kind() != types.FieldVal {
				return &Sym{K: symField, X: base, Name: x.Sel.Name, Expr: e}
			}
			if base.K == symChoice {
				base = w.restrict(base)
			}
			if base.K == symChoice {
				// the same field of every alternative
				var vals []*Sym
				okAll := true
				for _, alt := range base.Parts {
					if alt.K == symStruct {
						if f, ok := alt.FieldDeep(x.Sel.Name); ok {
							vals = append(vals, f)
							continue
						}
						if len(alt.Order) == 0 {
							vals = append(vals, &Sym{K: symUnknown, Name: "zero value"})
							continue
						}
					}
					okAll = false
				}
				if okAll && len(vals) == len(base.Parts) {
					out := mkChoice(base.Alts, vals)
					if out.K == symChoice {
						out.Origin = base.Origin
					}
					return w.restrict(out)
				}
			}
			if base.K == symStruct {
				if f, ok := base.Fields[x.Sel.Name]; ok {
					return f
				}
				// a promoted field of a copy: read it from the embedded struct the copy was taken from
				if base.Name == "copy" && len(sel.Index()) > 1 {
					if st, ok := base.Type.Underlying().(*types.Struct); ok && sel.Index()[0] < st.NumFields() {
						if emb, ok := base.Fields[st.Field(sel.Index()[0]).Name()]; ok && emb.K == symField {
							return &Sym{K: symField, X: emb.X, Name: x.Sel.Name, Expr: e, Type: sel.Type(), RecvT: base.Type}
						}
					}
				}
			}
			fs := &Sym{K: symField, X: base, Name: x.Sel.Name, Expr: e, Type: sel.Type()}
			if tv, ok := w.info.Types[x.X]; ok {
				fs.RecvT = tv.Type
			}
			return fs
		}
		// package-qualified
		if o := w.info.Uses[x.Sel]; o != nil {
			return w.lookup(o, e)
		}
		return symUnknownOf(e)
	case *ast.StarExpr:
		return w.eval(x.X)
	case *ast.UnaryExpr:
		switch x.Op {
		case token.NOT:
			return &Sym{K: symNot, X: w.eval(x.X), Expr: e}
		case token.AND:
			return w.eval(x.X)
		}
		return symUnknownOf(e)
	case *ast.BinaryExpr:
		isText := false
		if x.Op == token.ADD {
			if tv, ok := w.info.Types[e]; ok {
				if b, ok := tv.Type.Underlying().(*types.Basic); ok && b.Info()&types.IsString != 0 {
					isText = true
				}
			}
		}
		if isText {
			w.textDepth++
		}
		l, r := w.eval(x.X), w.eval(x.Y)
		if isText {
			w.textDepth--
			res := concatOf(l, r)
			if w.textDepth == 0 && w.OnText != nil {
				w.OnText(w, e, res)
			}
			return res
		}
		return &Sym{K: symBin, X: l, Y: r, Op: x.Op, Expr: e}
	case *ast.TypeAssertExpr:
		return w.eval(x.X)
	case *ast.IndexExpr:
		base, idx := w.eval(x.X), w.eval(x.Index)
		if base.K == symList {
			static := true
			for _, part := range base.Parts {
				if part.K == symRepeat {
					static = false
				}
			}
			if i, ok := idx.ConstInt(); ok && static && i >= 0 && int(i) < len(base.Parts) {
				return base.Parts[i]
			}
		}
		if base.K == symStruct {
			if k, ok := idx.ConstString(); ok {
				if f, ok := base.Fields[k]; ok {
					return f
				}
			}
		}
		return &Sym{K: symIndex, X: base, Y: idx, Expr: e}
	case *ast.SliceExpr:
		return &Sym{K: symCall, Fn: "slice", Parts: []*Sym{w.eval(x.X)}, Expr: e}
	case *ast.CompositeLit:
		return w.composite(x)
	case *ast.FuncLit:
		return &Sym{K: symFuncLit, Lit: x, Env: w.env, Expr: e}
	case *ast.CallExpr:
		return w.call(x)
	case *ast.KeyValueExpr:
		return w.eval(x.Value)
	}
	return symUnknownOf(e)
}

func (w *symWalker) composite(x *ast.CompositeLit) *Sym {
	tv, ok := w.info.Types[x]
	if !ok {
		return symUnknownOf(x)
	}
	switch u := tv.Type.Underlying().(type) {
	case *types.Slice, *types.Array:
		out := &Sym{K: symList, Expr: x, Type: tv.Type}
		for _, el := range x.Elts {
			if kv, ok := el.(*ast.KeyValueExpr); ok {
				el = kv.Value
			}
			out.Parts = append(out.Parts, w.eval(el))
		}
		return out
	case *types.Struct:
		out := &Sym{K: symStruct, Fields: map[string]*Sym{}, Expr: x, Type: tv.Type}
		for i, el := range x.Elts {
			if kv, ok := el.(*ast.KeyValueExpr); ok {
				if id, ok := kv.Key.(*ast.Ident); ok {
					out.Fields[id.Name] = w.eval(kv.Value)
					out.Order = append(out.Order, id.Name)
				}
			} else if i < u.NumFields() {
				out.Fields[u.Field(i).Name()] = w.eval(el)
				out.Order = append(out.Order, u.Field(i).Name())
			}
		}
		return out
	case *types.Map:
		out := &Sym{K: symStruct, Fields: map[string]*Sym{}, Expr: x, Type: tv.Type}
		for _, el := range x.Elts {
			kv, ok := el.(*ast.KeyValueExpr)
			if !ok {
				continue
			}
			k := w.eval(kv.Key)
			ks, ok := k.ConstString()
			if !ok {
				ks = k.String()
			}
			v := w.eval(kv.Value)
			out.Fields[ks] = v
			out.Order = append(out.Order, ks)
			if w.OnStore != nil {
				w.OnStore(w, kv, out, k, v)
			}
		}
		return out
	}
	return symUnknownOf(x)
}

func (w *symWalker) call(x *ast.CallExpr) *Sym {
	// conversions
	if tv, ok := w.info.Types[x.Fun]; ok && tv.IsType() && len(x.Args) == 1 {
		return w.eval(x.Args[0])
	}
	obj := calleeOf(w.info, x)
	name := funcFullName(obj)
	if id, ok := ast.Unparen(x.Fun).(*ast.Ident); ok {
		if _, isBuiltin := w.info.Uses[id].(*types.Builtin); isBuiltin {
			name = id.Name
		}
	}
	args := w.evalAll(x.Args)
	var result *Sym
	switch name {
	case "len":
		if len(args) == 1 {
			static := args[0].K == symList
			for _, part := range args[0].Parts {
				if part.K == symRepeat {
					static = false // one entry per element of another collection: the length is not known
				}
			}
			if static {
				result = &Sym{K: symConst, C: constant.MakeInt64(int64(len(args[0].Parts)))}
			} else if s, ok := args[0].ConstString(); ok {
				result = &Sym{K: symConst, C: constant.MakeInt64(int64(len(s)))}
			} else {
				result = &Sym{K: symLen, X: args[0], Expr: x}
			}
		}
	case "append":
		if len(args) >= 1 && (args[0].K == symList || args[0].K == symNil) && !x.Ellipsis.IsValid() {
			out := &Sym{K: symList, Expr: x}
			out.Parts = append(append(out.Parts, args[0].Parts...), args[1:]...)
			result = out
		} else if len(args) == 2 && x.Ellipsis.IsValid() && (args[0].K == symList || args[0].K == symNil) && args[1].K == symList {
			out := &Sym{K: symList, Expr: x}
			out.Parts = append(append(out.Parts, args[0].Parts...), args[1].Parts...)
			result = out
		} else {
			result = &Sym{K: symCall, Fn: "append", Parts: args, Expr: x}
		}
	case "make", "new":
		if tv, ok := w.info.Types[x]; ok {
			switch tv.Type.Underlying().(type) {
			case *types.Slice:
				// make([]T, 0) or make([]T, 0, n): an empty list; make([]T, n): unknown contents
				if len(args) >= 2 {
					if n, ok := args[1].ConstInt(); ok && n == 0 {
						result = &Sym{K: symList, Expr: x, Type: tv.Type}
					}
				}
			case *types.Map:
				result = &Sym{K: symStruct, Fields: map[string]*Sym{}, Expr: x, Type: tv.Type}
			}
		}
	case "fmt.Sprintf":
		if len(args) >= 1 {
			if f, ok := args[0].ConstString(); ok {
				if s, ok := sprintfShape(f, args[1:]); ok {
					result = s
					if w.textDepth == 0 && w.OnText != nil {
						w.OnText(w, x, s)
					}
				}
			}
		}
	case "strconv.Itoa", "fmt.Sprint", "strconv.FormatInt":
		if len(args) >= 1 {
			result = args[0]
		}
	case "strings.Join":
		if len(args) == 2 && args[0].K == symList {
			if sep, ok := args[1].ConstString(); ok {
				var parts []*Sym
				for i, e := range args[0].Parts {
					if i > 0 {
						parts = append(parts, symStr(sep))
					}
					parts = append(parts, e)
				}
				result = concatOf(parts...)
			}
		}
	}
	if result == nil {
		// interpret module functions, function values and function literals in the caller's context
		var fdecl *ast.FuncDecl
		var ftype *ast.FuncType
		var fbody *ast.BlockStmt
		var fpk *packages.Package
		var fenv map[types.Object]*Sym
		var fobj types.Object
		if fn, ok := obj.(*types.Func); ok {
			fobj = fn
		} else if _, isVar := obj.(*types.Var); isVar || obj == nil {
			// a call through a variable / parameter / expression holding a function
			if _, isSel := ast.Unparen(x.Fun).(*ast.SelectorExpr); !isSel || obj != nil {
				fv := w.eval(x.Fun)
				if fv != nil && fv.K == symVar {
					if fn, ok := fv.Obj.(*types.Func); ok {
						fobj = fn
					}
				} else if fv != nil && fv.K == symFuncLit {
					ftype, fbody, fpk, fenv = fv.Lit.Type, fv.Lit.Body, w.pk, fv.Env
					fobj = nil
				}
			}
		}
		if fn, ok := fobj.(*types.Func); ok && w.Inline != nil && w.depth < 6 && !w.stack[fn] && w.Inline(fn) {
			if fd, pk := w.p.findDecl(fn); fd != nil && fd.Body != nil {
				fdecl, ftype, fbody, fpk = fd, fd.Type, fd.Body, pk
				name = funcFullName(fn)
			}
		}
		if fbody != nil && w.depth < 6 {
			bind := map[types.Object]*Sym{}
			for k, v := range fenv {
				bind[k] = v
			}
			i := 0
			if ftype.Params != nil {
				for _, f := range ftype.Params.List {
					for _, nm := range f.Names {
						if i < len(args) {
							if _, variadic := f.Type.(*ast.Ellipsis); variadic && !x.Ellipsis.IsValid() {
								bind[fpk.TypesInfo.Defs[nm]] = &Sym{K: symList, Parts: args[i:]}
							} else {
								bind[fpk.TypesInfo.Defs[nm]] = w.copyIfStruct(fpk.TypesInfo.Defs[nm].Type(), args[i])
							}
						}
						i++
					}
				}
			}
			if fdecl != nil && fdecl.Recv != nil && len(fdecl.Recv.List) == 1 && len(fdecl.Recv.List[0].Names) == 1 {
				if sel, ok := ast.Unparen(x.Fun).(*ast.SelectorExpr); ok {
					bind[fpk.TypesInfo.Defs[fdecl.Recv.List[0].Names[0]]] = w.eval(sel.X)
				}
			}
			if fdecl == nil {
				fdecl = &ast.FuncDecl{Name: ast.NewIdent("func-literal"), Type: ftype, Body: fbody}
			}
			proto := &symWalker{Inline: w.Inline, OnCall: w.OnCall, OnStore: w.OnStore, OnText: w.OnText, OnReturn: nil, Assume: w.Assume, AssumeFn: w.AssumeFn, OnSend: w.OnSend, conds: w.conds, loops: w.loops, depth: w.depth + 1, stack: w.stack}
			sub := w.p.SymWalk(fpk, fdecl, proto, bind)
			switch {
			case len(sub.rets) == 1 && len(sub.rets[0].vals) == 1:
				result = sub.rets[0].vals[0]
			case len(sub.rets) == 1 && len(sub.rets[0].vals) > 1:
				result = &Sym{K: symList, Parts: sub.rets[0].vals, Fn: "tuple"}
			case len(sub.rets) > 1 && len(sub.rets) <= 12:
				n := len(sub.rets[0].vals)
				okN := n > 0
				for _, rt := range sub.rets {
					if len(rt.vals) != n {
						okN = false
					}
				}
				if okN {
					var alts []string
					for _, rt := range sub.rets {
						alts = append(alts, rt.conds)
					}
					comps := make([]*Sym, n)
					for j := 0; j < n; j++ {
						var vals []*Sym
						for _, rt := range sub.rets {
							vals = append(vals, rt.vals[j])
						}
						comps[j] = mkChoice(alts, vals)
						if comps[j].K == symChoice {
							comps[j].Origin = x
						}
					}
					if n == 1 {
						result = comps[0]
					} else {
						result = &Sym{K: symList, Parts: comps, Fn: "tuple"}
					}
				}
			}
			if result == nil {
				result = &Sym{K: symCall, Fn: name, Parts: args, Expr: x}
			}
			if w.OnCall != nil {
				w.OnCall(w, x, obj, args, result)
			}
			return result
		}
		if name == "" {
			name = types.ExprString(x.Fun)
		}
		result = &Sym{K: symCall, Fn: name, Parts: args, Expr: x}
		if sel, ok := ast.Unparen(x.Fun).(*ast.SelectorExpr); ok {
			if w.info.Selections[sel] != nil {
				result.X = w.eval(sel.X) // the receiver of a method call
			}
		}
	}
	if w.OnCall != nil {
		w.OnCall(w, x, obj, args, result)
	}
	return result
}

// block walks statements; returns true when control cannot fall out of the block's end.
func (w *symWalker) block(list []ast.Stmt) bool {
	base := len(w.conds)
	defer func() { w.conds = w.conds[:base] }()
	for _, st := range list {
		if w.stmt(st) {
			return true
		}
	}
	return false
}

func (w *symWalker) assignedIn(n ast.Node) map[types.Object]bool {
	out := map[types.Object]bool{}
	ast.Inspect(n, func(m ast.Node) bool {
		switch x := m.(type) {
		case *ast.AssignStmt:
			for _, l := range x.Lhs {
				if id, ok := l.(*ast.Ident); ok {
					if o := w.info.Uses[id]; o != nil {
						out[o] = true
					}
				}
			}
		case *ast.IncDecStmt:
			if id, ok := x.X.(*ast.Ident); ok {
				if o := w.info.Uses[id]; o != nil {
					out[o] = true
				}
			}
		case *ast.FuncLit:
			return true
		}
		return true
	})
	return out
}

func (w *symWalker) forget(objs map[types.Object]bool, at ast.Node) {
	for o := range objs {
		if _, ok := w.env[o]; ok {
			w.env[o] = &Sym{K: symUnknown, Name: "merged:" + o.Name()}
		} else if _, isVar := o.(*types.Var); isVar {
			w.env[o] = &Sym{K: symUnknown, Name: "merged:" + o.Name()}
		}
	}
}

func (w *symWalker) assign(lhs ast.Expr, val *Sym, at ast.Node, define bool) {
	switch l := ast.Unparen(lhs).(type) {
	case *ast.Ident:
		if l.Name == "_" {
			return
		}
		o := w.info.Defs[l]
		if o == nil {
			o = w.info.Uses[l]
		}
		if o != nil {
			w.env[o] = w.copyIfStruct(o.Type(), val)
		}
	case *ast.IndexExpr:
		target, key := w.eval(l.X), w.eval(l.Index)
		// a store into a map literal held in a local: extend the literal when unconditional
		if target.K == symStruct && len(w.loops) == 0 {
			if ks, ok := key.ConstString(); ok {
				if _, exists := target.Fields[ks]; !exists {
					target.Order = append(target.Order, ks)
				}
				if w.unconditionalSince(target) {
					target.Fields[ks] = val
				} else {
					target.Fields[ks] = &Sym{K: symCall, Fn: "maybe", Parts: []*Sym{val}, Name: condsText(w.conds)}
				}
			}
		}
		if w.OnStore != nil {
			w.OnStore(w, at, target, key, val)
		}
	case *ast.SelectorExpr:
		target := w.eval(l.X)
		// a field of a local struct value (a copy owned by this function): functional update
		if id, ok := ast.Unparen(l.X).(*ast.Ident); ok && target.K == symStruct {
			if o := w.info.Uses[id]; o != nil {
				if _, isStruct := o.Type().Underlying().(*types.Struct); isStruct {
					upd := &Sym{K: symStruct, Fields: map[string]*Sym{}, Order: append([]string{}, target.Order...), Type: target.Type, Name: target.Name}
					for k, v := range target.Fields {
						upd.Fields[k] = v
					}
					if _, exists := upd.Fields[l.Sel.Name]; !exists {
						upd.Order = append(upd.Order, l.Sel.Name)
					}
					if len(w.conds) == 0 && len(w.loops) == 0 {
						upd.Fields[l.Sel.Name] = val
					} else {
						upd.Fields[l.Sel.Name] = &Sym{K: symCall, Fn: "maybe", Parts: []*Sym{val}, Name: condsText(w.conds)}
					}
					w.env[o] = upd
				}
			}
		}
		if w.OnStore != nil {
			w.OnStore(w, at, target, symStr(l.Sel.Name), val)
		}
	case *ast.StarExpr:
		if w.OnStore != nil {
			w.OnStore(w, at, w.eval(l.X), nil, val)
		}
	}
}

// unconditionalSince: approximated by "no path condition is active" (stores under conditions are wrapped in maybe()).
func (w *symWalker) unconditionalSince(target *Sym) bool { return len(w.conds) == 0 }

func condsText(cs []symCond) string {
	var out []string
	for _, c := range cs {
		out = append(out, c.String())
	}
	return strings.Join(out, " && ")
}

func (w *symWalker) stmt(st ast.Stmt) (terminates bool) {
	switch x := st.(type) {
	case *ast.BlockStmt:
		return w.block(x.List)
	case *ast.ExprStmt:
		w.eval(x.X)
		if call, ok := x.X.(*ast.CallExpr); ok {
			if id, ok := call.Fun.(*ast.Ident); ok && id.Name == "panic" {
				if _, isBuiltin := w.info.Uses[id].(*types.Builtin); isBuiltin {
					return true
				}
			}
		}
	case *ast.DeclStmt:
		gd, ok := x.Decl.(*ast.GenDecl)
		if !ok {
			return false
		}
		for _, sp := range gd.Specs {
			vs, ok := sp.(*ast.ValueSpec)
			if !ok {
				continue
			}
			for i, nm := range vs.Names {
				o := w.info.Defs[nm]
				if o == nil {
					continue
				}
				if i < len(vs.Values) {
					w.env[o] = w.eval(vs.Values[i])
					continue
				}
				// zero value
				switch u := o.Type().Underlying().(type) {
				case *types.Slice:
					w.env[o] = &Sym{K: symList, Type: o.Type()}
				case *types.Basic:
					switch {
					case u.Info()&types.IsString != 0:
						w.env[o] = symStr("")
					case u.Info()&types.IsInteger != 0:
						w.env[o] = &Sym{K: symConst, C: constant.MakeInt64(0)}
					case u.Info()&types.IsBoolean != 0:
						w.env[o] = &Sym{K: symConst, C: constant.MakeBool(false)}
					default:
						w.env[o] = symUnknownOf(nm)
					}
				default:
					w.env[o] = &Sym{K: symNil}
				}
			}
		}
	case *ast.AssignStmt:
		if len(x.Lhs) == len(x.Rhs) {
			vals := w.evalAll(x.Rhs)
			for i, l := range x.Lhs {
				v := vals[i]
				if x.Tok == token.ADD_ASSIGN {
					v = concatOf(w.eval(l), v)
				} else if x.Tok != token.ASSIGN && x.Tok != token.DEFINE {
					v = symUnknownOf(x.Rhs[i])
				}
				w.assign(l, v, x, x.Tok == token.DEFINE)
			}
		} else if len(x.Rhs) == 1 {
			v := w.eval(x.Rhs[0])
			for i, l := range x.Lhs {
				var part *Sym
				if v.K == symList && v.Fn == "tuple" && i < len(v.Parts) {
					part = v.Parts[i]
				} else if i == 0 {
					// v, ok := m[k] / x.(T): the first value is the operand itself
					switch ast.Unparen(x.Rhs[0]).(type) {
					case *ast.IndexExpr, *ast.TypeAssertExpr:
						part = v
					default:
						part = &Sym{K: symCall, Fn: "result0", Parts: []*Sym{v}}
					}
				} else {
					part = &Sym{K: symCall, Fn: fmt.Sprintf("result%d", i), Parts: []*Sym{v}}
				}
				w.assign(l, part, x, x.Tok == token.DEFINE)
			}
		}
	case *ast.IncDecStmt:
		if id, ok := x.X.(*ast.Ident); ok {
			if o := w.info.Uses[id]; o != nil {
				w.env[o] = symUnknownOf(x.X)
			}
		}
	case *ast.ReturnStmt:
		res := w.evalAll(x.Results)
		if len(x.Results) == 0 && w.fd != nil && w.fd.Type.Results != nil {
			// a bare return of named results
			for _, f := range w.fd.Type.Results.List {
				for _, nm := range f.Names {
					if o := w.info.Defs[nm]; o != nil {
						res = append(res, w.lookup(o, nm))
					}
				}
			}
		}
		w.returned = res
		w.nret++
		w.rets = append(w.rets, symReturn{condsText(w.conds[min(w.baseCond, len(w.conds)):]), res})
		if w.OnReturn != nil {
			w.OnReturn(w, x, res)
		}
		return true
	case *ast.BranchStmt:
		if x.Tok == token.BREAK {
			allConst := true
			for _, cnd := range w.conds {
				if _, isConst := cnd.Cond.ConstBool(); !isConst {
					allConst = false
				}
			}
			// (conditions recorded before the loop are constant or irrelevant for the rules that unroll tables)
			if allConst || w.AssumeFn != nil {
				w.broke = true
			}
		}
		return x.Tok == token.CONTINUE || x.Tok == token.BREAK || x.Tok == token.GOTO
	case *ast.SendStmt:
		ch, val := w.eval(x.Chan), w.eval(x.Value)
		if w.OnSend != nil {
			w.OnSend(w, x, ch, val)
		}
	case *ast.IfStmt:
		if x.Init != nil {
			w.stmt(x.Init)
		}
		cond := w.eval(x.Cond)
		if b, ok := cond.ConstBool(); ok {
			if b {
				return w.block(x.Body.List)
			}
			if x.Else != nil {
				return w.stmt(x.Else)
			}
			return false
		}
		assigned := w.assignedIn(x)
		snap := w.snapshot()
		feas0 := copyFeas(w.feas)
		w.conds = append(w.conds, symCond{cond, false})
		w.assumeNilTest(cond, true)
		t1 := w.block(x.Body.List)
		w.conds = w.conds[:len(w.conds)-1]
		env1 := w.env
		feas1 := w.feas
		w.env = snap
		w.feas = copyFeas(feas0)
		w.assumeNilTest(cond, false)
		t2 := false
		if x.Else != nil {
			w.conds = append(w.conds, symCond{cond, true})
			t2 = w.stmt(x.Else)
			w.conds = w.conds[:len(w.conds)-1]
		}
		env2 := w.env
		feas2 := w.feas
		switch {
		case t1 && t2:
			return true
		case t1:
			w.env = env2
			w.feas = feas2
			w.conds = append(w.conds, symCond{cond, true}) // popped at the end of the enclosing block
		case t2:
			w.env = env1
			w.feas = feas1
			w.conds = append(w.conds, symCond{cond, false})
		default:
			// both branches continue: an alternative is possible when it is possible in either
			merged := copyFeas(feas0)
			for k, f1 := range feas1 {
				f2, ok := feas2[k]
				if !ok || len(f2) != len(f1) {
					delete(merged, k)
					continue
				}
				m := make([]bool, len(f1))
				for i := range f1 {
					m[i] = f1[i] || f2[i]
				}
				merged[k] = m
			}
			w.feas = merged
			// merge: objects assigned in either branch keep their value only when both agree
			w.env = env2
			for o := range assigned {
				a, b := env1[o], env2[o]
				if a != nil && b != nil && a.String() == b.String() {
					continue
				}
				if a == nil && b == nil {
					continue
				}
				if a != nil && b != nil {
					w.env[o] = mkChoice([]string{cond.String(), "!" + cond.String()}, []*Sym{a, b})
					continue
				}
				w.env[o] = &Sym{K: symUnknown, Name: "merged:" + o.Name()}
			}
			for o, v := range env1 {
				if _, ok := w.env[o]; !ok {
					w.env[o] = v
				}
			}
		}
	case *ast.RangeStmt:
		X := w.eval(x.X)
		staticList := X.K == symList && len(X.Parts) <= 64
		for _, part := range X.Parts {
			if part.K == symRepeat {
				staticList = false // one entry per element of another collection: not a table
			}
		}
		if staticList {
			for i, el := range X.Parts {
				if x.Key != nil {
					w.assign(x.Key, &Sym{K: symConst, C: constant.MakeInt64(int64(i))}, x, true)
				}
				if x.Value != nil {
					w.assign(x.Value, el, x, true)
				}
				w.broke = false
				w.block(x.Body.List)
				if w.broke {
					w.broke = false
					break
				}
			}
			return false
		}
		savedBrokeR := w.broke
		defer func() { w.broke = savedBrokeR }()
		isChan := false
		if tv, ok := w.info.Types[x.X]; ok {
			_, isChan = tv.Type.Underlying().(*types.Chan)
		}
		assigned := w.assignedIn(x.Body)
		// accumulators: `acc = append(acc, e...)` as a direct, unconditional statement of the body and the only assignment
		accs := map[types.Object]*Sym{}
		counts := map[types.Object]int{}
		ast.Inspect(x.Body, func(m ast.Node) bool {
			if as, ok := m.(*ast.AssignStmt); ok {
				for _, l := range as.Lhs {
					if id, ok := l.(*ast.Ident); ok {
						if o := w.info.Uses[id]; o != nil {
							counts[o]++
						}
					}
				}
			}
			return true
		})
		skipped := false // an earlier statement of the body can skip the rest of the iteration
		for _, st := range x.Body.List {
			if skipped {
				break
			}
			ast.Inspect(st, func(m ast.Node) bool {
				switch m.(type) {
				case *ast.BranchStmt, *ast.ReturnStmt:
					skipped = true
				case *ast.FuncLit:
					return false
				}
				return true
			})
			as, ok := st.(*ast.AssignStmt)
			if !ok || len(as.Lhs) != 1 || len(as.Rhs) != 1 || as.Tok != token.ASSIGN {
				continue
			}
			id, ok := as.Lhs[0].(*ast.Ident)
			if !ok {
				continue
			}
			o := w.info.Uses[id]
			call, ok := as.Rhs[0].(*ast.CallExpr)
			if o == nil || !ok || len(call.Args) < 2 || call.Ellipsis.IsValid() || counts[o] != 1 {
				continue
			}
			if fid, ok := call.Fun.(*ast.Ident); !ok || fid.Name != "append" {
				continue
			}
			if a0, ok := ast.Unparen(call.Args[0]).(*ast.Ident); !ok || w.info.Uses[a0] != o {
				continue
			}
			if prev, ok := w.env[o]; ok && prev.K == symList {
				accs[o] = prev
			}
		}
		// fills: `dst[key] = e` as a direct statement, dst := make([]T, len(X)), key the range key
		type fill struct {
			o    types.Object
			stmt *ast.AssignStmt
		}
		var fills []fill
		if keyID, ok := x.Key.(*ast.Ident); ok && keyID.Name != "_" {
			keyObj := w.info.Defs[keyID]
			skippedF := false
			for _, st := range x.Body.List {
				if skippedF {
					break
				}
				ast.Inspect(st, func(m ast.Node) bool {
					switch m.(type) {
					case *ast.BranchStmt, *ast.ReturnStmt:
						skippedF = true
					case *ast.FuncLit:
						return false
					}
					return true
				})
				as, ok := st.(*ast.AssignStmt)
				if !ok || len(as.Lhs) != 1 || len(as.Rhs) != 1 || as.Tok != token.ASSIGN {
					continue
				}
				ix, ok := as.Lhs[0].(*ast.IndexExpr)
				if !ok {
					continue
				}
				dst, ok1 := ast.Unparen(ix.X).(*ast.Ident)
				kid, ok2 := ast.Unparen(ix.Index).(*ast.Ident)
				if !ok1 || !ok2 || w.info.Uses[kid] != keyObj || keyObj == nil {
					continue
				}
				o := w.info.Uses[dst]
				prev := w.env[o]
				if o == nil || prev == nil || prev.K != symCall || prev.Fn != "make" || len(prev.Parts) != 2 {
					continue
				}
				if prev.Parts[1].K != symLen || prev.Parts[1].X.String() != X.String() {
					continue
				}
				fills = append(fills, fill{o, as})
			}
		}
		w.forget(assigned, x) // loop-carried values are unknown inside the body as well
		for o := range accs {
			w.env[o] = &Sym{K: symAcc, Obj: o}
		}
		if x.Key != nil {
			if isChan {
				w.assign(x.Key, &Sym{K: symElem, X: X}, x, true)
			} else {
				w.assign(x.Key, &Sym{K: symIdx, X: X}, x, true)
			}
		}
		if x.Value != nil {
			w.assign(x.Value, &Sym{K: symElem, X: X}, x, true)
		}
		w.loops = append(w.loops, X)
		w.block(x.Body.List)
		w.loops = w.loops[:len(w.loops)-1]
		after := map[types.Object]*Sym{}
		for o, prev := range accs {
			if v := w.env[o]; v != nil && v.K == symCall && v.Fn == "append" && len(v.Parts) >= 2 && v.Parts[0].K == symAcc {
				out := &Sym{K: symList, Type: prev.Type}
				out.Parts = append(append(out.Parts, prev.Parts...), &Sym{K: symRepeat, X: X, Parts: v.Parts[1:]})
				after[o] = out
			}
		}
		w.forget(assigned, x)
		for o, v := range after {
			w.env[o] = v
		}
		for _, f := range fills {
			// evaluate the stored value once more in the loop's binding (no events: callbacks muted)
			sub := &symWalker{p: w.p, pk: w.pk, info: w.info, fd: w.fd, env: copyEnv(w.env), stack: w.stack, depth: w.depth, Inline: nil}
			if x.Key != nil {
				sub.assign(x.Key, &Sym{K: symIdx, X: X}, x, true)
			}
			if x.Value != nil {
				sub.assign(x.Value, &Sym{K: symElem, X: X}, x, true)
			}
			v := sub.eval(f.stmt.Rhs[0])
			w.env[f.o] = &Sym{K: symList, Parts: []*Sym{{K: symRepeat, X: X, Parts: []*Sym{v}}}}
		}
	case *ast.ForStmt:
		savedBrokeF := w.broke
		defer func() { w.broke = savedBrokeF }()
		if x.Init != nil {
			w.stmt(x.Init)
		}
		assigned := w.assignedIn(x)
		w.forget(assigned, x)
		bound := symUnknownOf(x.Cond)
		if x.Cond != nil {
			bound = w.eval(x.Cond)
		}
		w.loops = append(w.loops, &Sym{K: symCall, Fn: "for", Parts: []*Sym{bound}})
		w.block(x.Body.List)
		w.loops = w.loops[:len(w.loops)-1]
		w.forget(assigned, x)
	case *ast.SwitchStmt:
		savedBroke := w.broke
		defer func() { w.broke = savedBroke }()
		if x.Init != nil {
			w.stmt(x.Init)
		}
		var tag *Sym
		if x.Tag != nil {
			tag = w.eval(x.Tag)
		}
		assigned := w.assignedIn(x)
		snap := w.snapshot()
		allTerm, hasDefault := true, false
		taken, constTaken := false, false
		var prior []symCond
		for _, cl := range x.Body.List {
			cc, ok := cl.(*ast.CaseClause)
			if !ok {
				continue
			}
			if !taken {
				w.env = copyEnv(snap)
			}
			var cond *Sym
			for _, ce := range cc.List {
				v := w.eval(ce)
				var one *Sym
				if tag != nil {
					one = &Sym{K: symBin, X: tag, Y: v, Op: token.EQL}
				} else {
					one = v
				}
				if cond == nil {
					cond = one
				} else {
					cond = &Sym{K: symBin, X: cond, Y: one, Op: token.LOR}
				}
			}
			base := len(w.conds)
			if cond != nil {
				cond = fold(cond)
				if cond.K == symBin && cond.Op == token.LOR {
					// fold a disjunction of constant comparisons
					var flat func(s *Sym) (bool, bool)
					flat = func(s *Sym) (bool, bool) {
						s = fold(s)
						if b, ok := s.ConstBool(); ok {
							return b, true
						}
						if s.K == symBin && s.Op == token.LOR {
							lb, lok := flat(s.X)
							rb, rok := flat(s.Y)
							if lok && lb || rok && rb {
								return true, true
							}
							if lok && rok {
								return false, true
							}
						}
						return false, false
					}
					if b, ok := flat(cond); ok {
						cond = symBool(b)
					}
				}
			}
			if taken {
				continue
			}
			if cond != nil {
				if b, ok := cond.ConstBool(); ok {
					if !b {
						continue
					}
					taken = true
					if !w.block(cc.Body) {
						allTerm = false
					}
					constTaken = true
					continue
				}
			}
			if cond == nil {
				hasDefault = true
				w.conds = append(w.conds, prior...)
			} else {
				w.conds = append(w.conds, symCond{cond, false})
				prior = append(prior, symCond{cond, true})
			}
			if !w.block(cc.Body) {
				allTerm = false
			}
			w.conds = w.conds[:base]
		}
		if constTaken {
			// the taken clause ran in the copied environment of its iteration: keep it
			return false
		}
		w.env = snap
		w.forget(assigned, x)
		return allTerm && hasDefault
	case *ast.TypeSwitchStmt:
		savedBrokeT := w.broke
		defer func() { w.broke = savedBrokeT }()
		if x.Init != nil {
			w.stmt(x.Init)
		}
		var subject *Sym
		switch a := x.Assign.(type) {
		case *ast.AssignStmt:
			if len(a.Rhs) == 1 {
				if ta, ok := ast.Unparen(a.Rhs[0]).(*ast.TypeAssertExpr); ok {
					subject = w.eval(ta.X)
				}
			}
		case *ast.ExprStmt:
			if ta, ok := ast.Unparen(a.X).(*ast.TypeAssertExpr); ok {
				subject = w.eval(ta.X)
			}
		}
		assigned := w.assignedIn(x)
		snap := w.snapshot()
		for _, cl := range x.Body.List {
			cc, ok := cl.(*ast.CaseClause)
			if !ok {
				continue
			}
			w.env = copyEnv(snap)
			if o := w.info.Implicits[cc]; o != nil && subject != nil {
				w.env[o] = subject
			}
			var names []string
			for _, ce := range cc.List {
				names = append(names, types.ExprString(ce))
			}
			base := len(w.conds)
			w.conds = append(w.conds, symCond{&Sym{K: symCall, Fn: "typeis", Parts: []*Sym{subject}, Name: strings.Join(names, "|")}, false})
			w.block(cc.Body)
			w.conds = w.conds[:base]
		}
		w.env = snap
		w.forget(assigned, x)
	case *ast.DeferStmt:
		w.eval(x.Call)
	case *ast.GoStmt:
		w.eval(x.Call)
	case *ast.LabeledStmt:
		return w.stmt(x.Stmt)
	}
	return false
}

func (w *symWalker) snapshot() map[types.Object]*Sym {
	s := w.env
	w.env = copyEnv(s)
	return s
}

func copyEnv(e map[types.Object]*Sym) map[types.Object]*Sym {
	out := make(map[types.Object]*Sym, len(e))
	for k, v := range e {
		out[k] = v
	}
	return out
}

// symRoots: the functions of pk that no other function of pk refers to (entry points of the package's own call tree);
// walking them with inlining visits every function in the context it is used in.
func symRoots(pk *packages.Package) []*ast.FuncDecl {
	called := map[types.Object]bool{}
	var all []*ast.FuncDecl
	for _, f := range pk.Syntax {
		if strings.HasSuffix(pk.Fset.Position(f.Pos()).Filename, "_test.go") {
			continue
		}
		for _, d := range f.Decls {
			fd, ok := d.(*ast.FuncDecl)
			if !ok || fd.Body == nil {
				continue
			}
			all = append(all, fd)
			self := pk.TypesInfo.Defs[fd.Name]
			ast.Inspect(fd.Body, func(n ast.Node) bool {
				if id, ok := n.(*ast.Ident); ok {
					if fo, ok := pk.TypesInfo.Uses[id].(*types.Func); ok && fo.Pkg() == pk.Types && types.Object(fo) != self {
						called[fo] = true
					}
				}
				return true
			})
		}
	}
	var roots []*ast.FuncDecl
	for _, fd := range all {
		if !called[pk.TypesInfo.Defs[fd.Name]] {
			roots = append(roots, fd)
		}
	}
	return roots
}

func samePkgInline(pk *packages.Package) func(fn *types.Func) bool {
	return func(fn *types.Func) bool { return fn.Pkg() == pk.Types }
}

// copyIfStruct: assigning a struct value copies it; the copy is represented field by field so that later field stores
// update the copy and not the original.
func (w *symWalker) copyIfStruct(t types.Type, val *Sym) *Sym {
	if val == nil || t == nil {
		return val
	}
	st, ok := t.Underlying().(*types.Struct)
	if !ok {
		return val
	}
	switch val.K {
	case symVar, symField, symElem, symIndex:
	default:
		return val
	}
	out := &Sym{K: symStruct, Fields: map[string]*Sym{}, Type: t, Name: "copy"}
	for i := 0; i < st.NumFields(); i++ {
		f := st.Field(i)
		out.Fields[f.Name()] = &Sym{K: symField, X: val, Name: f.Name(), Type: f.Type(), RecvT: t}
		out.Order = append(out.Order, f.Name())
	}
	return out
}

// FieldDeep finds a (possibly promoted) field of a struct value: directly, or inside EMBEDDED struct values (a field that
// merely has struct type, such as Variable, is not searched: its Name is not the rule's Name).
func (s *Sym) FieldDeep(name string) (*Sym, bool) {
	if s == nil || s.K != symStruct {
		return nil, false
	}
	if f, ok := s.Fields[name]; ok {
		return f, true
	}
	embedded := map[string]bool{}
	known := false
	if s.Type != nil {
		if st, ok := s.Type.Underlying().(*types.Struct); ok {
			known = true
			for i := 0; i < st.NumFields(); i++ {
				if st.Field(i).Embedded() {
					embedded[st.Field(i).Name()] = true
				}
			}
		}
	}
	for _, k := range s.Order {
		if known && !embedded[k] {
			continue
		}
		f := s.Fields[k]
		if f.K == symStruct {
			if v, ok := f.FieldDeep(name); ok {
				return v, true
			}
		}
	}
	return nil, false
}

func min(a, b int) int {
	if a < b {
		return a
	}
	return b
}

// Template renders a text value: constants literally, symbolic parts as ‹…›.
func (s *Sym) Template() string {
	if s == nil {
		return "‹?›"
	}
	if c, ok := s.ConstString(); ok {
		return c
	}
	if s.K == symConcat {
		var b strings.Builder
		for _, p := range s.Parts {
			b.WriteString(p.Template())
		}
		return b.String()
	}
	if s.K == symConst && s.C != nil {
		return s.C.ExactString()
	}
	return "‹" + s.String() + "›"
}

// globalTable: an unexported package-level variable of the module that is initialised with a composite literal (a table)
// and never assigned, stored through or address-taken anywhere in its package is read as that literal.
func (w *symWalker) globalTable(v *types.Var) *Sym {
	if w.globalsSeen == nil {
		w.globalsSeen = map[types.Object]*Sym{}
	}
	if s, ok := w.globalsSeen[v]; ok {
		return s
	}
	w.globalsSeen[v] = nil
	init, pk := w.p.varInitializer(v)
	if init == nil || pk == nil {
		return nil
	}
	if _, ok := ast.Unparen(init).(*ast.CompositeLit); !ok {
		return nil
	}
	mutated := false
	for _, f := range pk.Syntax {
		ast.Inspect(f, func(n ast.Node) bool {
			switch x := n.(type) {
			case *ast.AssignStmt:
				for _, l := range x.Lhs {
					ast.Inspect(l, func(m ast.Node) bool {
						if id, ok := m.(*ast.Ident); ok && pk.TypesInfo.Uses[id] == types.Object(v) {
							mutated = true
						}
						return true
					})
				}
			case *ast.UnaryExpr:
				if x.Op == token.AND {
					if id, ok := ast.Unparen(x.X).(*ast.Ident); ok && pk.TypesInfo.Uses[id] == types.Object(v) {
						mutated = true
					}
				}
			case *ast.IncDecStmt:
				ast.Inspect(x.X, func(m ast.Node) bool {
					if id, ok := m.(*ast.Ident); ok && pk.TypesInfo.Uses[id] == types.Object(v) {
						mutated = true
					}
					return true
				})
			}
			return true
		})
	}
	if mutated {
		return nil
	}
	sub := &symWalker{p: w.p, pk: pk, info: pk.TypesInfo, env: map[types.Object]*Sym{}, stack: map[types.Object]bool{}, globalsSeen: w.globalsSeen}
	val := sub.eval(init)
	w.globalsSeen[v] = val
	return val
}
