package main

// E-sym: a small symbolic evaluator over the syntax of straight-line / loop-over-table Go code.
//
// Several rules compare "what value reaches this call / this map key" with a table confirmed by hand. Matching the
// syntax of today's code (three copy-pasted loops, a Sprintf, a particular if/else) makes such a rule fire on refactorings
// that leave the behaviour unchanged. E-sym instead evaluates the function symbolically:
//   - strings are normalised to a concatenation of constants and symbolic parts (a + "_" + b, Sprintf("%s_%d", a, b) and
//     a + "_" + strconv.Itoa(b) have the same shape);
//   - loops over composite literals (tables) are unrolled, element fields are substituted;
//   - loops over other values bind the key to Idx(X) and the value to Elem(X);
//   - calls to functions of the module are interpreted in the caller's context (bounded depth, no recursion);
//   - every call, store and return is reported to the rule together with the path conditions and enclosing loops.
// The evaluator never guesses: what it cannot evaluate is Unknown, and rules treat Unknown as undecided.

import (
	"fmt"
	"go/ast"
	"go/constant"
	"go/token"
	"go/types"
	"sort"
	"strconv"
	"strings"

	"golang.org/x/tools/go/packages"
)

type symKind int

const (
	symUnknown symKind = iota
	symConst
	symVar    // a parameter, free or package-level variable
	symField  // X.Name
	symConcat // Parts joined
	symCall   // Fn(Parts...)
	symList   // Parts are the elements
	symStruct // Fields (struct literal or map literal with constant keys)
	symElem   // an element of X (range value)
	symIdx    // the index / key of a range over X
	symLen    // len(X)
	symBin    // X Op Y
	symNot    // !X
	symIndex  // X[Y]
	symNil
	symRepeat // inside a list: for every element of X (in order), the values Parts are appended
	symAcc    // placeholder for an accumulator while the loop body that appends to it is evaluated
	symChoice // one of Parts, Alts[i] is the condition under which Parts[i] is the value
	symWhen   // inside a list: the values Parts are appended when the condition X holds (Name: its text)
	symFuncLit
)

type Sym struct {
	K        symKind
	C        constant.Value
	Obj      types.Object
	X, Y     *Sym
	Name     string
	Parts    []*Sym
	Fields   map[string]*Sym
	Order    []string // field / key order of a struct or map literal
	Fn       string
	Op       token.Token
	Expr     ast.Expr
	Type     types.Type
	Alts     []string              // symChoice: the condition of each alternative
	Env      map[types.Object]*Sym // symFuncLit: the environment the literal was created in
	Lit      *ast.FuncLit
	RecvT    types.Type // symField: the static type of the expression the field was selected from
	Origin   ast.Node   // symChoice from a multi-return helper: the call; alternatives of all results of that call are aligned
	AltConds []*Sym     // symChoice from an if/else merge: the condition of each alternative as a value
	// symChoice from a multi-return helper: the path conditions of each of the helper's returns; Under: on a value that
	// was selected from such a choice (the others being infeasible here), the conditions under which the helper returned it
	AltUnder [][]symCond
	Under    []symCond
	// symStruct values created while a function is walked: the path conditions and loop depth at that point, so that a
	// later store into the value can be told unconditional (same conditions) from conditional
	Born      []symCond
	BornLoops int
	HasBorn   bool
}

func symUnknownOf(e ast.Expr) *Sym { return &Sym{K: symUnknown, Expr: e} }

// dynamicPart: a list part that stands for a number of elements not known statically.
func dynamicPart(p *Sym) bool { return p.K == symRepeat || p.K == symWhen || p.K == symAcc }

// listStatic: every part of the list is one element.
func listStatic(s *Sym) bool {
	if s == nil || s.K != symList {
		return false
	}
	for _, p := range s.Parts {
		if dynamicPart(p) {
			return false
		}
	}
	return true
}

// lenLowerBound: the number of elements the list certainly has.
func lenLowerBound(s *Sym) int {
	n := 0
	for _, p := range s.Parts {
		if !dynamicPart(p) {
			n++
		}
	}
	return n
}

func symStr(s string) *Sym { return &Sym{K: symConst, C: constant.MakeString(s)} }

func (s *Sym) ConstString() (string, bool) {
	if s != nil && s.K == symConst && s.C != nil && s.C.Kind() == constant.String {
		return constant.StringVal(s.C), true
	}
	return "", false
}

func (s *Sym) ConstInt() (int64, bool) {
	if s != nil && s.K == symConst && s.C != nil && s.C.Kind() == constant.Int {
		v, ok := constant.Int64Val(s.C)
		return v, ok
	}
	return 0, false
}

func (s *Sym) ConstBool() (bool, bool) {
	if s != nil && s.K == symConst && s.C != nil && s.C.Kind() == constant.Bool {
		return constant.BoolVal(s.C), true
	}
	return false, false
}

// String renders a canonical text: two values with the same text have the same shape.
func (s *Sym) String() string {
	if s == nil {
		return "?"
	}
	switch s.K {
	case symConst:
		if s.C == nil {
			return "const"
		}
		if s.C.Kind() == constant.String {
			return strconv.Quote(constant.StringVal(s.C))
		}
		return s.C.ExactString()
	case symNil:
		return "nil"
	case symVar:
		if s.Obj != nil {
			return s.Obj.Name()
		}
		return "var"
	case symField:
		return s.X.String() + "." + s.Name
	case symConcat:
		var ps []string
		for _, p := range s.Parts {
			ps = append(ps, p.String())
		}
		return strings.Join(ps, "+")
	case symCall:
		var ps []string
		for _, p := range s.Parts {
			ps = append(ps, p.String())
		}
		if s.X != nil {
			return s.X.String() + "->" + s.Fn + "(" + strings.Join(ps, ",") + ")"
		}
		return s.Fn + "(" + strings.Join(ps, ",") + ")"
	case symList:
		var ps []string
		for _, p := range s.Parts {
			ps = append(ps, p.String())
		}
		return "[" + strings.Join(ps, ",") + "]"
	case symStruct:
		var ps []string
		keys := append([]string{}, s.Order...)
		sort.Strings(keys)
		for _, k := range keys {
			ps = append(ps, k+":"+s.Fields[k].String())
		}
		return "{" + strings.Join(ps, ",") + "}"
	case symElem:
		return s.X.String() + "[*]"
	case symIdx:
		return "#" + s.X.String()
	case symLen:
		return "len(" + s.X.String() + ")"
	case symBin:
		return "(" + s.X.String() + " " + s.Op.String() + " " + s.Y.String() + ")"
	case symNot:
		return "!" + s.X.String()
	case symIndex:
		return s.X.String() + "[" + s.Y.String() + "]"
	case symRepeat:
		var ps []string
		for _, p := range s.Parts {
			ps = append(ps, p.String())
		}
		return "each(" + s.X.String() + " => " + strings.Join(ps, ",") + ")"
	case symAcc:
		if s.Obj != nil {
			return "acc:" + s.Obj.Name()
		}
		return "acc"
	case symWhen:
		var ps []string
		for _, p := range s.Parts {
			ps = append(ps, p.String())
		}
		return "when(" + s.Name + " => " + strings.Join(ps, ",") + ")"
	case symChoice:
		var ps []string
		for i, p := range s.Parts {
			ps = append(ps, s.Alts[i]+" => "+p.String())
		}
		return "choice(" + strings.Join(ps, " | ") + ")"
	case symFuncLit:
		return "func-literal"
	}
	if s.Expr != nil {
		return "?(" + types.ExprString(s.Expr) + ")"
	}
	return "?"
}

// HasUnknown reports whether any part of the value could not be evaluated.
func (s *Sym) HasUnknown() bool {
	if s == nil {
		return true
	}
	if s.K == symUnknown {
		return true
	}
	for _, p := range s.Parts {
		if p.HasUnknown() {
			return true
		}
	}
	for _, p := range s.Fields {
		if p.HasUnknown() {
			return true
		}
	}
	if s.X != nil && s.X.HasUnknown() {
		return true
	}
	if s.Y != nil && s.Y.HasUnknown() {
		return true
	}
	return false
}

// Walk visits s and all its sub-values.
func (s *Sym) Walk(f func(*Sym)) {
	if s == nil {
		return
	}
	f(s)
	for _, p := range s.Parts {
		p.Walk(f)
	}
	for _, k := range s.Order {
		s.Fields[k].Walk(f)
	}
	s.X.Walk(f)
	s.Y.Walk(f)
}

type symCond struct {
	Cond *Sym
	Neg  bool
	// Residual: the condition holds for the rest of the enclosing block because the other branch left it (continue,
	// break, return), as opposed to the condition of the branch being walked
	Residual bool
}

func (c symCond) String() string {
	if c.Neg {
		return fold(&Sym{K: symNot, X: c.Cond}).String()
	}
	return c.Cond.String()
}

// normalised emptiness test: returns (X, true, isEmpty) when the condition says len(X)==0 (isEmpty) or len(X)!=0.
func (c symCond) Emptiness() (*Sym, bool, bool) {
	s, neg := c.Cond, c.Neg
	for s != nil && s.K == symNot {
		s, neg = s.X, !neg
	}
	if s == nil || s.K != symBin {
		return nil, false, false
	}
	x, y, op := s.X, s.Y, s.Op
	if x.K == symConst && y.K == symLen {
		x, y = y, x
		switch op {
		case token.LSS:
			op = token.GTR
		case token.GTR:
			op = token.LSS
		case token.LEQ:
			op = token.GEQ
		case token.GEQ:
			op = token.LEQ
		}
	}
	if x.K != symLen {
		// x == nil for slices / maps
		if y.K == symNil && (op == token.EQL || op == token.NEQ) {
			empty := op == token.EQL
			if neg {
				empty = !empty
			}
			_ = empty
		}
		return nil, false, false
	}
	n, ok := y.ConstInt()
	if !ok {
		return nil, false, false
	}
	var empty bool
	switch {
	case op == token.EQL && n == 0, op == token.LSS && n == 1, op == token.LEQ && n == 0:
		empty = true
	case op == token.NEQ && n == 0, op == token.GTR && n == 0, op == token.GEQ && n == 1:
		empty = false
	default:
		return nil, false, false
	}
	if neg {
		empty = !empty
	}
	return x.X, true, empty
}

type symWalker struct {
	p     *Prog
	pk    *packages.Package
	info  *types.Info
	fd    *ast.FuncDecl
	env   map[types.Object]*Sym
	conds []symCond
	loops []*Sym
	depth int
	stack map[types.Object]bool
	// Inline decides which module functions are interpreted in the caller's context (nil: none).
	Inline func(fn *types.Func) bool
	// callbacks
	OnCall   func(w *symWalker, call *ast.CallExpr, fn types.Object, args []*Sym, result *Sym)
	OnStore  func(w *symWalker, at ast.Node, target *Sym, key *Sym, val *Sym)
	OnReturn func(w *symWalker, ret *ast.ReturnStmt, results []*Sym)
	// OnStruct is called for every struct composite literal that is evaluated
	OnStruct func(w *symWalker, lit *ast.CompositeLit, val *Sym)
	// OnText is called for every outermost string concatenation / Sprintf with a constant format
	OnText    func(w *symWalker, at ast.Expr, text *Sym)
	textDepth int
	returned  []*Sym // last return values seen at depth of this walker
	nret      int
	rets      []symReturn
	baseCond  int
	// Assume fixes the truth value of boolean expressions by their canonical text (e.g. "rule.Negated")
	Assume map[string]bool
	// AssumeFn may replace a field / variable value by a constant (a case split by the rule)
	AssumeFn func(s *Sym) *Sym
	// OnSend is called for every channel send statement
	OnSend           func(w *symWalker, st *ast.SendStmt, ch *Sym, val *Sym)
	feas             map[ast.Node][]bool // per multi-return call: which of its return alternatives are still possible on this path
	broke            bool                // an unconditional break was executed in the loop body being unrolled
	loopFrames       []*loopFrame        // the enclosing loops of this function whose bodies are being walked
	lastTerm         token.Token         // how the last terminating statement left: RETURN, BREAK, CONTINUE, GOTO (panic counts as RETURN)
	inheritedLeft    []string            // the same for the loops of the callers this function is interpreted in
	inheritedStopped bool
	derefStored      map[types.Object]bool // pointer parameters / receivers through which this function stored (`*p = v`)
	globalsSeen      map[types.Object]*Sym
}

// loopFrame records, for a loop body being walked, under which conditions an earlier statement left the iteration
// (continue) or the loop (break, return): what is appended to a list afterwards is appended for the other elements only.
type loopFrame struct {
	base        int      // len(conds) at loop entry
	left        []string // continue: this iteration only
	leftForGood []string // break / return / labelled jumps: this and all later iterations
	switchDepth int      // switch / select statements open inside the body (break leaves those)
	// variables assigned in a branch that then left the iteration with break / continue: the value travels to the loop's
	// exit (or to the next iteration) although the walk drops that branch's state
	escaped map[types.Object]bool
}

type symReturn struct {
	conds    string
	vals     []*Sym
	condSyms []symCond
}

func mkChoice(alts []string, vals []*Sym) *Sym {
	same := true
	for _, v := range vals[1:] {
		if v.String() != vals[0].String() {
			same = false
		}
	}
	if same {
		return vals[0]
	}
	c := &Sym{K: symChoice, Parts: vals, Alts: alts}
	if len(c.String()) > 6000 {
		return &Sym{K: symUnknown, Name: "choice too large"}
	}
	return c
}

func symBool(b bool) *Sym { return &Sym{K: symConst, C: constant.MakeBool(b)} }

// fold simplifies boolean structure with constant operands.
func fold(s *Sym) *Sym {
	switch s.K {
	case symNot:
		if b, ok := s.X.ConstBool(); ok {
			return symBool(!b)
		}
		if s.X.K == symNot {
			return s.X.X
		}
	case symBin:
		// nil compared with nil (the error a helper certainly returned as nil)
		if s.X != nil && s.Y != nil && s.X.K == symNil && s.Y.K == symNil {
			switch s.Op {
			case token.EQL:
				return symBool(true)
			case token.NEQ:
				return symBool(false)
			}
		}
		// integer arithmetic and comparisons on constants
		if li, ok1 := s.X.ConstInt(); ok1 {
			if ri, ok2 := s.Y.ConstInt(); ok2 {
				switch s.Op {
				case token.ADD:
					return &Sym{K: symConst, C: constant.MakeInt64(li + ri)}
				case token.SUB:
					return &Sym{K: symConst, C: constant.MakeInt64(li - ri)}
				case token.MUL:
					return &Sym{K: symConst, C: constant.MakeInt64(li * ri)}
				case token.LSS:
					return symBool(li < ri)
				case token.LEQ:
					return symBool(li <= ri)
				case token.GTR:
					return symBool(li > ri)
				case token.GEQ:
					return symBool(li >= ri)
				case token.EQL:
					return symBool(li == ri)
				case token.NEQ:
					return symBool(li != ri)
				}
			}
		}
		// len(list) compared with a constant: the list certainly has its static parts
		if s.X.K == symLen && s.X.X != nil && s.X.X.K == symList {
			if c, ok := s.Y.ConstInt(); ok {
				m := int64(lenLowerBound(s.X.X))
				switch s.Op {
				case token.GTR:
					if m > c {
						return symBool(true)
					}
				case token.GEQ:
					if m >= c {
						return symBool(true)
					}
				case token.NEQ:
					if m > c {
						return symBool(true)
					}
				case token.EQL:
					if m > c {
						return symBool(false)
					}
				case token.LSS:
					if m >= c {
						return symBool(false)
					}
				case token.LEQ:
					if m > c {
						return symBool(false)
					}
				}
			}
		}
		lb, lok := s.X.ConstBool()
		rb, rok := s.Y.ConstBool()
		switch s.Op {
		case token.LAND:
			if lok && !lb || rok && !rb {
				return symBool(false)
			}
			if lok && lb {
				return s.Y
			}
			if rok && rb {
				return s.X
			}
		case token.LOR:
			if lok && lb || rok && rb {
				return symBool(true)
			}
			if lok && !lb {
				return s.Y
			}
			if rok && !rb {
				return s.X
			}
		case token.EQL, token.NEQ:
			// comparison of a boolean with a constant
			if lok != rok {
				x, b := s.Y, lb
				if rok {
					x, b = s.X, rb
				}
				if b == (s.Op == token.EQL) {
					return x
				}
				return fold(&Sym{K: symNot, X: x})
			}
			if s.X.K == symConst && s.Y.K == symConst && s.X.C != nil && s.Y.C != nil && s.X.C.Kind() == s.Y.C.Kind() {
				eq := constant.Compare(s.X.C, token.EQL, s.Y.C)
				return symBool(eq == (s.Op == token.EQL))
			}
		}
	}
	return s
}

func (w *symWalker) Conds() []symCond { return append([]symCond{}, w.conds...) }
func (w *symWalker) Loops() []*Sym    { return append([]*Sym{}, w.loops...) }
func (w *symWalker) FuncName() string {
	if w.fd == nil {
		return ""
	}
	if rn := recvName(w.fd); rn != "" {
		return rn + "." + w.fd.Name.Name
	}
	return w.fd.Name.Name
}

// findDecl locates the syntax of a module function.
func (p *Prog) findDecl(fn *types.Func) (*ast.FuncDecl, *packages.Package) {
	if fn == nil || fn.Pkg() == nil || !strings.HasPrefix(fn.Pkg().Path(), ModulePath) {
		return nil, nil
	}
	pk := p.AnyPkg(fn.Pkg().Path())
	if pk == nil {
		return nil, nil
	}
	for _, f := range pk.Syntax {
		for _, d := range f.Decls {
			if fd, ok := d.(*ast.FuncDecl); ok && pk.TypesInfo.Defs[fd.Name] == types.Object(fn) {
				return fd, pk
			}
		}
	}
	return nil, nil
}

// SymWalk evaluates fd symbolically; params are bound to symVar unless given in bind.
func (p *Prog) SymWalk(pk *packages.Package, fd *ast.FuncDecl, proto *symWalker, bind map[types.Object]*Sym) *symWalker {
	w := &symWalker{p: p, pk: pk, info: pk.TypesInfo, fd: fd, env: map[types.Object]*Sym{}, stack: map[types.Object]bool{}}
	if proto != nil {
		w.Inline, w.OnCall, w.OnStore, w.OnReturn, w.OnText, w.Assume = proto.Inline, proto.OnCall, proto.OnStore, proto.OnReturn, proto.OnText, proto.Assume
		w.AssumeFn, w.OnSend, w.OnStruct = proto.AssumeFn, proto.OnSend, proto.OnStruct
		w.inheritedLeft = proto.inheritedLeft
		w.inheritedStopped = proto.inheritedStopped
		w.feas = copyFeas(proto.feas)
		w.conds, w.loops, w.depth = append([]symCond{}, proto.conds...), append([]*Sym{}, proto.loops...), proto.depth
		for k := range proto.stack {
			w.stack[k] = true
		}
	}
	if o := pk.TypesInfo.Defs[fd.Name]; o != nil {
		w.stack[o] = true
	}
	for k, v := range bind {
		w.env[k] = v
	}
	w.baseCond = len(w.conds)
	if fd.Body != nil {
		w.block(fd.Body.List)
	}
	return w
}

// restrict drops the alternatives of a multi-return choice that the path conditions have excluded.
func (w *symWalker) restrict(s *Sym) *Sym {
	if s == nil || s.K != symChoice || s.Origin == nil || w.feas == nil {
		return s
	}
	f, ok := w.feas[s.Origin]
	if !ok || len(f) != len(s.Parts) {
		return s
	}
	var vals []*Sym
	var alts []string
	last := -1
	for i, p := range s.Parts {
		if f[i] {
			vals = append(vals, p)
			alts = append(alts, s.Alts[i])
			last = i
		}
	}
	switch len(vals) {
	case 0:
		return s
	case 1:
		if last < len(s.AltUnder) && len(s.AltUnder[last]) > 0 && vals[0] != nil {
			cp := *vals[0]
			cp.Under = s.AltUnder[last]
			return &cp
		}
		return vals[0]
	}
	if len(vals) == len(s.Parts) {
		return s
	}
	out := mkChoice(alts, vals)
	if out.K == symChoice {
		out.Origin = nil // indices no longer aligned with the call's alternatives
	}
	return out
}

// nilness of one alternative: +1 certainly non-nil, -1 the nil literal, 0 unknown
func altNilness(s *Sym) int {
	switch s.K {
	case symNil:
		return -1
	case symStruct, symList, symConcat:
		return 1
	case symCall:
		switch s.Fn {
		case "errors.New", "fmt.Errorf":
			return 1
		}
	}
	return 0
}

func copyFeas(f map[ast.Node][]bool) map[ast.Node][]bool {
	out := map[ast.Node][]bool{}
	for k, v := range f {
		out[k] = append([]bool{}, v...)
	}
	return out
}

// assumeNilTest records, for a condition `choice != nil` / `choice == nil` that is known to hold (holds=true) or known to
// fail, which alternatives of the choice's call remain possible.
func (w *symWalker) assumeNilTest(cond *Sym, holds bool) {
	for cond != nil && cond.K == symNot {
		cond, holds = cond.X, !holds
	}
	if cond == nil || cond.K != symBin || (cond.Op != token.NEQ && cond.Op != token.EQL) {
		return
	}
	var ch *Sym
	switch {
	case cond.X.K == symChoice && cond.Y.K == symNil:
		ch = cond.X
	case cond.Y.K == symChoice && cond.X.K == symNil:
		ch = cond.Y
	default:
		return
	}
	if ch.Origin == nil {
		return
	}
	wantNonNil := (cond.Op == token.NEQ) == holds
	if w.feas == nil {
		w.feas = map[ast.Node][]bool{}
	}
	f, ok := w.feas[ch.Origin]
	if !ok || len(f) != len(ch.Parts) {
		f = make([]bool, len(ch.Parts))
		for i := range f {
			f[i] = true
		}
	}
	for i, p := range ch.Parts {
		n := altNilness(p)
		if n == 0 && i < len(ch.AltUnder) {
			// the helper returned this value on a path on which it had just compared it with nil
			for _, cd := range ch.AltUnder[i] {
				c, neg := cd.Cond, cd.Neg
				for c != nil && c.K == symNot {
					c, neg = c.X, !neg
				}
				if c == nil || c.K != symBin || (c.Op != token.NEQ && c.Op != token.EQL) {
					continue
				}
				var other *Sym
				switch {
				case c.Y != nil && c.Y.K == symNil:
					other = c.X
				case c.X != nil && c.X.K == symNil:
					other = c.Y
				}
				if other == nil || other.String() != p.String() {
					continue
				}
				if (c.Op == token.NEQ) != neg {
					n = 1
				} else {
					n = -1
				}
			}
		}
		if wantNonNil && n == -1 {
			f[i] = false
		}
		if !wantNonNil && n == 1 {
			f[i] = false
		}
	}
	w.feas[ch.Origin] = f
}

func (w *symWalker) lookup(o types.Object, e ast.Expr) *Sym {
	if s, ok := w.env[o]; ok {
		return w.restrict(s)
	}
	switch x := o.(type) {
	case *types.Const:
		return &Sym{K: symConst, C: x.Val(), Expr: e}
	case *types.Var:
		if x.Pkg() != nil && x.Parent() == x.Pkg().Scope() && !x.Exported() {
			if v := w.globalTable(x); v != nil {
				return v
			}
		}
		return &Sym{K: symVar, Obj: o, Expr: e, Type: x.Type()}
	case *types.Nil:
		return &Sym{K: symNil, Expr: e}
	case *types.Func:
		return &Sym{K: symVar, Obj: o, Expr: e}
	}
	return symUnknownOf(e)
}

func concatOf(parts ...*Sym) *Sym {
	var flat []*Sym
	for _, p := range parts {
		if p == nil {
			continue
		}
		if p.K == symConcat {
			flat = append(flat, p.Parts...)
		} else {
			flat = append(flat, p)
		}
	}
	// merge adjacent constants
	var out []*Sym
	for _, p := range flat {
		if s, ok := p.ConstString(); ok {
			if s == "" {
				continue
			}
			if len(out) > 0 {
				if prev, ok := out[len(out)-1].ConstString(); ok {
					out[len(out)-1] = symStr(prev + s)
					continue
				}
			}
		}
		out = append(out, p)
	}
	if len(out) == 0 {
		return symStr("")
	}
	if len(out) == 1 {
		return out[0]
	}
	return &Sym{K: symConcat, Parts: out}
}

// sprintfShape turns a constant format and its arguments into a concatenation; verbs other than %s %d %v %q keep the call.
func sprintfShape(format string, args []*Sym) (*Sym, bool) {
	var parts []*Sym
	ai := 0
	lit := strings.Builder{}
	for i := 0; i < len(format); i++ {
		ch := format[i]
		if ch != '%' {
			lit.WriteByte(ch)
			continue
		}
		if i+1 >= len(format) {
			return nil, false
		}
		i++
		switch format[i] {
		case '%':
			lit.WriteByte('%')
		case 's', 'd', 'v', 'f', 't':
			if ai >= len(args) {
				return nil, false
			}
			parts = append(parts, symStr(lit.String()), args[ai])
			lit.Reset()
			ai++
		default:
			return nil, false
		}
	}
	parts = append(parts, symStr(lit.String()))
	if ai != len(args) {
		return nil, false
	}
	return concatOf(parts...), true
}

func (w *symWalker) evalAll(es []ast.Expr) []*Sym {
	out := make([]*Sym, len(es))
	for i, e := range es {
		out[i] = w.eval(e)
	}
	return out
}

func (w *symWalker) eval(e ast.Expr) *Sym {
	s := w.eval1(e)
	if s != nil && (s.K == symNot || s.K == symBin) {
		s = fold(s)
	}
	if s != nil && w.Assume != nil && (s.K == symField || s.K == symVar) {
		if b, ok := w.Assume[s.String()]; ok {
			return symBool(b)
		}
	}
	if s != nil && w.AssumeFn != nil && (s.K == symField || s.K == symVar) {
		if r := w.AssumeFn(s); r != nil {
			return r
		}
	}
	if s != nil && s.Type == nil {
		if tv, ok := w.info.Types[e]; ok && tv.Type != nil {
			if s.K == symCall || s.K == symField || s.K == symIndex || s.K == symElem || s.K == symUnknown {
				s.Type = tv.Type
			}
		}
	}
	return s
}

func (w *symWalker) eval1(e ast.Expr) *Sym {
	if e == nil {
		return nil
	}
	if tv, ok := w.info.Types[e]; ok && tv.Value != nil {
		return &Sym{K: symConst, C: tv.Value, Expr: e, Type: tv.Type}
	}
	switch x := e.(type) {
	case *ast.ParenExpr:
		return w.eval(x.X)
	case *ast.Ident:
		if x.Name == "nil" {
			return &Sym{K: symNil, Expr: e}
		}
		o := w.info.Uses[x]
		if o == nil {
			o = w.info.Defs[x]
		}
		if o == nil {
			return symUnknownOf(e)
		}
		return w.lookup(o, e)
	case *ast.SelectorExpr:
		if sel := w.info.Selections[x]; sel != nil {
			base := w.eval(x.X)
			if sel.Kind() != types.FieldVal {
				return &Sym{K: symField, X: base, Name: x.Sel.Name, Expr: e}
			}
			if base.K == symChoice {
				base = w.restrict(base)
			}
			if base.K == symChoice {
				// the same field of every alternative
				var vals []*Sym
				okAll := true
				for _, alt := range base.Parts {
					if alt.K == symStruct {
						if f, ok := alt.FieldDeep(x.Sel.Name); ok {
							vals = append(vals, f)
							continue
						}
						if len(alt.Order) == 0 {
							vals = append(vals, &Sym{K: symUnknown, Name: "zero value"})
							continue
						}
					}
					okAll = false
				}
				if okAll && len(vals) == len(base.Parts) {
					out := mkChoice(base.Alts, vals)
					if out.K == symChoice {
						out.Origin = base.Origin
					}
					return w.restrict(out)
				}
			}
			if base.K == symStruct {
				if f, ok := base.Fields[x.Sel.Name]; ok {
					return f
				}
				// a promoted field of a copy: read it from the embedded struct the copy was taken from
				if base.Name == "copy" && len(sel.Index()) > 1 {
					if st, ok := base.Type.Underlying().(*types.Struct); ok && sel.Index()[0] < st.NumFields() {
						if emb, ok := base.Fields[st.Field(sel.Index()[0]).Name()]; ok && emb.K == symField {
							return &Sym{K: symField, X: emb.X, Name: x.Sel.Name, Expr: e, Type: sel.Type(), RecvT: base.Type}
						}
					}
				}
			}
			fs := &Sym{K: symField, X: base, Name: x.Sel.Name, Expr: e, Type: sel.Type()}
			if tv, ok := w.info.Types[x.X]; ok {
				fs.RecvT = tv.Type
			}
			return fs
		}
		// package-qualified
		if o := w.info.Uses[x.Sel]; o != nil {
			return w.lookup(o, e)
		}
		return symUnknownOf(e)
	case *ast.StarExpr:
		return w.eval(x.X)
	case *ast.UnaryExpr:
		switch x.Op {
		case token.NOT:
			return &Sym{K: symNot, X: w.eval(x.X), Expr: e}
		case token.AND:
			return w.eval(x.X)
		}
		return symUnknownOf(e)
	case *ast.BinaryExpr:
		isText := false
		if x.Op == token.ADD {
			if tv, ok := w.info.Types[e]; ok {
				if b, ok := tv.Type.Underlying().(*types.Basic); ok && b.Info()&types.IsString != 0 {
					isText = true
				}
			}
		}
		if isText {
			w.textDepth++
		}
		l, r := w.eval(x.X), w.eval(x.Y)
		if isText {
			w.textDepth--
			res := concatOf(l, r)
			if w.textDepth == 0 && w.OnText != nil {
				w.OnText(w, e, res)
			}
			return res
		}
		return &Sym{K: symBin, X: l, Y: r, Op: x.Op, Expr: e}
	case *ast.TypeAssertExpr:
		return w.eval(x.X)
	case *ast.IndexExpr:
		base, idx := w.eval(x.X), w.eval(x.Index)
		if base.K == symList {
			if i, ok := idx.ConstInt(); ok && listStatic(base) && i >= 0 && int(i) < len(base.Parts) {
				return base.Parts[i]
			}
		}
		if idx.K == symIdx && idx.X != nil && idx.X.String() == base.String() {
			return &Sym{K: symElem, X: base, Expr: e} // X[i] under `for i := range X` / the counted form of that loop
		}
		if base.K == symStruct {
			if k, ok := idx.ConstString(); ok {
				if f, ok := base.Fields[k]; ok {
					return f
				}
			}
			// a package-level table that is only read, keyed by constants: the entry of the key, or the zero value
			if k, ok := tableKey(base, idx); ok {
				if f, ok := base.Fields[k]; ok {
					return f
				}
				if mt, ok := base.Type.Underlying().(*types.Map); ok {
					return zeroSym(mt.Elem(), x, 1)
				}
			}
		}
		return &Sym{K: symIndex, X: base, Y: idx, Expr: e}
	case *ast.SliceExpr:
		// X[low:high] with the defaults made explicit: X[1:] and X[1:len(X)] are the same value
		base := w.eval(x.X)
		low := &Sym{K: symConst, C: constant.MakeInt64(0)}
		if x.Low != nil {
			low = w.eval(x.Low)
		}
		var high *Sym
		if x.High != nil {
			high = w.eval(x.High)
		} else if listStatic(base) {
			high = &Sym{K: symConst, C: constant.MakeInt64(int64(len(base.Parts)))}
		} else {
			high = &Sym{K: symLen, X: base}
		}
		if li, ok1 := low.ConstInt(); ok1 && listStatic(base) && x.Max == nil {
			if hi, ok2 := high.ConstInt(); ok2 && li >= 0 && hi >= li && int(hi) <= len(base.Parts) {
				return &Sym{K: symList, Parts: base.Parts[li:hi], Type: base.Type, Expr: e}
			}
		}
		return &Sym{K: symCall, Fn: "slice", Parts: []*Sym{base, low, high}, Expr: e}
	case *ast.CompositeLit:
		val := w.born(w.composite(x))
		if w.OnStruct != nil && val != nil && val.K == symStruct {
			w.OnStruct(w, x, val)
		}
		return val
	case *ast.FuncLit:
		return &Sym{K: symFuncLit, Lit: x, Env: w.env, Expr: e}
	case *ast.CallExpr:
		return w.call(x)
	case *ast.KeyValueExpr:
		return w.eval(x.Value)
	}
	return symUnknownOf(e)
}

func (w *symWalker) composite(x *ast.CompositeLit) *Sym {
	tv, ok := w.info.Types[x]
	if !ok {
		return symUnknownOf(x)
	}
	switch u := tv.Type.Underlying().(type) {
	case *types.Slice, *types.Array:
		out := &Sym{K: symList, Expr: x, Type: tv.Type}
		var elemT types.Type
		switch ut := u.(type) {
		case *types.Slice:
			elemT = ut.Elem()
		case *types.Array:
			elemT = ut.Elem()
		}
		// elements may be keyed by constant indices (`[...]string{B: "b", D: "d"}`): positions in between hold the zero value
		next := int64(0)
		for _, el := range x.Elts {
			if kv, ok := el.(*ast.KeyValueExpr); ok {
				if ktv, ok := w.info.Types[kv.Key]; ok && ktv.Value != nil && ktv.Value.Kind() == constant.Int {
					if idx, ok := constant.Int64Val(ktv.Value); ok && idx >= next && idx < 4096 {
						for next < idx {
							out.Parts = append(out.Parts, zeroSym(elemT, kv.Key, 1))
							next++
						}
					}
				}
				el = kv.Value
			}
			out.Parts = append(out.Parts, w.eval(el))
			next++
		}
		return out
	case *types.Struct:
		out := &Sym{K: symStruct, Fields: map[string]*Sym{}, Expr: x, Type: tv.Type}
		for i, el := range x.Elts {
			if kv, ok := el.(*ast.KeyValueExpr); ok {
				if id, ok := kv.Key.(*ast.Ident); ok {
					out.Fields[id.Name] = w.eval(kv.Value)
					out.Order = append(out.Order, id.Name)
				}
			} else if i < u.NumFields() {
				out.Fields[u.Field(i).Name()] = w.eval(el)
				out.Order = append(out.Order, u.Field(i).Name())
			}
		}
		return out
	case *types.Map:
		out := &Sym{K: symStruct, Fields: map[string]*Sym{}, Expr: x, Type: tv.Type}
		for _, el := range x.Elts {
			kv, ok := el.(*ast.KeyValueExpr)
			if !ok {
				continue
			}
			k := w.eval(kv.Key)
			ks, ok := k.ConstString()
			if !ok {
				ks = k.String()
			}
			v := w.eval(kv.Value)
			out.Fields[ks] = v
			out.Order = append(out.Order, ks)
			if w.OnStore != nil {
				w.OnStore(w, kv, out, k, v)
			}
		}
		return out
	}
	return symUnknownOf(x)
}

func (w *symWalker) call(x *ast.CallExpr) *Sym {
	// conversions
	if tv, ok := w.info.Types[x.Fun]; ok && tv.IsType() && len(x.Args) == 1 {
		return w.eval(x.Args[0])
	}
	obj := calleeOf(w.info, x)
	name := funcFullName(obj)
	if id, ok := ast.Unparen(x.Fun).(*ast.Ident); ok {
		if _, isBuiltin := w.info.Uses[id].(*types.Builtin); isBuiltin {
			name = id.Name
		}
	}
	args := w.evalAll(x.Args)
	var result *Sym
	switch name {
	case "len":
		if len(args) == 1 {
			if listStatic(args[0]) { // (a list with one entry per element of another collection has no known length)
				result = &Sym{K: symConst, C: constant.MakeInt64(int64(len(args[0].Parts)))}
			} else if s, ok := args[0].ConstString(); ok {
				result = &Sym{K: symConst, C: constant.MakeInt64(int64(len(s)))}
			} else {
				result = &Sym{K: symLen, X: args[0], Expr: x}
			}
		}
	case "append":
		if len(args) >= 1 && (args[0].K == symList || args[0].K == symNil) && !x.Ellipsis.IsValid() {
			out := &Sym{K: symList, Expr: x, Type: args[0].Type}
			out.Parts = append(append(out.Parts, args[0].Parts...), w.underResidual(args[1:])...)
			result = out
		} else if len(args) == 2 && x.Ellipsis.IsValid() && (args[0].K == symList || args[0].K == symNil) && args[1].K == symList {
			out := &Sym{K: symList, Expr: x, Type: args[0].Type}
			out.Parts = append(append(out.Parts, args[0].Parts...), w.underResidual(args[1].Parts)...)
			result = out
		} else if len(args) == 2 && x.Ellipsis.IsValid() && (args[0].K == symList || args[0].K == symNil) && args[1].K != symNil {
			// append(acc, v...) is `for _, e := range v { acc = append(acc, e) }`
			out := &Sym{K: symList, Expr: x, Type: args[0].Type}
			each := &Sym{K: symRepeat, X: args[1], Parts: []*Sym{{K: symElem, X: args[1]}}}
			out.Parts = append(append(out.Parts, args[0].Parts...), w.underResidual([]*Sym{each})...)
			result = out
		} else {
			result = &Sym{K: symCall, Fn: "append", Parts: args, Expr: x}
		}
	case "make", "new":
		if tv, ok := w.info.Types[x]; ok {
			switch tv.Type.Underlying().(type) {
			case *types.Slice:
				// make([]T, 0) or make([]T, 0, n): an empty list; make([]T, n): unknown contents
				if len(args) >= 2 {
					if n, ok := args[1].ConstInt(); ok && n == 0 {
						result = &Sym{K: symList, Expr: x, Type: tv.Type}
					}
				}
			case *types.Map:
				result = w.born(&Sym{K: symStruct, Fields: map[string]*Sym{}, Expr: x, Type: tv.Type})
			}
		}
	case "fmt.Sprintf":
		if len(args) >= 1 {
			if f, ok := args[0].ConstString(); ok {
				operands := args[1:]
				if x.Ellipsis.IsValid() && len(args) == 2 && listStatic(args[1]) {
					operands = args[1].Parts // Sprintf(format, operands...) with a list known element by element
				}
				if s, ok := sprintfShape(f, operands); ok {
					result = s
					if w.textDepth == 0 && w.OnText != nil {
						w.OnText(w, x, s)
					}
				}
			}
		}
	case "strconv.Itoa", "fmt.Sprint", "strconv.FormatInt":
		if len(args) >= 1 {
			result = args[0]
		}
	case "strings.Join":
		if len(args) == 2 && args[0].K == symList {
			if sep, ok := args[1].ConstString(); ok {
				var parts []*Sym
				for i, e := range args[0].Parts {
					if i > 0 {
						parts = append(parts, symStr(sep))
					}
					parts = append(parts, e)
				}
				result = concatOf(parts...)
				if len(parts) == 1 && dynamicPart(parts[0]) {
					result = &Sym{K: symConcat, Parts: parts} // one text, not a list part of whatever list it lands in
				}
			}
		}
	}
	if result == nil {
		// interpret module functions, function values and function literals in the caller's context
		var fdecl *ast.FuncDecl
		var ftype *ast.FuncType
		var fbody *ast.BlockStmt
		var fpk *packages.Package
		var fenv map[types.Object]*Sym
		var fobj types.Object
		if fn, ok := obj.(*types.Func); ok {
			fobj = fn
		} else if _, isVar := obj.(*types.Var); isVar || obj == nil {
			// a call through a variable / parameter / expression holding a function
			if _, isSel := ast.Unparen(x.Fun).(*ast.SelectorExpr); !isSel || obj != nil {
				fv := w.eval(x.Fun)
				if fv != nil && fv.K == symVar {
					if fn, ok := fv.Obj.(*types.Func); ok {
						fobj = fn
					}
				} else if fv != nil && fv.K == symFuncLit {
					ftype, fbody, fpk, fenv = fv.Lit.Type, fv.Lit.Body, w.pk, fv.Env
					fobj = nil
				}
			}
		}
		if fn, ok := fobj.(*types.Func); ok && w.Inline != nil && w.depth < 6 && !w.stack[fn] && w.Inline(fn) {
			if fd, pk := w.p.findDecl(fn); fd != nil && fd.Body != nil {
				fdecl, ftype, fbody, fpk = fd, fd.Type, fd.Body, pk
				name = funcFullName(fn)
			}
		}
		if fbody != nil && w.depth < 6 {
			bind := map[types.Object]*Sym{}
			for k, v := range fenv {
				bind[k] = v
			}
			i := 0
			if ftype.Params != nil {
				for _, f := range ftype.Params.List {
					for _, nm := range f.Names {
						if i < len(args) {
							if _, variadic := f.Type.(*ast.Ellipsis); variadic && !x.Ellipsis.IsValid() {
								bind[fpk.TypesInfo.Defs[nm]] = &Sym{K: symList, Parts: args[i:]}
							} else {
								bind[fpk.TypesInfo.Defs[nm]] = w.copyIfStruct(fpk.TypesInfo.Defs[nm].Type(), args[i])
							}
						}
						i++
					}
				}
			}
			// pointer parameters bound to (the address of) a variable of this function: stores through them are seen here
			writeBack := map[types.Object]types.Object{}
			addrTarget := func(e ast.Expr, implicit bool) types.Object {
				e = ast.Unparen(e)
				if u, ok := e.(*ast.UnaryExpr); ok && u.Op == token.AND {
					e = ast.Unparen(u.X)
				} else if !implicit {
					if id, ok := e.(*ast.Ident); ok {
						if o := w.info.Uses[id]; o != nil {
							if _, isPtr := o.Type().Underlying().(*types.Pointer); isPtr {
								return o
							}
						}
					}
					return nil
				}
				if id, ok := e.(*ast.Ident); ok {
					if o, isVar := w.info.Uses[id].(*types.Var); isVar {
						return o
					}
				}
				return nil
			}
			i = 0
			if ftype.Params != nil {
				for _, f := range ftype.Params.List {
					for _, nm := range f.Names {
						if po := fpk.TypesInfo.Defs[nm]; po != nil && i < len(x.Args) {
							if _, isPtr := po.Type().Underlying().(*types.Pointer); isPtr {
								if t := addrTarget(x.Args[i], false); t != nil {
									writeBack[po] = t
								}
							}
						}
						i++
					}
				}
			}
			if fdecl != nil && fdecl.Recv != nil && len(fdecl.Recv.List) == 1 && len(fdecl.Recv.List[0].Names) == 1 {
				if sel, ok := ast.Unparen(x.Fun).(*ast.SelectorExpr); ok {
					ro := fpk.TypesInfo.Defs[fdecl.Recv.List[0].Names[0]]
					bind[ro] = w.eval(sel.X)
					if ro != nil {
						if _, isPtr := ro.Type().Underlying().(*types.Pointer); isPtr {
							if t := addrTarget(sel.X, true); t != nil {
								writeBack[ro] = t
							}
						}
					}
				}
			}
			if fdecl == nil {
				fdecl = &ast.FuncDecl{Name: ast.NewIdent("func-literal"), Type: ftype, Body: fbody}
			}
			proto := &symWalker{Inline: w.Inline, OnCall: w.OnCall, OnStore: w.OnStore, OnText: w.OnText, OnReturn: nil, Assume: w.Assume, AssumeFn: w.AssumeFn, OnSend: w.OnSend, OnStruct: w.OnStruct, conds: w.conds, loops: w.loops, depth: w.depth + 1, stack: w.stack}
			proto.inheritedLeft = w.leftSoFar()
			proto.inheritedStopped = w.stoppedSoFar()
			sub := w.p.SymWalk(fpk, fdecl, proto, bind)
			for po, target := range writeBack {
				if !sub.derefStored[po] {
					continue
				}
				if v := sub.env[po]; v != nil && sub.nret <= 1 {
					w.env[target] = v
				} else {
					w.env[target] = &Sym{K: symUnknown, Name: "stored through a pointer by " + name}
				}
				if _, isPtr := target.Type().Underlying().(*types.Pointer); isPtr {
					if w.derefStored == nil {
						w.derefStored = map[types.Object]bool{}
					}
					w.derefStored[target] = true // handed on: our own caller sees it as well
				}
			}
			switch {
			case len(sub.rets) == 1 && len(sub.rets[0].vals) == 1:
				result = sub.rets[0].vals[0]
			case len(sub.rets) == 1 && len(sub.rets[0].vals) > 1:
				result = &Sym{K: symList, Parts: sub.rets[0].vals, Fn: "tuple"}
			case len(sub.rets) > 1 && len(sub.rets) <= 12:
				n := len(sub.rets[0].vals)
				okN := n > 0
				for _, rt := range sub.rets {
					if len(rt.vals) != n {
						okN = false
					}
				}
				if okN {
					var alts []string
					for _, rt := range sub.rets {
						alts = append(alts, rt.conds)
					}
					comps := make([]*Sym, n)
					for j := 0; j < n; j++ {
						var vals []*Sym
						for _, rt := range sub.rets {
							vals = append(vals, rt.vals[j])
						}
						comps[j] = mkChoice(alts, vals)
						if comps[j].K == symChoice {
							comps[j].Origin = x
							for _, rt := range sub.rets {
								comps[j].AltUnder = append(comps[j].AltUnder, rt.condSyms)
							}
						}
					}
					if n == 1 {
						result = comps[0]
					} else {
						result = &Sym{K: symList, Parts: comps, Fn: "tuple"}
					}
				}
			}
			if result == nil {
				result = &Sym{K: symCall, Fn: name, Parts: args, Expr: x}
			}
			if w.OnCall != nil {
				w.OnCall(w, x, obj, args, result)
			}
			return result
		}
		if name == "" {
			name = types.ExprString(x.Fun)
		}
		result = &Sym{K: symCall, Fn: name, Parts: args, Expr: x}
		if sel, ok := ast.Unparen(x.Fun).(*ast.SelectorExpr); ok {
			if w.info.Selections[sel] != nil {
				result.X = w.eval(sel.X) // the receiver of a method call
			}
		}
		// a call that is not interpreted may store through the address of a local value it is handed
		var touched []types.Object
		if fn, ok := obj.(*types.Func); ok {
			if sig, ok := fn.Type().(*types.Signature); ok && sig.Recv() != nil {
				if _, isPtr := sig.Recv().Type().Underlying().(*types.Pointer); isPtr {
					if sel, ok := ast.Unparen(x.Fun).(*ast.SelectorExpr); ok {
						if id, ok := ast.Unparen(sel.X).(*ast.Ident); ok {
							if o, isVar := w.info.Uses[id].(*types.Var); isVar {
								if _, ptrVar := o.Type().Underlying().(*types.Pointer); !ptrVar {
									touched = append(touched, o)
								}
							}
						}
					}
				}
			}
		}
		for _, a := range x.Args {
			if u, ok := ast.Unparen(a).(*ast.UnaryExpr); ok && u.Op == token.AND {
				if id, ok := ast.Unparen(u.X).(*ast.Ident); ok {
					if o, isVar := w.info.Uses[id].(*types.Var); isVar {
						touched = append(touched, o)
					}
				}
			}
		}
		for _, o := range touched {
			if cur, ok := w.env[o]; ok && cur != nil && (cur.K == symList || cur.K == symStruct) {
				w.env[o] = &Sym{K: symUnknown, Name: "possibly modified through a pointer by " + name}
			}
		}
	}
	if w.OnCall != nil {
		w.OnCall(w, x, obj, args, result)
	}
	return result
}

// block walks statements; returns true when control cannot fall out of the block's end.
func (w *symWalker) block(list []ast.Stmt) bool {
	base := len(w.conds)
	defer func() { w.conds = w.conds[:base] }()
	for _, st := range list {
		if w.stmt(st) {
			return true
		}
	}
	return false
}

func (w *symWalker) assignedIn(n ast.Node) map[types.Object]bool {
	out := map[types.Object]bool{}
	ast.Inspect(n, func(m ast.Node) bool {
		switch x := m.(type) {
		case *ast.AssignStmt:
			for _, l := range x.Lhs {
				if id, ok := l.(*ast.Ident); ok {
					if o := w.info.Uses[id]; o != nil {
						out[o] = true
					}
				}
			}
		case *ast.IncDecStmt:
			if id, ok := x.X.(*ast.Ident); ok {
				if o := w.info.Uses[id]; o != nil {
					out[o] = true
				}
			}
		case *ast.CallExpr:
			for _, o := range w.mayStoreThrough(x) {
				out[o] = true
			}
		case *ast.FuncLit:
			return true
		}
		return true
	})
	return out
}

// mayStoreThrough: the local variables a call can modify through a pointer: the receiver of a pointer-receiver method
// of the module called on a variable, and variables whose address is an argument of a module function — when that
// function (or one it hands the pointer on to) stores through the pointer (`*p = v`).
func (w *symWalker) mayStoreThrough(x *ast.CallExpr) []types.Object {
	var out []types.Object
	for o, prm := range w.pointerArgs(x) {
		fn, _ := calleeOf(w.info, x).(*types.Func)
		if w.p.storesThrough(fn, prm, 0) {
			out = append(out, o)
		}
	}
	return out
}

// pointerArgs: caller variable -> index of the callee parameter (-1: the receiver) that receives its address.
func (w *symWalker) pointerArgs(x *ast.CallExpr) map[types.Object]int {
	out := map[types.Object]int{}
	fn, _ := calleeOf(w.info, x).(*types.Func)
	if fn == nil || fn.Pkg() == nil || !strings.HasPrefix(fn.Pkg().Path(), ModulePath) {
		return out
	}
	sig, _ := fn.Type().(*types.Signature)
	if sig == nil {
		return out
	}
	if sel, ok := ast.Unparen(x.Fun).(*ast.SelectorExpr); ok && sig.Recv() != nil {
		if _, isPtr := sig.Recv().Type().Underlying().(*types.Pointer); isPtr {
			if id, ok := ast.Unparen(sel.X).(*ast.Ident); ok {
				if o, isVar := w.info.Uses[id].(*types.Var); isVar {
					out[o] = -1
				}
			}
		}
	}
	for i, a := range x.Args {
		a = ast.Unparen(a)
		if u, ok := a.(*ast.UnaryExpr); ok && u.Op == token.AND {
			if id, ok := ast.Unparen(u.X).(*ast.Ident); ok {
				if o, isVar := w.info.Uses[id].(*types.Var); isVar {
					out[o] = i
				}
			}
		} else if id, ok := a.(*ast.Ident); ok {
			// a pointer variable handed on
			if o, isVar := w.info.Uses[id].(*types.Var); isVar {
				if _, isPtr := o.Type().Underlying().(*types.Pointer); isPtr {
					out[o] = i
				}
			}
		}
	}
	return out
}

// storesThrough: the module function assigns through its pointer parameter prm (-1: receiver), itself or in a callee.
func (p *Prog) storesThrough(fn *types.Func, prm int, depth int) bool {
	if fn == nil {
		return true
	}
	fd, pk := p.findDecl(fn)
	if fd == nil || fd.Body == nil {
		return true // no syntax: assume it does
	}
	if depth > 4 {
		return true
	}
	var po types.Object
	if prm < 0 {
		if fd.Recv != nil && len(fd.Recv.List) == 1 && len(fd.Recv.List[0].Names) == 1 {
			po = pk.TypesInfo.Defs[fd.Recv.List[0].Names[0]]
		}
	} else if fd.Type.Params != nil {
		i := 0
		for _, f := range fd.Type.Params.List {
			for _, nm := range f.Names {
				if i == prm {
					po = pk.TypesInfo.Defs[nm]
				}
				i++
			}
		}
	}
	if po == nil {
		return false // an unnamed parameter cannot be stored through
	}
	sub := &symWalker{p: p, pk: pk, info: pk.TypesInfo, fd: fd}
	if sub.assignedThroughPointer(fd.Body)[po] {
		return true
	}
	found := false
	ast.Inspect(fd.Body, func(m ast.Node) bool {
		if call, ok := m.(*ast.CallExpr); ok && !found {
			if idx, ok := sub.pointerArgs(call)[po]; ok {
				callee, _ := calleeOf(sub.info, call).(*types.Func)
				if callee != fn && p.storesThrough(callee, idx, depth+1) {
					found = true
				}
			}
		}
		return !found
	})
	return found
}

func (w *symWalker) forget(objs map[types.Object]bool, at ast.Node) {
	for o := range objs {
		if _, ok := w.env[o]; ok {
			w.env[o] = &Sym{K: symUnknown, Name: "merged:" + o.Name()}
		} else if _, isVar := o.(*types.Var); isVar {
			w.env[o] = &Sym{K: symUnknown, Name: "merged:" + o.Name()}
		}
	}
}

func (w *symWalker) assign(lhs ast.Expr, val *Sym, at ast.Node, define bool) {
	switch l := ast.Unparen(lhs).(type) {
	case *ast.Ident:
		if l.Name == "_" {
			return
		}
		o := w.info.Defs[l]
		if o == nil {
			o = w.info.Uses[l]
		}
		if o != nil {
			w.env[o] = w.copyIfStruct(o.Type(), val)
		}
	case *ast.IndexExpr:
		target, key := w.eval(l.X), w.eval(l.Index)
		// a store into a map literal held in a local: extend the literal when unconditional
		if target.K == symStruct && (len(w.loops) == 0 || (target.HasBorn && len(w.loops) == target.BornLoops)) {
			if ks, ok := key.ConstString(); ok {
				if _, exists := target.Fields[ks]; !exists {
					target.Order = append(target.Order, ks)
				}
				if w.unconditionalSince(target) {
					target.Fields[ks] = val
				} else {
					target.Fields[ks] = &Sym{K: symCall, Fn: "maybe", Parts: []*Sym{val}, Name: condsText(w.conds)}
				}
			}
		}
		if w.OnStore != nil {
			w.OnStore(w, at, target, key, val)
		}
	case *ast.SelectorExpr:
		target := w.eval(l.X)
		// a field of a local struct value (a copy owned by this function): functional update
		if id, ok := ast.Unparen(l.X).(*ast.Ident); ok && target.K == symStruct {
			if o := w.info.Uses[id]; o != nil {
				if _, isStruct := o.Type().Underlying().(*types.Struct); isStruct {
					upd := &Sym{K: symStruct, Fields: map[string]*Sym{}, Order: append([]string{}, target.Order...), Type: target.Type, Name: target.Name, Born: target.Born, BornLoops: target.BornLoops, HasBorn: target.HasBorn}
					for k, v := range target.Fields {
						upd.Fields[k] = v
					}
					if _, exists := upd.Fields[l.Sel.Name]; !exists {
						upd.Order = append(upd.Order, l.Sel.Name)
					}
					if w.unconditionalSince(target) {
						upd.Fields[l.Sel.Name] = val
					} else {
						upd.Fields[l.Sel.Name] = &Sym{K: symCall, Fn: "maybe", Parts: []*Sym{val}, Name: condsText(w.conds)}
					}
					w.env[o] = upd
				}
			}
		}
		if w.OnStore != nil {
			w.OnStore(w, at, target, symStr(l.Sel.Name), val)
		}
	case *ast.StarExpr:
		if w.OnStore != nil {
			w.OnStore(w, at, w.eval(l.X), nil, val)
		}
		// pointers are conflated with what they point to: `*p = v` makes v what p stands for from here on; when p is a
		// parameter bound to the address of a caller's variable the caller sees the new value after the call
		if id, ok := ast.Unparen(l.X).(*ast.Ident); ok {
			if o := w.info.Uses[id]; o != nil {
				w.env[o] = val
				if w.derefStored == nil {
					w.derefStored = map[types.Object]bool{}
				}
				w.derefStored[o] = true
			}
		}
	}
}

// unconditionalSince: approximated by "no path condition is active" (stores under conditions are wrapped in maybe()).
func (w *symWalker) unconditionalSince(target *Sym) bool {
	if target != nil && target.HasBorn {
		if len(w.conds) != len(target.Born) || len(w.loops) != target.BornLoops {
			return false
		}
		for i, c := range target.Born {
			if w.conds[i].Cond != c.Cond || w.conds[i].Neg != c.Neg {
				return false
			}
		}
		return true
	}
	return len(w.conds) == 0 && len(w.loops) == 0
}

// born stamps a struct / map value with the conditions it is created under.
func (w *symWalker) born(s *Sym) *Sym {
	if s != nil && s.K == symStruct && !s.HasBorn {
		s.Born, s.BornLoops, s.HasBorn = append([]symCond{}, w.conds...), len(w.loops), true
	}
	return s
}

func condsText(cs []symCond) string {
	var out []string
	for _, c := range cs {
		out = append(out, c.String())
	}
	return strings.Join(out, " && ")
}

func (w *symWalker) stmt(st ast.Stmt) (terminates bool) {
	switch x := st.(type) {
	case *ast.BlockStmt:
		return w.block(x.List)
	case *ast.ExprStmt:
		w.eval(x.X)
		if call, ok := x.X.(*ast.CallExpr); ok {
			if id, ok := call.Fun.(*ast.Ident); ok && id.Name == "panic" {
				if _, isBuiltin := w.info.Uses[id].(*types.Builtin); isBuiltin {
					w.lastTerm = token.RETURN
					return true
				}
			}
		}
	case *ast.DeclStmt:
		gd, ok := x.Decl.(*ast.GenDecl)
		if !ok {
			return false
		}
		for _, sp := range gd.Specs {
			vs, ok := sp.(*ast.ValueSpec)
			if !ok {
				continue
			}
			for i, nm := range vs.Names {
				o := w.info.Defs[nm]
				if o == nil {
					continue
				}
				if i < len(vs.Values) {
					w.env[o] = w.eval(vs.Values[i])
					continue
				}
				w.env[o] = w.born(zeroSym(o.Type(), nm, 0))
			}
		}
	case *ast.AssignStmt:
		if len(x.Lhs) == len(x.Rhs) {
			vals := w.evalAll(x.Rhs)
			for i, l := range x.Lhs {
				v := vals[i]
				if x.Tok == token.ADD_ASSIGN {
					v = concatOf(w.eval(l), v)
				} else if x.Tok != token.ASSIGN && x.Tok != token.DEFINE {
					v = symUnknownOf(x.Rhs[i])
				}
				w.assign(l, v, x, x.Tok == token.DEFINE)
			}
		} else if len(x.Rhs) == 1 {
			v := w.eval(x.Rhs[0])
			for i, l := range x.Lhs {
				var part *Sym
				if v.K == symList && v.Fn == "tuple" && i < len(v.Parts) {
					part = v.Parts[i]
				} else if i == 0 {
					// v, ok := m[k] / x.(T): the first value is the operand itself
					switch ast.Unparen(x.Rhs[0]).(type) {
					case *ast.IndexExpr, *ast.TypeAssertExpr:
						part = v
					default:
						part = &Sym{K: symCall, Fn: "result0", Parts: []*Sym{v}}
					}
				} else {
					part = &Sym{K: symCall, Fn: fmt.Sprintf("result%d", i), Parts: []*Sym{v}}
					// v, ok := T[k] on a read-only table with a constant key: ok is known
					if ix, isIdx := ast.Unparen(x.Rhs[0]).(*ast.IndexExpr); isIdx && i == 1 {
						base := w.eval(ix.X)
						if k, ok := tableKey(base, w.eval(ix.Index)); ok {
							_, present := base.Fields[k]
							part = &Sym{K: symConst, C: constant.MakeBool(present)}
						}
					}
				}
				w.assign(l, part, x, x.Tok == token.DEFINE)
			}
		}
	case *ast.IncDecStmt:
		if id, ok := x.X.(*ast.Ident); ok {
			if o := w.info.Uses[id]; o != nil {
				w.env[o] = symUnknownOf(x.X)
			}
		}
	case *ast.ReturnStmt:
		res := w.evalAll(x.Results)
		if len(x.Results) == 0 && w.fd != nil && w.fd.Type.Results != nil {
			// a bare return of named results
			for _, f := range w.fd.Type.Results.List {
				for _, nm := range f.Names {
					if o := w.info.Defs[nm]; o != nil {
						res = append(res, w.lookup(o, nm))
					}
				}
			}
		}
		errorExit := false
		if w.fd != nil && w.fd.Type.Results != nil {
			i := 0
			for _, f := range w.fd.Type.Results.List {
				k := len(f.Names)
				if k == 0 {
					k = 1
				}
				for j := 0; j < k; j++ {
					if tv, ok := w.info.Types[f.Type]; ok && isErrorType(tv.Type) && i < len(res) && res[i] != nil && res[i].K != symNil {
						errorExit = true // the function fails as a whole: what it had built so far is not its result
					}
					i++
				}
			}
		}
		if !errorExit {
			w.leaveLoop(token.RETURN, false)
		}
		w.lastTerm = token.RETURN
		w.returned = res
		w.nret++
		w.rets = append(w.rets, symReturn{condsText(w.conds[min(w.baseCond, len(w.conds)):]), res, append([]symCond{}, w.conds[min(w.baseCond, len(w.conds)):]...)})
		if w.OnReturn != nil {
			w.OnReturn(w, x, res)
		}
		return true
	case *ast.BranchStmt:
		if x.Tok != token.FALLTHROUGH {
			w.leaveLoop(x.Tok, x.Label != nil)
			w.lastTerm = x.Tok
		}
		if x.Tok == token.BREAK {
			allConst := true
			for _, cnd := range w.conds {
				if _, isConst := cnd.Cond.ConstBool(); !isConst {
					allConst = false
				}
			}
			// (conditions recorded before the loop are constant or irrelevant for the rules that unroll tables)
			if allConst || w.AssumeFn != nil {
				w.broke = true
			}
		}
		return x.Tok == token.CONTINUE || x.Tok == token.BREAK || x.Tok == token.GOTO
	case *ast.SendStmt:
		ch, val := w.eval(x.Chan), w.eval(x.Value)
		if w.OnSend != nil {
			w.OnSend(w, x, ch, val)
		}
	case *ast.IfStmt:
		if x.Init != nil {
			w.stmt(x.Init)
		}
		cond := w.eval(x.Cond)
		if b, ok := cond.ConstBool(); ok {
			if b {
				return w.block(x.Body.List)
			}
			if x.Else != nil {
				return w.stmt(x.Else)
			}
			return false
		}
		assigned := w.assignedIn(x)
		snap := w.snapshot()
		before := map[types.Object]*Sym{}
		for o := range assigned {
			before[o] = w.env[o]
		}
		feas0 := copyFeas(w.feas)
		w.conds = append(w.conds, symCond{Cond: cond, Neg: false})
		w.assumeNilTest(cond, true)
		t1 := w.block(x.Body.List)
		term1 := w.lastTerm
		w.conds = w.conds[:len(w.conds)-1]
		env1 := w.env
		feas1 := w.feas
		w.env = snap
		w.feas = copyFeas(feas0)
		w.assumeNilTest(cond, false)
		t2 := false
		if x.Else != nil {
			w.conds = append(w.conds, symCond{Cond: cond, Neg: true})
			t2 = w.stmt(x.Else)
			w.conds = w.conds[:len(w.conds)-1]
		}
		env2 := w.env
		feas2 := w.feas
		switch {
		case t1 && t2:
			return true
		case t1:
			w.noteEscapes(x.Body, term1)
			w.env = env2
			w.feas = feas2
			w.conds = append(w.conds, symCond{Cond: cond, Neg: true, Residual: true}) // popped at the end of the enclosing block
		case t2:
			if x.Else != nil {
				w.noteEscapes(x.Else, w.lastTerm)
			}
			w.env = env1
			w.feas = feas1
			w.conds = append(w.conds, symCond{Cond: cond, Neg: false, Residual: true})
		default:
			// both branches continue: an alternative is possible when it is possible in either
			merged := copyFeas(feas0)
			for k, f1 := range feas1 {
				f2, ok := feas2[k]
				if !ok || len(f2) != len(f1) {
					delete(merged, k)
					continue
				}
				m := make([]bool, len(f1))
				for i := range f1 {
					m[i] = f1[i] || f2[i]
				}
				merged[k] = m
			}
			w.feas = merged
			// merge: objects assigned in either branch keep their value only when both agree
			w.env = env2
			for o := range assigned {
				a, b := env1[o], env2[o]
				if a != nil && b != nil && a.String() == b.String() {
					continue
				}
				if a == nil && b == nil {
					continue
				}
				if a != nil && b != nil {
					if m := mergeLists(before[o], a, b, cond); m != nil {
						w.env[o] = m
						continue
					}
					ch := mkChoice([]string{cond.String(), "!" + cond.String()}, []*Sym{a, b})
					if ch.K == symChoice && len(ch.Parts) == 2 {
						ch.AltConds = []*Sym{cond, {K: symNot, X: cond}}
					}
					w.env[o] = ch
					continue
				}
				w.env[o] = &Sym{K: symUnknown, Name: "merged:" + o.Name()}
			}
			for o, v := range env1 {
				if _, ok := w.env[o]; !ok {
					w.env[o] = v
				}
			}
		}
	case *ast.RangeStmt:
		X := w.eval(x.X)
		isChan := false
		if tv, ok := w.info.Types[x.X]; ok {
			_, isChan = tv.Type.Underlying().(*types.Chan)
		}
		w.loopOver(x, X, x.Key, x.Value, x.Body, isChan, x.Tok == token.DEFINE)
	case *ast.ForStmt:
		if key, X, ok := w.countedLoop(x); ok {
			w.loopOver(x, X, key, nil, x.Body, false, true)
			return false
		}
		// any other loop: the body is walked once for "every iteration of for(cond)"; lists it only extends and values it
		// carries along are summarised as for a range loop
		if x.Init != nil {
			w.stmt(x.Init)
		}
		assigned := w.assignedIn(x)
		inBody := w.assignedIn(x.Body)
		control := map[types.Object]bool{}
		for o := range assigned {
			if !inBody[o] {
				control[o] = true // the loop variable: assigned by the post statement only
			}
		}
		w.forget(control, x)
		bound := symUnknownOf(x.Cond)
		if x.Cond != nil {
			bound = w.eval(x.Cond)
		}
		w.loopOver(x, &Sym{K: symCall, Fn: "for", Parts: []*Sym{bound}}, nil, nil, x.Body, false, true)
		w.forget(control, x)
	case *ast.SwitchStmt:
		savedBroke := w.broke
		defer func() { w.broke = savedBroke }()
		if n := len(w.loopFrames); n > 0 {
			fr := w.loopFrames[n-1]
			fr.switchDepth++
			defer func() { fr.switchDepth-- }()
		}
		if x.Init != nil {
			w.stmt(x.Init)
		}
		var tag *Sym
		if x.Tag != nil {
			tag = w.eval(x.Tag)
		}
		assigned := w.assignedIn(x)
		snap := w.snapshot()
		allTerm, hasDefault := true, false
		taken, constTaken := false, false
		var prior []symCond
		for _, cl := range x.Body.List {
			cc, ok := cl.(*ast.CaseClause)
			if !ok {
				continue
			}
			if !taken {
				w.env = copyEnv(snap)
			}
			var cond *Sym
			for _, ce := range cc.List {
				v := w.eval(ce)
				var one *Sym
				if tag != nil {
					one = &Sym{K: symBin, X: tag, Y: v, Op: token.EQL}
				} else {
					one = v
				}
				if cond == nil {
					cond = one
				} else {
					cond = &Sym{K: symBin, X: cond, Y: one, Op: token.LOR}
				}
			}
			base := len(w.conds)
			if cond != nil {
				cond = fold(cond)
				if cond.K == symBin && cond.Op == token.LOR {
					// fold a disjunction of constant comparisons
					var flat func(s *Sym) (bool, bool)
					flat = func(s *Sym) (bool, bool) {
						s = fold(s)
						if b, ok := s.ConstBool(); ok {
							return b, true
						}
						if s.K == symBin && s.Op == token.LOR {
							lb, lok := flat(s.X)
							rb, rok := flat(s.Y)
							if lok && lb || rok && rb {
								return true, true
							}
							if lok && rok {
								return false, true
							}
						}
						return false, false
					}
					if b, ok := flat(cond); ok {
						cond = symBool(b)
					}
				}
			}
			if taken {
				continue
			}
			if cond != nil {
				if b, ok := cond.ConstBool(); ok {
					if !b {
						continue
					}
					taken = true
					if !w.block(cc.Body) {
						allTerm = false
					}
					constTaken = true
					continue
				}
			}
			if cond == nil {
				hasDefault = true
				w.conds = append(w.conds, prior...)
			} else {
				w.conds = append(w.conds, symCond{Cond: cond, Neg: false})
				prior = append(prior, symCond{Cond: cond, Neg: true})
			}
			if !w.block(cc.Body) {
				allTerm = false
			}
			w.conds = w.conds[:base]
		}
		if constTaken {
			// the taken clause ran in the copied environment of its iteration: keep it
			return false
		}
		w.env = snap
		w.forget(assigned, x)
		return allTerm && hasDefault
	case *ast.TypeSwitchStmt:
		savedBrokeT := w.broke
		defer func() { w.broke = savedBrokeT }()
		if n := len(w.loopFrames); n > 0 {
			fr := w.loopFrames[n-1]
			fr.switchDepth++
			defer func() { fr.switchDepth-- }()
		}
		if x.Init != nil {
			w.stmt(x.Init)
		}
		var subject *Sym
		switch a := x.Assign.(type) {
		case *ast.AssignStmt:
			if len(a.Rhs) == 1 {
				if ta, ok := ast.Unparen(a.Rhs[0]).(*ast.TypeAssertExpr); ok {
					subject = w.eval(ta.X)
				}
			}
		case *ast.ExprStmt:
			if ta, ok := ast.Unparen(a.X).(*ast.TypeAssertExpr); ok {
				subject = w.eval(ta.X)
			}
		}
		assigned := w.assignedIn(x)
		snap := w.snapshot()
		for _, cl := range x.Body.List {
			cc, ok := cl.(*ast.CaseClause)
			if !ok {
				continue
			}
			w.env = copyEnv(snap)
			if o := w.info.Implicits[cc]; o != nil && subject != nil {
				w.env[o] = subject
			}
			var names []string
			for _, ce := range cc.List {
				names = append(names, types.ExprString(ce))
			}
			base := len(w.conds)
			w.conds = append(w.conds, symCond{&Sym{K: symCall, Fn: "typeis", Parts: []*Sym{subject}, Name: strings.Join(names, "|")}, false, false})
			w.block(cc.Body)
			w.conds = w.conds[:base]
		}
		w.env = snap
		w.forget(assigned, x)
	case *ast.DeferStmt:
		w.eval(x.Call)
	case *ast.GoStmt:
		w.eval(x.Call)
	case *ast.LabeledStmt:
		return w.stmt(x.Stmt)
	}
	return false
}

func (w *symWalker) snapshot() map[types.Object]*Sym {
	s := w.env
	w.env = copyEnv(s)
	return s
}

func copyEnv(e map[types.Object]*Sym) map[types.Object]*Sym {
	out := make(map[types.Object]*Sym, len(e))
	for k, v := range e {
		out[k] = v
	}
	return out
}

// symRoots: the functions of pk that no other function of pk refers to (entry points of the package's own call tree);
// walking them with inlining visits every function in the context it is used in.
func symRoots(pk *packages.Package) []*ast.FuncDecl {
	called := map[types.Object]bool{}
	var all []*ast.FuncDecl
	for _, f := range pk.Syntax {
		if strings.HasSuffix(pk.Fset.Position(f.Pos()).Filename, "_test.go") {
			continue
		}
		for _, d := range f.Decls {
			fd, ok := d.(*ast.FuncDecl)
			if !ok || fd.Body == nil {
				continue
			}
			all = append(all, fd)
			self := pk.TypesInfo.Defs[fd.Name]
			ast.Inspect(fd.Body, func(n ast.Node) bool {
				if id, ok := n.(*ast.Ident); ok {
					if fo, ok := pk.TypesInfo.Uses[id].(*types.Func); ok && fo.Pkg() == pk.Types && types.Object(fo) != self {
						called[fo] = true
					}
				}
				return true
			})
		}
	}
	var roots []*ast.FuncDecl
	for _, fd := range all {
		if !called[pk.TypesInfo.Defs[fd.Name]] {
			roots = append(roots, fd)
		}
	}
	return roots
}

func samePkgInline(pk *packages.Package) func(fn *types.Func) bool {
	return func(fn *types.Func) bool { return fn.Pkg() == pk.Types }
}

// copyIfStruct: assigning a struct value copies it; the copy is represented field by field so that later field stores
// update the copy and not the original.
func (w *symWalker) copyIfStruct(t types.Type, val *Sym) *Sym {
	if val == nil || t == nil {
		return val
	}
	st, ok := t.Underlying().(*types.Struct)
	if !ok {
		return val
	}
	switch val.K {
	case symVar, symField, symElem, symIndex:
	default:
		return val
	}
	out := w.born(&Sym{K: symStruct, Fields: map[string]*Sym{}, Type: t, Name: "copy"})
	for i := 0; i < st.NumFields(); i++ {
		f := st.Field(i)
		out.Fields[f.Name()] = &Sym{K: symField, X: val, Name: f.Name(), Type: f.Type(), RecvT: t}
		out.Order = append(out.Order, f.Name())
	}
	return out
}

// FieldDeep finds a (possibly promoted) field of a struct value: directly, or inside EMBEDDED struct values (a field that
// merely has struct type, such as Variable, is not searched: its Name is not the rule's Name).
func (s *Sym) FieldDeep(name string) (*Sym, bool) {
	if s == nil || s.K != symStruct {
		return nil, false
	}
	if f, ok := s.Fields[name]; ok {
		return f, true
	}
	embedded := map[string]bool{}
	known := false
	if s.Type != nil {
		if st, ok := s.Type.Underlying().(*types.Struct); ok {
			known = true
			for i := 0; i < st.NumFields(); i++ {
				if st.Field(i).Embedded() {
					embedded[st.Field(i).Name()] = true
				}
			}
		}
	}
	for _, k := range s.Order {
		if known && !embedded[k] {
			continue
		}
		f := s.Fields[k]
		if f.K == symStruct {
			if v, ok := f.FieldDeep(name); ok {
				return v, true
			}
		}
	}
	return nil, false
}

func min(a, b int) int {
	if a < b {
		return a
	}
	return b
}

// Template renders a text value: constants literally, symbolic parts as ‹…›.
func (s *Sym) Template() string {
	if s == nil {
		return "‹?›"
	}
	if c, ok := s.ConstString(); ok {
		return c
	}
	if s.K == symConcat {
		var b strings.Builder
		for _, p := range s.Parts {
			b.WriteString(p.Template())
		}
		return b.String()
	}
	if s.K == symConst && s.C != nil {
		return s.C.ExactString()
	}
	return "‹" + s.String() + "›"
}

// globalTable: an unexported package-level variable of the module that is initialised with a composite literal (a table)
// and never assigned, stored through or address-taken anywhere in its package is read as that literal.
func (w *symWalker) globalTable(v *types.Var) *Sym {
	if w.globalsSeen == nil {
		w.globalsSeen = map[types.Object]*Sym{}
	}
	if s, ok := w.globalsSeen[v]; ok {
		return s
	}
	w.globalsSeen[v] = nil
	init, pk := w.p.varInitializer(v)
	if init == nil || pk == nil {
		return nil
	}
	if _, ok := ast.Unparen(init).(*ast.CompositeLit); !ok {
		return nil
	}
	mutated := false
	for _, f := range pk.Syntax {
		ast.Inspect(f, func(n ast.Node) bool {
			switch x := n.(type) {
			case *ast.AssignStmt:
				for _, l := range x.Lhs {
					ast.Inspect(l, func(m ast.Node) bool {
						if id, ok := m.(*ast.Ident); ok && pk.TypesInfo.Uses[id] == types.Object(v) {
							mutated = true
						}
						return true
					})
				}
			case *ast.UnaryExpr:
				if x.Op == token.AND {
					if id, ok := ast.Unparen(x.X).(*ast.Ident); ok && pk.TypesInfo.Uses[id] == types.Object(v) {
						mutated = true
					}
				}
			case *ast.IncDecStmt:
				ast.Inspect(x.X, func(m ast.Node) bool {
					if id, ok := m.(*ast.Ident); ok && pk.TypesInfo.Uses[id] == types.Object(v) {
						mutated = true
					}
					return true
				})
			}
			return true
		})
	}
	if mutated {
		return nil
	}
	sub := &symWalker{p: w.p, pk: pk, info: pk.TypesInfo, env: map[types.Object]*Sym{}, stack: map[types.Object]bool{}, globalsSeen: w.globalsSeen}
	val := sub.eval(init)
	if lit, ok := ast.Unparen(init).(*ast.CompositeLit); ok && val != nil && val.K == symStruct && val.Type != nil {
		if _, isMap := val.Type.Underlying().(*types.Map); isMap {
			allConst := true
			for _, el := range lit.Elts {
				if kv, ok := el.(*ast.KeyValueExpr); !ok || pk.TypesInfo.Types[kv.Key].Value == nil {
					allConst = false
				}
			}
			if allConst {
				val.Fn = "table"
			}
		}
	}
	w.globalsSeen[v] = val
	return val
}

// underResidual wraps values appended to a list inside a loop body in when(c => ...) when an earlier statement of the
// body may have left the iteration or the loop (if c { continue }): the append then happens for the other elements only.
func (w *symWalker) underResidual(parts []*Sym) []*Sym {
	if len(parts) == 0 {
		return parts
	}
	cs := w.leftSoFar()
	if len(cs) == 0 {
		return parts
	}
	if w.stoppedSoFar() {
		// a break (or a return that is not an error exit) may have ended the loop: the later elements are not looked at
		return []*Sym{{K: symWhen, Fn: "stopped", Name: "the loop was not stopped earlier (" + strings.Join(cs, " | ") + ")", Parts: parts}}
	}
	return []*Sym{{K: symWhen, Fn: "skipped", Name: "not left earlier (" + strings.Join(cs, " | ") + ")", Parts: parts}}
}

// stoppedSoFar: one of the leaves recorded so far ends the loop, not just the iteration.
func (w *symWalker) stoppedSoFar() bool {
	if w.inheritedStopped {
		return true
	}
	for _, f := range w.loopFrames {
		if len(f.leftForGood) > 0 {
			return true
		}
	}
	return false
}

// leftSoFar: the conditions under which the current iteration of an enclosing loop (of this function or of the callers
// it is interpreted in) has been left before this point.
func (w *symWalker) leftSoFar() []string {
	cs := append([]string{}, w.inheritedLeft...)
	for _, f := range w.loopFrames {
		cs = append(cs, f.leftForGood...)
	}
	if n := len(w.loopFrames); n > 0 {
		cs = append(cs, w.loopFrames[n-1].left...)
	}
	return cs
}

// leaveLoop records a continue / break / return / goto met while loop bodies are walked.
func (w *symWalker) leaveLoop(tok token.Token, labelled bool) {
	if len(w.loopFrames) == 0 {
		return
	}
	inner := w.loopFrames[len(w.loopFrames)-1]
	where := func(f *loopFrame) string {
		b := f.base
		if b > len(w.conds) {
			b = len(w.conds)
		}
		t := condsText(w.conds[b:])
		if t == "" {
			t = "always"
		}
		return t
	}
	switch {
	case tok == token.CONTINUE && !labelled:
		inner.left = append(inner.left, where(inner))
	case tok == token.BREAK && !labelled:
		if inner.switchDepth > 0 {
			return // leaves the switch, not the loop
		}
		inner.leftForGood = append(inner.leftForGood, where(inner))
	default:
		for _, f := range w.loopFrames {
			f.leftForGood = append(f.leftForGood, where(f))
		}
	}
}

// selfAppends: the objects that n only ever extends: every assignment has the form `o = append(o, ...)` (or
// `*o = append(*o, ...)` for a pointer), and every call that could store through their address is a call of a module
// function that itself only extends what the pointer points to.
func (w *symWalker) selfAppends(n ast.Node) map[types.Object]bool {
	return w.selfAppendsDepth(n, 0)
}

func (w *symWalker) selfAppendsDepth(n ast.Node, depth int) map[types.Object]bool {
	good, bad := map[types.Object]bool{}, map[types.Object]bool{}
	target := func(e ast.Expr) (types.Object, bool) {
		e = ast.Unparen(e)
		deref := false
		if st, ok := e.(*ast.StarExpr); ok {
			e, deref = ast.Unparen(st.X), true
		}
		id, ok := e.(*ast.Ident)
		if !ok {
			return nil, false
		}
		return w.info.Uses[id], deref
	}
	ast.Inspect(n, func(m ast.Node) bool {
		switch x := m.(type) {
		case *ast.IncDecStmt:
			if id, ok := x.X.(*ast.Ident); ok {
				if o := w.info.Uses[id]; o != nil {
					bad[o] = true
				}
			}
		case *ast.RangeStmt:
			for _, e := range []ast.Expr{x.Key, x.Value} {
				if id, ok := e.(*ast.Ident); ok && x.Tok == token.ASSIGN {
					if o := w.info.Uses[id]; o != nil {
						bad[o] = true
					}
				}
			}
		case *ast.CallExpr:
			for _, o := range w.mayStoreThrough(x) {
				if depth < 4 && w.calleeOnlyExtends(x, o, depth) {
					good[o] = true
				} else {
					bad[o] = true
				}
			}
		case *ast.AssignStmt:
			for i, l := range x.Lhs {
				o, deref := target(l)
				if o == nil {
					continue
				}
				ok := false
				if x.Tok == token.ASSIGN && len(x.Lhs) == len(x.Rhs) {
					if call, isCall := ast.Unparen(x.Rhs[i]).(*ast.CallExpr); isCall && len(call.Args) >= 2 {
						if fid, isID := call.Fun.(*ast.Ident); isID && fid.Name == "append" {
							if _, isBuiltin := w.info.Uses[fid].(*types.Builtin); isBuiltin {
								if a0, d0 := target(call.Args[0]); a0 == o && d0 == deref {
									ok = true
								}
							}
						}
					}
				}
				if ok {
					good[o] = true
				} else {
					bad[o] = true
				}
			}
		}
		return true
	})
	for o := range bad {
		delete(good, o)
	}
	return good
}

// calleeOnlyExtends: the module function called by x only extends (append) what the pointer it receives for the
// caller's variable o points to.
func (w *symWalker) calleeOnlyExtends(x *ast.CallExpr, o types.Object, depth int) bool {
	fn, _ := calleeOf(w.info, x).(*types.Func)
	if fn == nil {
		return false
	}
	fd, pk := w.p.findDecl(fn)
	if fd == nil || fd.Body == nil {
		return false
	}
	var params []types.Object
	if sel, ok := ast.Unparen(x.Fun).(*ast.SelectorExpr); ok && fd.Recv != nil && len(fd.Recv.List) == 1 && len(fd.Recv.List[0].Names) == 1 {
		if id, ok := ast.Unparen(sel.X).(*ast.Ident); ok && w.info.Uses[id] == o {
			params = append(params, pk.TypesInfo.Defs[fd.Recv.List[0].Names[0]])
		}
	}
	i := 0
	if fd.Type.Params != nil {
		for _, f := range fd.Type.Params.List {
			for _, nm := range f.Names {
				if i < len(x.Args) {
					if u, ok := ast.Unparen(x.Args[i]).(*ast.UnaryExpr); ok && u.Op == token.AND {
						if id, ok := ast.Unparen(u.X).(*ast.Ident); ok && w.info.Uses[id] == o {
							params = append(params, pk.TypesInfo.Defs[nm])
						}
					}
				}
				i++
			}
		}
	}
	if len(params) == 0 {
		return false
	}
	sub := &symWalker{p: w.p, pk: pk, info: pk.TypesInfo, fd: fd}
	good := sub.selfAppendsDepth(fd.Body, depth+1)
	stores := sub.assignedThroughPointer(fd.Body)
	for _, po := range params {
		if po == nil {
			return false
		}
		if (stores[po] || sub.assignedIn(fd.Body)[po]) && !good[po] {
			return false // stored otherwise, re-assigned, or handed on to a callee that does more than extend
		}
	}
	return true
}

// assignedThroughPointer: the identifiers p with a store `*p = ...` in n.
func (w *symWalker) assignedThroughPointer(n ast.Node) map[types.Object]bool {
	out := map[types.Object]bool{}
	ast.Inspect(n, func(m ast.Node) bool {
		if as, ok := m.(*ast.AssignStmt); ok {
			for _, l := range as.Lhs {
				if st, ok := ast.Unparen(l).(*ast.StarExpr); ok {
					if id, ok := ast.Unparen(st.X).(*ast.Ident); ok {
						if o := w.info.Uses[id]; o != nil {
							out[o] = true
						}
					}
				}
			}
		}
		return true
	})
	return out
}

// countedLoop recognises `for i := 0; i < len(X); i++ { ... }` (also `i < n` with n = len(X), `i != len(X)`, `i += 1`)
// whose body assigns neither i nor the collection: the same loop as `for i := range X`.
func (w *symWalker) countedLoop(x *ast.ForStmt) (key *ast.Ident, X *Sym, ok bool) {
	init, isAssign := x.Init.(*ast.AssignStmt)
	if !isAssign || init.Tok != token.DEFINE || len(init.Lhs) != 1 || len(init.Rhs) != 1 || x.Cond == nil || x.Post == nil {
		return nil, nil, false
	}
	id, isID := init.Lhs[0].(*ast.Ident)
	if !isID {
		return nil, nil, false
	}
	if v, isConst := constInt(w.info, init.Rhs[0]); !isConst || v != 0 {
		return nil, nil, false
	}
	obj := w.info.Defs[id]
	if obj == nil {
		return nil, nil, false
	}
	isI := func(e ast.Expr) bool {
		i, ok := ast.Unparen(e).(*ast.Ident)
		return ok && w.info.Uses[i] == obj
	}
	switch post := x.Post.(type) {
	case *ast.IncDecStmt:
		if post.Tok != token.INC || !isI(post.X) {
			return nil, nil, false
		}
	case *ast.AssignStmt:
		if len(post.Lhs) != 1 || len(post.Rhs) != 1 || !isI(post.Lhs[0]) {
			return nil, nil, false
		}
		one := false
		if post.Tok == token.ADD_ASSIGN {
			v, isConst := constInt(w.info, post.Rhs[0])
			one = isConst && v == 1
		} else if post.Tok == token.ASSIGN {
			if be, isBin := ast.Unparen(post.Rhs[0]).(*ast.BinaryExpr); isBin && be.Op == token.ADD && isI(be.X) {
				v, isConst := constInt(w.info, be.Y)
				one = isConst && v == 1
			}
		}
		if !one {
			return nil, nil, false
		}
	default:
		return nil, nil, false
	}
	be, isBin := ast.Unparen(x.Cond).(*ast.BinaryExpr)
	if !isBin {
		return nil, nil, false
	}
	var bound ast.Expr
	switch {
	case (be.Op == token.LSS || be.Op == token.NEQ) && isI(be.X):
		bound = be.Y
	case (be.Op == token.GTR || be.Op == token.NEQ) && isI(be.Y):
		bound = be.X
	default:
		return nil, nil, false
	}
	var collection ast.Expr
	if call, isCall := ast.Unparen(bound).(*ast.CallExpr); isCall && len(call.Args) == 1 {
		if fid, isID := call.Fun.(*ast.Ident); isID && fid.Name == "len" {
			if _, isBuiltin := w.info.Uses[fid].(*types.Builtin); isBuiltin {
				collection = call.Args[0]
			}
		}
	}
	assigned := w.assignedIn(x.Body)
	if assigned[obj] {
		return nil, nil, false
	}
	if collection != nil {
		root := ast.Unparen(collection)
		for {
			switch r := root.(type) {
			case *ast.SelectorExpr:
				root = ast.Unparen(r.X)
				continue
			case *ast.IndexExpr:
				root = ast.Unparen(r.X)
				continue
			case *ast.StarExpr:
				root = ast.Unparen(r.X)
				continue
			}
			break
		}
		rid, isID := root.(*ast.Ident)
		if !isID || assigned[w.info.Uses[rid]] {
			return nil, nil, false
		}
		// stores into elements or fields of the collection's root inside the body
		stores := false
		ast.Inspect(x.Body, func(m ast.Node) bool {
			if as, ok := m.(*ast.AssignStmt); ok {
				for _, l := range as.Lhs {
					if _, isID := l.(*ast.Ident); isID {
						continue
					}
					ast.Inspect(l, func(q ast.Node) bool {
						if qi, ok := q.(*ast.Ident); ok && w.info.Uses[qi] == w.info.Uses[rid] {
							stores = true
						}
						return true
					})
				}
			}
			return true
		})
		if stores {
			return nil, nil, false
		}
		return id, w.eval(collection), true
	}
	// `i < n` where n holds len(X) and is not assigned in the loop
	if nid, isID := ast.Unparen(bound).(*ast.Ident); isID {
		if no := w.info.Uses[nid]; no != nil && !assigned[no] {
			if v := w.env[no]; v != nil && v.K == symLen && v.X != nil {
				return id, v.X, true
			}
		}
	}
	return nil, nil, false
}

// loopOver walks the body of a loop over the collection X (a range statement or the counted form of one).  A list known
// element by element is unrolled; otherwise the body is walked once with the element / index symbolic, and the lists the
// body only ever appends to come out as prefix + each(X => what one iteration appends).
func (w *symWalker) loopOver(x ast.Stmt, X *Sym, key, value ast.Expr, body *ast.BlockStmt, isChan bool, define bool) {
	if X.K == symList && len(X.Parts) <= 64 && listStatic(X) {
		frame := &loopFrame{base: len(w.conds)}
		w.loopFrames = append(w.loopFrames, frame)
		defer func() { w.loopFrames = w.loopFrames[:len(w.loopFrames)-1] }()
		for i, el := range X.Parts {
			if key != nil {
				w.assign(key, &Sym{K: symConst, C: constant.MakeInt64(int64(i))}, x, define)
			}
			if value != nil {
				w.assign(value, el, x, define)
			}
			w.broke = false
			frame.left = nil
			w.block(body.List)
			if w.broke {
				w.broke = false
				break
			}
		}
		if len(frame.escaped) > 0 {
			w.forget(frame.escaped, x)
		}
		return
	}
	savedBrokeR := w.broke
	defer func() { w.broke = savedBrokeR }()
	assigned := w.assignedIn(body)
	// accumulators: lists that the body only ever extends (`acc = append(acc, ...)`, at any depth of the body)
	type accu struct {
		prev, marker *Sym
	}
	accs := map[types.Object]accu{}
	for o := range w.selfAppends(body) {
		if prev, ok := w.env[o]; ok && prev != nil && prev.K == symList {
			accs[o] = accu{prev, &Sym{K: symAcc, Obj: o}}
		}
	}
	// fills: `dst[key] = e` as a direct statement, dst := make([]T, len(X)), key the range key
	type fill struct {
		o    types.Object
		stmt *ast.AssignStmt
	}
	var fills []fill
	if keyID, ok := key.(*ast.Ident); ok && keyID.Name != "_" {
		keyObj := w.info.Defs[keyID]
		skippedF := false
		for _, st := range body.List {
			if skippedF {
				break
			}
			ast.Inspect(st, func(m ast.Node) bool {
				switch m.(type) {
				case *ast.BranchStmt, *ast.ReturnStmt:
					skippedF = true
				case *ast.FuncLit:
					return false
				}
				return true
			})
			as, ok := st.(*ast.AssignStmt)
			if !ok || len(as.Lhs) != 1 || len(as.Rhs) != 1 || as.Tok != token.ASSIGN {
				continue
			}
			ix, ok := as.Lhs[0].(*ast.IndexExpr)
			if !ok {
				continue
			}
			dst, ok1 := ast.Unparen(ix.X).(*ast.Ident)
			kid, ok2 := ast.Unparen(ix.Index).(*ast.Ident)
			if !ok1 || !ok2 || w.info.Uses[kid] != keyObj || keyObj == nil {
				continue
			}
			o := w.info.Uses[dst]
			prev := w.env[o]
			if o == nil || prev == nil || prev.K != symCall || prev.Fn != "make" || len(prev.Parts) != 2 {
				continue
			}
			if prev.Parts[1].K != symLen || prev.Parts[1].X.String() != X.String() {
				continue
			}
			fills = append(fills, fill{o, as})
		}
	}
	// folds: other variables declared before the loop and assigned in it: inside the body they stand for "the value the
	// previous iterations left" (acc:<name>), after the loop for fold(X, initial value, what one iteration makes of it)
	folds := map[types.Object]accu{}
	for o := range assigned {
		if _, isAcc := accs[o]; isAcc {
			continue
		}
		if prev, ok := w.env[o]; ok && prev != nil && prev.K != symUnknown {
			if _, isVar := o.(*types.Var); isVar {
				folds[o] = accu{prev, &Sym{K: symAcc, Obj: o}}
			}
		}
	}
	w.forget(assigned, x) // loop-carried values are unknown inside the body as well
	for o, a := range accs {
		w.env[o] = &Sym{K: symList, Parts: []*Sym{a.marker}, Type: a.prev.Type}
	}
	for o, a := range folds {
		w.env[o] = a.marker
	}
	bindLoopVars := func(t *symWalker) {
		if key != nil {
			if isChan {
				t.assign(key, &Sym{K: symElem, X: X}, x, define)
			} else {
				t.assign(key, &Sym{K: symIdx, X: X}, x, define)
			}
		}
		if value != nil {
			t.assign(value, &Sym{K: symElem, X: X}, x, define)
		}
	}
	bindLoopVars(w)
	w.loops = append(w.loops, X)
	frame := &loopFrame{base: len(w.conds)}
	w.loopFrames = append(w.loopFrames, frame)
	w.block(body.List)
	w.loopFrames = w.loopFrames[:len(w.loopFrames)-1]
	w.loops = w.loops[:len(w.loops)-1]
	after := map[types.Object]*Sym{}
	for o, a := range accs {
		v := w.env[o]
		if v == nil || v.K != symList || len(v.Parts) == 0 || v.Parts[0] != a.marker {
			continue
		}
		out := &Sym{K: symList, Type: a.prev.Type}
		out.Parts = append(out.Parts, a.prev.Parts...)
		if len(v.Parts) > 1 {
			out.Parts = append(out.Parts, &Sym{K: symRepeat, X: X, Parts: v.Parts[1:]})
		}
		after[o] = out
	}
	for o, a := range folds {
		v := w.env[o]
		if v == nil || v.HasUnknown() {
			continue
		}
		if v == a.marker {
			after[o] = a.prev // never assigned on the path walked
			continue
		}
		after[o] = &Sym{K: symCall, Fn: "fold", X: X, Parts: []*Sym{a.prev, v}}
	}
	w.forget(assigned, x)
	for o, v := range after {
		if frame.escaped[o] {
			continue // assigned in a branch that left with break / continue: what it holds after the loop is not known
		}
		w.env[o] = v
	}
	for _, f := range fills {
		// evaluate the stored value once more in the loop's binding (no events: callbacks muted)
		sub := &symWalker{p: w.p, pk: w.pk, info: w.info, fd: w.fd, env: copyEnv(w.env), stack: w.stack, depth: w.depth, Inline: nil}
		bindLoopVars(sub)
		v := sub.eval(f.stmt.Rhs[0])
		w.env[f.o] = &Sym{K: symList, Parts: []*Sym{{K: symRepeat, X: X, Parts: []*Sym{v}}}}
	}
}

// mergeLists: after `if c {A} else {B}`, a list that both branches only extended is the common prefix followed by
// when(c => what A appended) and when(!c => what B appended).
func mergeLists(pre, a, b, cond *Sym) *Sym {
	if pre == nil || pre.K != symList || a.K != symList || b.K != symList {
		return nil
	}
	n := len(pre.Parts)
	if len(a.Parts) < n || len(b.Parts) < n {
		return nil
	}
	for i := 0; i < n; i++ {
		if a.Parts[i] != pre.Parts[i] || b.Parts[i] != pre.Parts[i] {
			return nil
		}
	}
	out := &Sym{K: symList, Type: pre.Type}
	out.Parts = append(out.Parts, pre.Parts...)
	if len(a.Parts) > n {
		out.Parts = append(out.Parts, &Sym{K: symWhen, X: cond, Name: cond.String(), Parts: a.Parts[n:]})
	}
	if len(b.Parts) > n {
		out.Parts = append(out.Parts, &Sym{K: symWhen, X: &Sym{K: symNot, X: cond}, Name: "!" + cond.String(), Parts: b.Parts[n:]})
	}
	return out
}

// ResolveEmptiness replaces every if/else choice whose condition is an emptiness test of the collection coll (len(coll)
// compared with 0 or 1) by the alternative taken when coll is empty / non-empty; other parts are kept.
func (s *Sym) ResolveEmptiness(coll string, empty bool) *Sym {
	if s == nil {
		return nil
	}
	if s.K == symChoice && len(s.AltConds) == len(s.Parts) {
		for i, c := range s.AltConds {
			if x, ok, isEmpty := (symCond{Cond: c}).Emptiness(); ok && x != nil && x.String() == coll && isEmpty == empty {
				return s.Parts[i].ResolveEmptiness(coll, empty)
			}
		}
	}
	cp := *s
	if len(s.Parts) > 0 {
		cp.Parts = make([]*Sym, len(s.Parts))
		for i, p := range s.Parts {
			cp.Parts[i] = p.ResolveEmptiness(coll, empty)
		}
	}
	if s.X != nil {
		cp.X = s.X.ResolveEmptiness(coll, empty)
	}
	if s.Y != nil {
		cp.Y = s.Y.ResolveEmptiness(coll, empty)
	}
	if len(s.Fields) > 0 {
		cp.Fields = map[string]*Sym{}
		for k, v := range s.Fields {
			cp.Fields[k] = v.ResolveEmptiness(coll, empty)
		}
	}
	return &cp
}

// zeroSym: the zero value of a type (`var x T`).
func zeroSym(t types.Type, at ast.Expr, depth int) *Sym {
	switch u := t.Underlying().(type) {
	case *types.Slice:
		return &Sym{K: symList, Type: t}
	case *types.Basic:
		switch {
		case u.Info()&types.IsString != 0:
			return symStr("")
		case u.Info()&types.IsInteger != 0:
			return &Sym{K: symConst, C: constant.MakeInt64(0)}
		case u.Info()&types.IsBoolean != 0:
			return &Sym{K: symConst, C: constant.MakeBool(false)}
		default:
			return symUnknownOf(at)
		}
	case *types.Struct:
		if depth < 2 && u.NumFields() <= 24 {
			out := &Sym{K: symStruct, Fields: map[string]*Sym{}, Type: t}
			for i := 0; i < u.NumFields(); i++ {
				f := u.Field(i)
				out.Fields[f.Name()] = zeroSym(f.Type(), at, depth+1)
				out.Order = append(out.Order, f.Name())
			}
			return out
		}
	}
	return &Sym{K: symNil}
}

// noteEscapes: a branch that assigned variables and then left the iteration with break / continue / goto: its state is
// not carried on by the walk, but the values reach the code after the loop (or the next iteration); the variables are
// remembered in the innermost loop frame and come out of the loop as unknown.
func (w *symWalker) noteEscapes(branch ast.Node, how token.Token) {
	if how != token.BREAK && how != token.CONTINUE && how != token.GOTO {
		return
	}
	n := len(w.loopFrames)
	if n == 0 {
		return
	}
	fr := w.loopFrames[n-1]
	for o := range w.assignedIn(branch) {
		if fr.escaped == nil {
			fr.escaped = map[types.Object]bool{}
		}
		fr.escaped[o] = true
	}
}

// tableKey: base is a map literal held by a package-level variable that is only read and whose keys are all constants
// (globalTable), idx is a constant: the name the entry of idx has in base.Fields.
func tableKey(base, idx *Sym) (string, bool) {
	if base == nil || idx == nil || base.K != symStruct || base.Fn != "table" || idx.K != symConst || idx.C == nil {
		return "", false
	}
	if k, ok := idx.ConstString(); ok {
		return k, true
	}
	return idx.String(), true
}
