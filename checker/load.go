package main

import (
	"fmt"
	"go/ast"
	"go/token"
	"go/types"
	"os"
	"path/filepath"
	"sort"
	"strings"

	"golang.org/x/tools/go/callgraph"
	"golang.org/x/tools/go/callgraph/cha"
	"golang.org/x/tools/go/callgraph/vta"
	"golang.org/x/tools/go/packages"
	"golang.org/x/tools/go/ssa"
	"golang.org/x/tools/go/ssa/ssautil"
)

// ModulePath is the import path prefix of the repository's own packages.
const ModulePath = "github.com/aml-org/amf-custom-validator"

// Prog is the loaded, type-checked program plus its SSA form.
type Prog struct {
	RepoDir string
	Fset    *token.FileSet
	All     []*packages.Package          // every package, dependencies included
	Mod     map[string]*packages.Package // module packages by import path
	SSA     *ssa.Program
	cg      *callgraph.Graph
	GoOS    string
}

func loadEnv(goos, goarch string) []string {
	env := []string{}
	for _, kv := range os.Environ() {
		if strings.HasPrefix(kv, "GOWORK=") || strings.HasPrefix(kv, "GOFLAGS=") || strings.HasPrefix(kv, "GOPROXY=") ||
			strings.HasPrefix(kv, "GOSUMDB=") || strings.HasPrefix(kv, "GOTOOLCHAIN=") || strings.HasPrefix(kv, "GOOS=") || strings.HasPrefix(kv, "GOARCH=") {
			continue
		}
		env = append(env, kv)
	}
	env = append(env, "GOWORK=off", "GOFLAGS=-mod=mod", "GOPROXY=off", "GOSUMDB=off", "GOTOOLCHAIN=local")
	if goos != "" {
		env = append(env, "GOOS="+goos, "GOARCH="+goarch)
	}
	return env
}

// Load type-checks ./... of repoDir from the working tree (non-test files), with all dependencies from source,
// and builds SSA. Type errors are returned as an error: a checker that analyses half a program is worthless.
func Load(repoDir, goos, goarch string, patterns ...string) (*Prog, error) {
	if len(patterns) == 0 {
		patterns = []string{"./..."}
	}
	fset := token.NewFileSet()
	cfg := &packages.Config{
		Mode:  packages.LoadAllSyntax | packages.NeedModule,
		Dir:   repoDir,
		Fset:  fset,
		Env:   loadEnv(goos, goarch),
		Tests: false,
	}
	roots, err := packages.Load(cfg, patterns...)
	if err != nil {
		return nil, fmt.Errorf("go/packages: %v", err)
	}
	if len(roots) == 0 {
		return nil, fmt.Errorf("no packages matched %v in %s", patterns, repoDir)
	}
	p := &Prog{RepoDir: repoDir, Fset: fset, Mod: map[string]*packages.Package{}, GoOS: goos}
	var errs []string
	packages.Visit(roots, nil, func(pkg *packages.Package) {
		p.All = append(p.All, pkg)
		for _, e := range pkg.Errors {
			errs = append(errs, e.Error())
		}
		if strings.HasPrefix(pkg.PkgPath, ModulePath) {
			p.Mod[pkg.PkgPath] = pkg
		}
	})
	if len(errs) > 0 {
		sort.Strings(errs)
		if len(errs) > 8 {
			errs = errs[:8]
		}
		return nil, fmt.Errorf("the tree does not type-check:\n  %s", strings.Join(errs, "\n  "))
	}
	if len(p.Mod) == 0 {
		return nil, fmt.Errorf("no package of module %s was loaded from %s", ModulePath, repoDir)
	}
	prog, _ := ssautil.AllPackages(p.All, ssa.InstantiateGenerics)
	prog.Build()
	p.SSA = prog
	loadedProgs = append(loadedProgs, p)
	return p, nil
}

// Pkg returns a module package by its path relative to the module root ("internal/generator").
func (p *Prog) Pkg(rel string) *packages.Package {
	if rel == "" {
		return p.Mod[ModulePath]
	}
	return p.Mod[ModulePath+"/"+rel]
}

func (p *Prog) SSAPkg(rel string) *ssa.Package {
	pk := p.Pkg(rel)
	if pk == nil {
		return nil
	}
	return p.SSA.Package(pk.Types)
}

// Func returns the SSA function rel.name ("internal/validator", "ProcessInput"); methods as "Type.Method".
func (p *Prog) Func(rel, name string) *ssa.Function {
	sp := p.SSAPkg(rel)
	if sp == nil {
		return nil
	}
	if i := strings.Index(name, "."); i >= 0 {
		tn, mn := name[:i], name[i+1:]
		obj := sp.Pkg.Scope().Lookup(tn)
		if obj == nil {
			return nil
		}
		T := obj.Type()
		for _, t := range []types.Type{T, types.NewPointer(T)} {
			ms := p.SSA.MethodSets.MethodSet(t)
			for i := 0; i < ms.Len(); i++ {
				if ms.At(i).Obj().Name() == mn {
					return p.SSA.MethodValue(ms.At(i))
				}
			}
		}
		return nil
	}
	return sp.Func(name)
}

// IsModuleFunc reports whether fn is defined in a package of the repository's module.
func IsModuleFunc(fn *ssa.Function) bool {
	if fn == nil {
		return false
	}
	if o := fn.Origin(); o != nil && o != fn {
		fn = o // an instantiation of a generic function belongs where the generic is declared
	}
	if fn.Pkg != nil {
		return strings.HasPrefix(fn.Pkg.Pkg.Path(), ModulePath)
	}
	if fn.Parent() != nil {
		return IsModuleFunc(fn.Parent())
	}
	if o := fn.Object(); o != nil && o.Pkg() != nil {
		return strings.HasPrefix(o.Pkg().Path(), ModulePath)
	}
	return false
}

// RelPkg returns the module-relative package path of fn ("internal/validator"), or "" when not in the module.
func RelPkg(fn *ssa.Function) string {
	if fn != nil {
		if o := fn.Origin(); o != nil && o != fn {
			fn = o
		}
	}
	for fn != nil && fn.Pkg == nil && fn.Parent() != nil {
		fn = fn.Parent()
	}
	var path string
	if fn != nil && fn.Pkg != nil {
		path = fn.Pkg.Pkg.Path()
	} else if fn != nil && fn.Object() != nil && fn.Object().Pkg() != nil {
		path = fn.Object().Pkg().Path()
	}
	if !strings.HasPrefix(path, ModulePath) {
		return ""
	}
	return strings.TrimPrefix(strings.TrimPrefix(path, ModulePath), "/")
}

// FuncKey is the stable, line-free name of a function: "internal/validator.ProcessInput",
// "internal/parser/profile.AndRule.Negate", closures as "pkg.Outer$1".
func FuncKey(fn *ssa.Function) string {
	if fn == nil {
		return "<nil>"
	}
	rel := RelPkg(fn)
	name := fn.Name()
	if recv := fn.Signature.Recv(); recv != nil {
		t := recv.Type()
		if pt, ok := t.(*types.Pointer); ok {
			t = pt.Elem()
		}
		if nt, ok := t.(*types.Named); ok {
			name = nt.Obj().Name() + "." + fn.Name()
		}
	}
	if fn.Parent() != nil {
		// anonymous function: Outer$1
		name = fn.Name()
		if recv := fn.Parent().Signature.Recv(); recv != nil {
			_ = recv
		}
	}
	if rel == "" && !IsModuleFunc(fn) {
		if fn.Pkg != nil {
			return fn.Pkg.Pkg.Path() + "." + name
		}
		return fn.String()
	}
	return rel + "." + name
}

// ModuleFuncs returns every SSA function (methods and closures included) defined in module packages, sorted by key.
func (p *Prog) ModuleFuncs() []*ssa.Function {
	var out []*ssa.Function
	for fn := range ssautil.AllFunctions(p.SSA) {
		if fn.Synthetic != "" && fn.Syntax() == nil {
			continue
		}
		if IsModuleFunc(fn) && fn.Blocks != nil {
			out = append(out, fn)
		}
	}
	sort.Slice(out, func(i, j int) bool {
		ki, kj := FuncKey(out[i]), FuncKey(out[j])
		if ki != kj {
			return ki < kj
		}
		return out[i].Pos() < out[j].Pos()
	})
	return out
}

// CallGraph returns the VTA call graph seeded by CHA over the whole program (computed once).
func (p *Prog) CallGraph() *callgraph.Graph {
	if p.cg == nil {
		all := ssautil.AllFunctions(p.SSA)
		p.cg = vta.CallGraph(all, cha.CallGraph(p.SSA))
	}
	return p.cg
}

// ModuleCallees returns the module functions fn may call directly (edges into dependencies are dropped; callbacks
// the dependency makes into the module are added through the methods of module-typed arguments, see callbackTargets).
func (p *Prog) ModuleCallees(fn *ssa.Function) []*ssa.Function {
	cg := p.CallGraph()
	node := cg.Nodes[fn]
	seen := map[*ssa.Function]bool{}
	var out []*ssa.Function
	add := func(f *ssa.Function) {
		if f != nil && IsModuleFunc(f) && f.Blocks != nil && !seen[f] {
			seen[f] = true
			out = append(out, f)
		}
	}
	if node != nil {
		for _, e := range node.Out {
			callee := e.Callee.Func
			if IsModuleFunc(callee) {
				add(callee)
			} else if e.Site != nil {
				for _, cb := range p.callbackTargets(e.Site) {
					add(cb)
				}
			}
		}
	}
	// closures created here are treated as called from here (they are invoked by this function or handed on)
	for _, anon := range fn.AnonFuncs {
		add(anon)
	}
	sort.Slice(out, func(i, j int) bool { return FuncKey(out[i]) < FuncKey(out[j]) })
	return out
}

// callbackTargets: module methods and closures a dependency may invoke on the arguments it is handed at this site.
func (p *Prog) callbackTargets(site ssa.CallInstruction) []*ssa.Function {
	var out []*ssa.Function
	for _, a := range site.Common().Args {
		v := a
		if mi, ok := v.(*ssa.MakeInterface); ok {
			v = mi.X
		}
		if mc, ok := v.(*ssa.MakeClosure); ok {
			if f, ok := mc.Fn.(*ssa.Function); ok {
				out = append(out, f)
			}
			continue
		}
		if f, ok := v.(*ssa.Function); ok {
			out = append(out, f)
			continue
		}
		t := v.Type()
		if named := namedOf(t); named != nil && named.Obj().Pkg() != nil && strings.HasPrefix(named.Obj().Pkg().Path(), ModulePath) {
			ms := p.SSA.MethodSets.MethodSet(t)
			for i := 0; i < ms.Len(); i++ {
				if f := p.SSA.MethodValue(ms.At(i)); f != nil {
					out = append(out, f)
				}
			}
		}
	}
	return out
}

func namedOf(t types.Type) *types.Named {
	if pt, ok := t.(*types.Pointer); ok {
		t = pt.Elem()
	}
	n, _ := t.(*types.Named)
	return n
}

// Reach returns the module functions reachable from roots through module functions.
func (p *Prog) Reach(roots ...*ssa.Function) map[*ssa.Function]bool {
	seen := map[*ssa.Function]bool{}
	var stack []*ssa.Function
	for _, r := range roots {
		if r != nil && !seen[r] {
			seen[r] = true
			stack = append(stack, r)
		}
	}
	for len(stack) > 0 {
		f := stack[len(stack)-1]
		stack = stack[:len(stack)-1]
		for _, c := range p.ModuleCallees(f) {
			if !seen[c] {
				seen[c] = true
				stack = append(stack, c)
			}
		}
	}
	return seen
}

// Pos renders a position relative to the repository root: "internal/validator/validate.go:37".
func (p *Prog) Pos(pos token.Pos) string {
	if !pos.IsValid() {
		return "-"
	}
	pp := p.Fset.Position(pos)
	rel, err := filepath.Rel(p.RepoDir, pp.Filename)
	if err != nil || strings.HasPrefix(rel, "..") {
		rel = pp.Filename
	}
	return fmt.Sprintf("%s:%d", rel, pp.Line)
}

// ExportedFuncs returns the exported package-level functions of a module package (the entry points of pkg/).
func (p *Prog) ExportedFuncs(rel string) []*ssa.Function {
	sp := p.SSAPkg(rel)
	if sp == nil {
		return nil
	}
	var out []*ssa.Function
	for _, m := range sp.Members {
		if f, ok := m.(*ssa.Function); ok && token.IsExported(f.Name()) && f.Blocks != nil {
			out = append(out, f)
		}
	}
	sort.Slice(out, func(i, j int) bool { return out[i].Name() < out[j].Name() })
	return out
}

// FuncDecl finds the syntax of a package-level function or method ("Type.Method") in a module package.
func (p *Prog) FuncDecl(rel, name string) (*ast.FuncDecl, *packages.Package) {
	pk := p.Pkg(rel)
	if pk == nil {
		return nil, nil
	}
	tn, mn := "", name
	if i := strings.Index(name, "."); i >= 0 {
		tn, mn = name[:i], name[i+1:]
	}
	for _, f := range pk.Syntax {
		for _, d := range f.Decls {
			fd, ok := d.(*ast.FuncDecl)
			if !ok || fd.Name.Name != mn {
				continue
			}
			if tn == "" && fd.Recv == nil {
				return fd, pk
			}
			if tn != "" && fd.Recv != nil && len(fd.Recv.List) == 1 {
				t := fd.Recv.List[0].Type
				if st, ok := t.(*ast.StarExpr); ok {
					t = st.X
				}
				if id, ok := t.(*ast.Ident); ok && id.Name == tn {
					return fd, pk
				}
			}
		}
	}
	return nil, pk
}

// callersOf: the module functions with a static call of fn.
func (p *Prog) callersOf(fn *ssa.Function) []*ssa.Function {
	var out []*ssa.Function
	for _, caller := range p.ModuleFuncs() {
		found := false
		for _, b := range caller.Blocks {
			for _, ins := range b.Instrs {
				if ci, ok := ins.(ssa.CallInstruction); ok && ci.Common().StaticCallee() == fn {
					found = true
				}
			}
		}
		if found {
			out = append(out, caller)
		}
	}
	return out
}
