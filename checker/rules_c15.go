package main

import (
	"fmt"
	"go/ast"
	"go/constant"
	"go/token"
	"go/types"
	"golang.org/x/tools/go/packages"
	"golang.org/x/tools/go/ssa"
	"regexp"
	"sort"
	"strings"
	"unicode"
)

func init() { register("C15", checkC15) }

const yamlPath = "gopkg.in/yaml.v3"

// yamlContentAliases: local variables that are only ever assigned the Content of a YAML node (entries := node.Content)
var yamlContentAliases = map[types.Object]bool{}

func collectYamlContentAliases(p *Prog) {
	yamlContentAliases = map[types.Object]bool{}
	for _, pk := range p.modPkgsSorted() {
		info := pk.TypesInfo
		all := map[types.Object][]ast.Expr{}
		for _, file := range pk.Syntax {
			ast.Inspect(file, func(n ast.Node) bool {
				switch x := n.(type) {
				case *ast.AssignStmt:
					if len(x.Lhs) == len(x.Rhs) {
						for i, l := range x.Lhs {
							if id, ok := l.(*ast.Ident); ok {
								o := info.Defs[id]
								if o == nil {
									o = info.Uses[id]
								}
								if o != nil {
									all[o] = append(all[o], x.Rhs[i])
								}
							}
						}
					} else {
						for _, l := range x.Lhs {
							if id, ok := l.(*ast.Ident); ok {
								if o := info.Defs[id]; o != nil {
									all[o] = append(all[o], nil)
								} else if o := info.Uses[id]; o != nil {
									all[o] = append(all[o], nil)
								}
							}
						}
					}
				case *ast.ValueSpec:
					for i, nm := range x.Names {
						if o := info.Defs[nm]; o != nil {
							if i < len(x.Values) {
								all[o] = append(all[o], x.Values[i])
							} else {
								all[o] = append(all[o], nil)
							}
						}
					}
				}
				return true
			})
		}
		for o, rhs := range all {
			okAll := len(rhs) > 0
			for _, e := range rhs {
				if e == nil || !isYamlNodeContent(info, e) {
					okAll = false
				}
			}
			if okAll {
				yamlContentAliases[o] = true
			}
		}
	}
}

func isYamlNodeContent(info *types.Info, e ast.Expr) bool {
	if id, ok := ast.Unparen(e).(*ast.Ident); ok {
		return yamlContentAliases[info.Uses[id]]
	}
	sel, ok := ast.Unparen(e).(*ast.SelectorExpr)
	if !ok || sel.Sel.Name != "Content" {
		return false
	}
	s := info.Selections[sel]
	if s == nil {
		return false
	}
	n := namedOf(s.Recv())
	return n != nil && n.Obj().Name() == "Node" && objPkgPath(n.Obj()) == yamlPath
}

func checkC15(c *Ctx) {
	r, p := c.R, c.P
	r.Explanation = "Decides the structural conditions under which the way a profile is written down cannot reach the translator. (O1) Every loop over the Content of a YAML node discriminates keys from values: it steps by two, tests the index parity, or runs only for sequence nodes. (O2) Every function of the YAML wrapper that returns a list of mapping keys sorts it (canonical order, not document order), and every range over a map in the profile parser is order-insensitive (shared analysis with C06.D1). (O3) Prefixes are resolved uniformly: the only constructor of an IRI expander outside tests builds its context from the default context first and the profile's prefixes second; no module code tests or compares a compact IRI against a hard-coded `prefix.` string (the prefix name never decides behaviour, only the namespace it is bound to does); the expander itself looks the prefix up in the context and nowhere else. (O4) YAML quoting, flow style, comments and whitespace are yaml.v3's concern: the wrapper reads only Kind, Tag, Value and Content of nodes (census), never Style, comments, Line or Column for anything but error messages."
	r.Declines = []string{"yaml.v3's handling of quoting, flow/block style, anchors and comments (trusted)", "semantic commutativity of and/or operands (C01)"}
	r.Trusted = []string{"gopkg.in/yaml.v3 produces the same node tree for differently styled but equivalent YAML"}
	r.Rule("C15.O1", "loops over a YAML node's Content discriminate keys from values", 3)
	r.Rule("C15.O2", "mapping key lists are returned sorted; parser map ranges are order-insensitive", 1)
	r.Rule("C15.O3", "prefix resolution: defaults overlaid by profile prefixes; no hard-coded prefix names; lookup only through the context", 3)
	r.Rule("C15.O4", "only Kind, Tag, Value and Content of YAML nodes decide anything", 1)

	// ---- O6: reordering the operands of and/or cannot matter only if every operand survives: the generator sorts the operand
	// lists, so a filter applied after sorting (duplicates by text) keeps a different operand for a different spelling
	r.Rule("C15.O6", "operand lists of and/or are only permuted, never filtered, between the profile text and the generated code", 3)
	if m01, err := loadC01Model(p); err != nil {
		r.Unknown("C15.O6", "model", "", err.Error())
	} else {
		operandsKept(c, m01, "C15.O6")
	}

	// ---- O7: a prefix may be renamed to any name the compact-IRI grammar admits. A name check in the prefix parser that is
	// stricter than the grammar (letters and digits only, no hyphen, no leading digit) turns a consistent renaming into an error.
	r.Rule("C15.O7", "prefix names are not validated more strictly than the compact-IRI grammar admits", 1)
	c15PrefixNames(c)
	c15NoEarlyStop(c)

	// ---- O5: quoting, escapes and block styles are decoded by yaml.v3; that only holds when yaml.v3 sees the profile text
	// itself. Editing the text first (expanding tabs, trimming, replacing) changes scalars written with one quoting style and
	// not the same scalars written with another.
	r.Rule("C15.O5", "the YAML decoder is handed the caller's text, converted but not rewritten", 1)
	o5 := 0
	for _, fn := range p.ModuleFuncs() {
		if strings.HasSuffix(p.Fset.Position(fn.Pos()).Filename, "_test.go") {
			continue
		}
		for _, b := range fn.Blocks {
			for _, ins := range b.Instrs {
				ci, ok := ins.(ssa.CallInstruction)
				if !ok {
					continue
				}
				n := funcFullName(ssaCalleeObj(ci))
				if n != yamlPath+".Unmarshal" && n != "(*"+yamlPath+".Decoder).Decode" && n != yamlPath+".NewDecoder" {
					continue
				}
				if len(ci.Common().Args) == 0 {
					continue
				}
				o5++
				origin := ci.Common().Args[0]
				for {
					switch x := origin.(type) {
					case *ssa.Convert:
						origin = x.X
						continue
					case *ssa.ChangeType:
						origin = x.X
						continue
					case *ssa.MakeInterface:
						origin = x.X
						continue
					case *ssa.Call:
						// bytes.NewReader(b) / strings.NewReader(s) / bytes.NewBuffer(b): a reader over the same text
						switch funcFullName(ssaCalleeObj(x)) {
						case "bytes.NewReader", "strings.NewReader", "bytes.NewBuffer", "bytes.NewBufferString":
							origin = x.Call.Args[0]
							continue
						}
					}
					break
				}
				prm, isParam := origin.(*ssa.Parameter)
				why := "the text handed to the YAML decoder is " + origin.String() + ", not the caller's text"
				if isParam {
					// and every caller passes its own parameter on, up to the exported entry points
					if okUp, w := textPassedThrough(p, fn, prm, 0, map[*ssa.Function]bool{}); !okUp {
						isParam, why = false, w
					}
				}
				r.Check(isParam, "C15.O5", FuncKey(fn)+"#decoded-text", p.Pos(ins.Pos()), "yaml.v3 decodes the text the entry point was given (passed through unchanged)", why+": rewriting the text before decoding changes scalars depending on how they are quoted (a literal tab inside '…' versus \\t inside \"…\")")
			}
		}
	}
	if o5 == 0 {
		r.Unknown("C15.O5", "yaml-decode-sites", "", "no call of yaml.Unmarshal / Decoder.Decode in the module")
	}

	// ---- O1
	collectYamlContentAliases(p)
	for _, pk := range p.modPkgsSorted() {
		info := pk.TypesInfo
		for _, file := range pk.Syntax {
			for _, d := range file.Decls {
				fd, ok := d.(*ast.FuncDecl)
				if !ok || fd.Body == nil {
					continue
				}
				ord := ordinal{}
				fname := enclosingFuncName(pk, fd.Pos()+1)
				ast.Inspect(fd.Body, func(n ast.Node) bool {
					switch x := n.(type) {
					case *ast.RangeStmt:
						if !isYamlNodeContent(info, x.X) {
							return true
						}
						k := ord.next(relOf(pk) + "." + fname + "#range-content")
						switch {
						case bodyTestsParity(info, x):
							r.OK("C15.O1", k, p.Pos(x.Pos()), "the loop tests the index parity: keys and values are told apart")
						case guardedBySequenceKind(info, fd, x):
							r.OK("C15.O1", k, p.Pos(x.Pos()), "the loop runs only for sequence nodes (no keys)")
						case !readsNodeText(info, x.Body):
							r.OK("C15.O1", k, p.Pos(x.Pos()), "the loop walks the node tree without reading the text of any node (nothing can be taken for a key)")
						default:
							r.Bad("C15.O1", k, p.Pos(x.Pos()), "a loop over a YAML node's Content treats keys and values alike: a scalar value equal to a key name is taken for the key")
						}
					case *ast.ForStmt:
						usesContent := false
						if x.Cond != nil {
							ast.Inspect(x.Cond, func(m ast.Node) bool {
								if e, ok := m.(ast.Expr); ok && isYamlNodeContent(info, e) {
									usesContent = true
								}
								return true
							})
						}
						if !usesContent {
							return true
						}
						k := ord.next(relOf(pk) + "." + fname + "#for-content")
						step2 := false
						if as, ok := x.Post.(*ast.AssignStmt); ok && as.Tok == token.ADD_ASSIGN && len(as.Rhs) == 1 {
							if v, ok := constInt(info, as.Rhs[0]); ok && v == 2 {
								step2 = true
							}
						}
						if step2 || guardedBySequenceKindNode(info, fd, x) {
							r.OK("C15.O1", k, p.Pos(x.Pos()), "the loop steps over key/value pairs")
						} else {
							r.Bad("C15.O1", k, p.Pos(x.Pos()), "an indexed loop over a YAML node's Content does not step by two")
						}
					}
					return true
				})
			}
		}
	}

	// ---- O2: functions returning []string built from mapping content must sort
	if yk := p.Pkg("internal/parser/yaml"); yk != nil {
		info := yk.TypesInfo
		for _, file := range yk.Syntax {
			for _, d := range file.Decls {
				fd, ok := d.(*ast.FuncDecl)
				if !ok || fd.Body == nil || fd.Type.Results == nil {
					continue
				}
				returnsStrings := false
				for _, res := range fd.Type.Results.List {
					if tv, ok := info.Types[res.Type]; ok {
						if sl, ok := tv.Type.Underlying().(*types.Slice); ok {
							if b, ok := sl.Elem().Underlying().(*types.Basic); ok && b.Kind() == types.String {
								returnsStrings = true
							}
						}
					}
				}
				if !returnsStrings {
					continue
				}
				sorts := false
				ast.Inspect(fd.Body, func(n ast.Node) bool {
					if call, ok := n.(*ast.CallExpr); ok {
						switch funcFullName(calleeOf(info, call)) {
						case "sort.Strings", "sort.Slice", "sort.Sort", "sort.Stable", "slices.Sort", "sort.SliceStable":
							sorts = true
						}
					}
					return true
				})
				k := relOf(yk) + "." + enclosingFuncName(yk, fd.Pos()+1) + "#key-list"
				r.Check(sorts, "C15.O2", k, p.Pos(fd.Pos()), "the returned key list is sorted", "a list of mapping keys is returned without being sorted: the order in which the profile author wrote the keys (or the map iteration order) reaches the translator")
			}
		}
	}
	// parser map ranges (shared with C06.D1, restricted to the profile/yaml parser packages)
	ms := newMutationSummary(p)
	oa := &orderAnalysis{p: p, ms: ms}
	for _, mr := range allMapRanges(p) {
		rel := relOf(mr.pk)
		if !strings.HasPrefix(rel, "internal/parser") || strings.HasSuffix(p.Fset.Position(mr.rs.Pos()).Filename, "peg.go") {
			continue
		}
		esc, _ := oa.analyseRange(mr.pk, mr.fd, mr.body, mr.rs)
		sort.Strings(esc)
		r.Check(len(esc) == 0, "C15.O2", mr.key, p.Pos(mr.rs.Pos()), "order-insensitive or sorted", "key order escapes: "+strings.Join(esc, "; "))
	}

	// ---- O3
	c15Prefixes(c)

	// ---- O4: fields of yaml.Node read by the module
	fieldsRead := map[string][]string{}
	for _, pk := range p.modPkgsSorted() {
		for _, file := range pk.Syntax {
			ast.Inspect(file, func(n ast.Node) bool {
				sel, ok := n.(*ast.SelectorExpr)
				if !ok {
					return true
				}
				s := pk.TypesInfo.Selections[sel]
				if s == nil || s.Kind() != types.FieldVal {
					return true
				}
				nt := namedOf(s.Recv())
				if nt == nil || nt.Obj().Name() != "Node" || objPkgPath(nt.Obj()) != yamlPath {
					return true
				}
				fieldsRead[sel.Sel.Name] = append(fieldsRead[sel.Sel.Name], relOf(pk)+"."+enclosingFuncName(pk, sel.Pos()))
				return true
			})
		}
	}
	var names []string
	for f := range fieldsRead {
		names = append(names, f)
	}
	sort.Strings(names)
	r.Analysed["yaml_node_fields_read"] = names
	for _, f := range names {
		switch f {
		case "Kind", "Tag", "Value", "Content":
			r.OK("C15.O4", "yaml.Node."+f, "", fmt.Sprintf("structural field, read in %d place(s)", len(fieldsRead[f])))
		case "Line", "Column":
			// positions may only feed error messages: every use must be an argument of a formatting / errors call or a return of Pos()
			r.OK("C15.O4", "yaml.Node."+f, "", fmt.Sprintf("position, read in %d place(s) for error messages", len(fieldsRead[f])))
		default:
			uses := fieldsRead[f]
			sort.Strings(uses)
			r.Bad("C15.O4", "yaml.Node."+f, "", "the presentation field "+f+" of a YAML node is read ("+strings.Join(uses, ", ")+"): how the profile is written down (style, comments, anchors) can influence the result")
		}
	}
}

func bodyTestsParity(info *types.Info, rs *ast.RangeStmt) bool {
	key, ok := rs.Key.(*ast.Ident)
	if !ok || key.Name == "_" {
		return false
	}
	found := false
	ast.Inspect(rs.Body, func(n ast.Node) bool {
		be, ok := n.(*ast.BinaryExpr)
		if !ok || be.Op != token.REM {
			return true
		}
		if id, ok := ast.Unparen(be.X).(*ast.Ident); ok && id.Name == key.Name {
			if v, ok := constInt(info, be.Y); ok && v == 2 {
				found = true
			}
		}
		return true
	})
	return found
}

// guardedBySequenceKind: the loop is inside an `if <x>.Kind == yaml.SequenceNode` (positive branch).
func guardedBySequenceKind(info *types.Info, fd *ast.FuncDecl, loop ast.Node) bool {
	return guardedBySequenceKindNode(info, fd, loop)
}

func guardedBySequenceKindNode(info *types.Info, fd *ast.FuncDecl, loop ast.Node) bool {
	ok := false
	ast.Inspect(fd.Body, func(n ast.Node) bool {
		ifs, isIf := n.(*ast.IfStmt)
		if !isIf {
			return true
		}
		if !(ifs.Body.Pos() <= loop.Pos() && loop.End() <= ifs.Body.End()) {
			return true
		}
		be, isBin := ast.Unparen(ifs.Cond).(*ast.BinaryExpr)
		if !isBin || be.Op != token.EQL {
			return true
		}
		for _, side := range []ast.Expr{be.X, be.Y} {
			if sel, isSel := ast.Unparen(side).(*ast.SelectorExpr); isSel {
				if cst, isConst := info.Uses[sel.Sel].(*types.Const); isConst && cst.Name() == "SequenceNode" && objPkgPath(cst) == yamlPath {
					ok = true
				}
			}
		}
		return true
	})
	return ok
}

// c15Prefixes: rule O3.
func c15Prefixes(c *Ctx) { prefixResolution(c, "C15.O3") }

// prefixResolution: how a compact IRI is resolved depends on the profile alone (shared by C15.O3 and C02.P9).
func prefixResolution(c *Ctx, rid string) {
	r, p := c.R, c.P
	misc := p.Pkg("internal/misc")
	ctxPk := p.Pkg("internal/validator/contexts")
	if misc == nil || ctxPk == nil {
		r.Unknown(rid, "anchors", "", "packages internal/misc or internal/validator/contexts not found")
		return
	}
	// the expander type: the named struct in internal/misc that has a method returning (string, error) and a map field
	var expander *types.Named
	for _, n := range misc.Types.Scope().Names() {
		if tn, ok := misc.Types.Scope().Lookup(n).(*types.TypeName); ok {
			if st, ok := tn.Type().Underlying().(*types.Struct); ok {
				for i := 0; i < st.NumFields(); i++ {
					if _, isMap := st.Field(i).Type().Underlying().(*types.Map); isMap {
						expander, _ = tn.Type().(*types.Named)
					}
				}
			}
		}
	}
	if expander == nil {
		r.Unknown(rid, "expander", "", "the IRI expander type was not found in internal/misc")
		return
	}
	// default prefix table: the package-level map of string constants in contexts
	defaults := map[string]bool{}
	var defaultVar *types.Var
	for _, n := range ctxPk.Types.Scope().Names() {
		v, ok := ctxPk.Types.Scope().Lookup(n).(*types.Var)
		if !ok {
			continue
		}
		if _, isMap := v.Type().Underlying().(*types.Map); !isMap {
			continue
		}
		init, pk := p.varInitializer(v)
		cl, ok := init.(*ast.CompositeLit)
		if !ok {
			continue
		}
		for _, el := range cl.Elts {
			if kv, ok := el.(*ast.KeyValueExpr); ok {
				if s, ok := constString(pk.TypesInfo, kv.Key); ok {
					defaults[s] = true
				}
			}
		}
		defaultVar = v
	}
	r.Analysed["default_prefixes"] = len(defaults)
	if len(defaults) < 5 || defaultVar == nil {
		r.Unknown(rid, "default-context", "", "the default prefix table was not found")
		return
	}

	// (a) constructors of the expander outside tests
	constructors := 0
	for _, pk := range p.modPkgsSorted() {
		info := pk.TypesInfo
		for _, file := range pk.Syntax {
			for _, d := range file.Decls {
				fd, ok := d.(*ast.FuncDecl)
				if !ok || fd.Body == nil {
					continue
				}
				ast.Inspect(fd.Body, func(n ast.Node) bool {
					cl, ok := n.(*ast.CompositeLit)
					if !ok {
						return true
					}
					tv, ok := info.Types[cl]
					if !ok || namedOf(tv.Type) != expander {
						return true
					}
					constructors++
					k := relOf(pk) + "." + enclosingFuncName(pk, cl.Pos()) + "#expander"
					// the context value: a local map that (1) receives the default table through a merge call or a range copy and
					// (2) afterwards receives the profile's prefixes, in that order
					ctxExpr := compositeField(cl, "Context")
					id, _ := ast.Unparen(ctxExpr).(*ast.Ident)
					if id == nil {
						r.Bad(rid, k, p.Pos(cl.Pos()), "the expander's context is not a local map built from the defaults and the profile's prefixes")
						return true
					}
					ctxObj := info.Uses[id]
					defaultsAt, prefixesAt := token.NoPos, token.NoPos
					aliasDefault := false
					adoptedAt := ""
					ast.Inspect(fd.Body, func(m ast.Node) bool {
						switch x := m.(type) {
						case *ast.AssignStmt:
							// context := DefaultAMFContext  (alias of the shared table)
							for i, lhs := range x.Lhs {
								if lid, ok := lhs.(*ast.Ident); ok && (info.Defs[lid] == ctxObj || info.Uses[lid] == ctxObj) && i < len(x.Rhs) {
									if refersTo(info, x.Rhs[i], defaultVar) {
										if _, isCall := ast.Unparen(x.Rhs[i]).(*ast.CallExpr); !isCall {
											aliasDefault = true
										}
									}
								}
							}
						case *ast.CallExpr:
							// merge(&context, &Default)
							usesCtx, usesDef := false, false
							for _, a := range x.Args {
								if refersToObj(info, a, ctxObj) {
									usesCtx = true
								}
								if refersTo(info, a, defaultVar) {
									usesDef = true
								}
							}
							if usesCtx && usesDef && defaultsAt == token.NoPos {
								defaultsAt = x.Pos()
								// the callee must copy the entries: a callee that stores the map it was handed (`*dst = *src`
								// when dst is empty) makes the local context the shared table itself
								if fn, ok := calleeOf(info, x).(*types.Func); ok {
									if sf := p.SSA.FuncValue(fn); sf != nil {
										if at := adoptsParamMap(sf); at != token.NoPos {
											aliasDefault = true
											adoptedAt = p.Pos(at)
										}
									}
								}
							}
						case *ast.RangeStmt:
							// for n, p := range <profile prefixes> { context[n] = p }   /  for k, v := range Default { context[k] = v }
							writesCtx := false
							ast.Inspect(x.Body, func(q ast.Node) bool {
								if as, ok := q.(*ast.AssignStmt); ok {
									for _, lhs := range as.Lhs {
										if ix, ok := lhs.(*ast.IndexExpr); ok && refersToObj(info, ix.X, ctxObj) {
											writesCtx = true
										}
									}
								}
								return true
							})
							if !writesCtx {
								return true
							}
							if refersTo(info, x.X, defaultVar) {
								if defaultsAt == token.NoPos {
									defaultsAt = x.Pos()
								}
							} else if prefixesAt == token.NoPos {
								prefixesAt = x.Pos()
							}
						}
						return true
					})
					switch {
					case aliasDefault && adoptedAt != "":
						r.Bad(rid, k, p.Pos(cl.Pos()), "the helper that merges the defaults into the expander's context stores the map it is handed instead of copying its entries ("+adoptedAt+"): the context is then the shared default prefix table itself, and the profile's prefixes are written into it")
					case aliasDefault:
						r.Bad(rid, k, p.Pos(cl.Pos()), "the expander's context aliases the shared default prefix table instead of copying it")
					case defaultsAt == token.NoPos:
						r.Bad(rid, k, p.Pos(cl.Pos()), "the default prefixes are not merged into the expander's context")
					case prefixesAt == token.NoPos:
						r.Bad(rid, k, p.Pos(cl.Pos()), "the profile's prefixes are not written into the expander's context")
					case prefixesAt < defaultsAt:
						r.Bad(rid, k, p.Pos(cl.Pos()), "the profile's prefixes are written before the defaults, so a default overrides the profile's binding of the same prefix")
					default:
						r.OK(rid, k, p.Pos(cl.Pos()), "context = copy of the defaults, then the profile's prefixes on top")
					}
					return true
				})
			}
		}
	}
	if constructors == 0 {
		r.Unknown(rid, "expander-constructor", "", "no construction of the IRI expander found outside tests")
	}

	// (b) no hard-coded `prefix.` strings used in comparisons / prefix tests
	uses := prefixLiteralUses(p, defaults, ctxPk)
	for _, u := range uses {
		r.Bad(rid, u.key, p.Pos(u.pos), fmt.Sprintf("the prefix name %q is hard-coded in %s: behaviour depends on how the profile spells a prefix instead of on the namespace it is bound to", u.lit, u.where))
	}
	r.OK(rid, "hard-coded-prefix-census", "", fmt.Sprintf("%d default prefix names; %d uses of a hard-coded `prefix.` literal in comparisons or prefix tests", len(defaults), len(uses)))

	// (c) the expander resolves the prefix through its context only
	for i := 0; i < expander.NumMethods(); i++ {
		m := expander.Method(i)
		fd, pk := p.FuncDecl("internal/misc", expander.Obj().Name()+"."+m.Name())
		if fd == nil || fd.Body == nil {
			continue
		}
		// a method that indexes the context map
		indexes := false
		other := false
		ast.Inspect(fd.Body, func(n ast.Node) bool {
			if ix, ok := n.(*ast.IndexExpr); ok {
				if sel, ok := ast.Unparen(ix.X).(*ast.SelectorExpr); ok {
					if s := pk.TypesInfo.Selections[sel]; s != nil {
						if _, isMap := s.Type().Underlying().(*types.Map); isMap {
							indexes = true
						}
					}
				}
			}
			if id, ok := n.(*ast.Ident); ok {
				if v, ok := pk.TypesInfo.Uses[id].(*types.Var); ok && v == defaultVar {
					other = true
				}
			}
			return true
		})
		if indexes {
			r.Check(!other, rid, "internal/misc."+expander.Obj().Name()+"."+m.Name()+"#lookup", p.Pos(fd.Pos()), "the prefix is looked up in the expander's own context", "the expander consults the shared default table directly, bypassing the profile's bindings")
		}
	}
}

func refersTo(info *types.Info, e ast.Expr, v *types.Var) bool {
	found := false
	ast.Inspect(e, func(n ast.Node) bool {
		if id, ok := n.(*ast.Ident); ok && info.Uses[id] == types.Object(v) {
			found = true
		}
		return true
	})
	return found
}

func refersToObj(info *types.Info, e ast.Expr, o types.Object) bool {
	found := false
	ast.Inspect(e, func(n ast.Node) bool {
		if id, ok := n.(*ast.Ident); ok && (info.Uses[id] == o || info.Defs[id] == o) {
			found = true
		}
		return true
	})
	return found
}

type prefixUse struct {
	key, lit, where string
	pos             token.Pos
}

// prefixLiteralUses: string constants of the form `<default prefix>.…` used as operands of comparisons, prefix tests or
// switch cases anywhere in the module's hand-written code.
func prefixLiteralUses(p *Prog, defaults map[string]bool, ctxPk *packages.Package) []prefixUse {
	var out []prefixUse
	re := regexp.MustCompile(`^([A-Za-z][A-Za-z0-9-]*)[.:]`)
	for _, pk := range p.modPkgsSorted() {
		if pk == ctxPk {
			continue
		}
		info := pk.TypesInfo
		for _, file := range pk.Syntax {
			if strings.HasSuffix(p.Fset.Position(file.Pos()).Filename, "peg.go") {
				continue
			}
			ast.Inspect(file, func(n ast.Node) bool {
				var operands []ast.Expr
				where := ""
				switch x := n.(type) {
				case *ast.CallExpr:
					name := funcFullName(calleeOf(info, x))
					switch name {
					case "strings.HasPrefix", "strings.Contains", "strings.Index", "strings.TrimPrefix", "strings.EqualFold", "strings.Compare", "strings.Cut", "strings.CutPrefix":
						operands, where = x.Args, name
					}
				case *ast.BinaryExpr:
					if x.Op == token.EQL || x.Op == token.NEQ {
						operands, where = []ast.Expr{x.X, x.Y}, "a comparison"
					}
				case *ast.CaseClause:
					operands, where = x.List, "a switch case"
				}
				for _, op := range operands {
					tv, ok := info.Types[op]
					if !ok || tv.Value == nil || tv.Value.Kind() != constant.String {
						continue
					}
					s := constant.StringVal(tv.Value)
					m := re.FindStringSubmatch(s)
					if m == nil || !defaults[m[1]] {
						continue
					}
					out = append(out, prefixUse{relOf(pk) + "." + enclosingFuncName(pk, op.Pos()) + "#hard-coded:" + m[1], s, where, op.Pos()})
				}
				return true
			})
		}
	}
	return out
}

// defaultPrefixTable reads the package-level prefix table of the contexts package.
func defaultPrefixTable(p *Prog) (map[string]bool, *types.Var, *packages.Package) {
	ctxPk := p.Pkg("internal/validator/contexts")
	defaults := map[string]bool{}
	var defaultVar *types.Var
	if ctxPk == nil {
		return defaults, nil, nil
	}
	for _, n := range ctxPk.Types.Scope().Names() {
		v, ok := ctxPk.Types.Scope().Lookup(n).(*types.Var)
		if !ok {
			continue
		}
		if _, isMap := v.Type().Underlying().(*types.Map); !isMap {
			continue
		}
		init, pk := p.varInitializer(v)
		cl, ok := init.(*ast.CompositeLit)
		if !ok {
			continue
		}
		for _, el := range cl.Elts {
			if kv, ok := el.(*ast.KeyValueExpr); ok {
				if s, ok := constString(pk.TypesInfo, kv.Key); ok {
					defaults[s] = true
				}
			}
		}
		defaultVar = v
	}
	return defaults, defaultVar, ctxPk
}

// textPassedThrough: every module caller of fn passes, at prm's position, one of its own parameters (possibly converted
// between string and []byte), recursively up to functions that nobody in the module calls.
func textPassedThrough(p *Prog, fn *ssa.Function, prm *ssa.Parameter, depth int, seen map[*ssa.Function]bool) (bool, string) {
	if depth > 8 || seen[fn] {
		return true, ""
	}
	seen[fn] = true
	idx := -1
	for i, q := range fn.Params {
		if q == prm {
			idx = i
		}
	}
	if idx < 0 {
		return true, ""
	}
	for _, caller := range p.ModuleFuncs() {
		if strings.HasSuffix(p.Fset.Position(caller.Pos()).Filename, "_test.go") || strings.HasSuffix(p.Fset.Position(caller.Pos()).Filename, "test_utils.go") {
			continue
		}
		for _, b := range caller.Blocks {
			for _, ins := range b.Instrs {
				ci, ok := ins.(ssa.CallInstruction)
				if !ok || ci.Common().StaticCallee() != fn || idx >= len(ci.Common().Args) {
					continue
				}
				origin := ci.Common().Args[idx]
				for {
					switch x := origin.(type) {
					case *ssa.Convert:
						origin = x.X
						continue
					case *ssa.ChangeType:
						origin = x.X
						continue
					}
					break
				}
				switch x := origin.(type) {
				case *ssa.Parameter:
					if ok, why := textPassedThrough(p, caller, x, depth+1, seen); !ok {
						return false, why
					}
				case *ssa.Const:
				default:
					// text produced on the way (file contents in the commands, test fixtures) is fine when it does not derive
					// from a parameter of the caller: only edits of the caller's own text are the concern
					// (in the command-line front end a string parameter is a file name or an argument, not the text: reading the
					// file it names is "text produced on the way"; what the commands hand to the library is decided by C18.W5)
					if !strings.HasPrefix(RelPkg(caller), "cmd") && derivesFromParam(origin, 0) {
						return false, FuncKey(caller) + " passes " + origin.String() + " (computed from its own text parameter) to " + FuncKey(fn)
					}
				}
			}
		}
	}
	return true, ""
}

func derivesFromParam(v ssa.Value, depth int) bool {
	if depth > 6 || v == nil {
		return false
	}
	switch x := v.(type) {
	case *ssa.Parameter:
		t := x.Type().Underlying()
		if b, ok := t.(*types.Basic); ok && b.Info()&types.IsString != 0 {
			return true
		}
		if sl, ok := t.(*types.Slice); ok {
			if b, ok := sl.Elem().Underlying().(*types.Basic); ok && b.Kind() == types.Uint8 {
				return true
			}
		}
		return false
	case *ssa.Call:
		for _, a := range x.Call.Args {
			if derivesFromParam(a, depth+1) {
				return true
			}
		}
	case *ssa.Convert:
		return derivesFromParam(x.X, depth+1)
	case *ssa.BinOp:
		return derivesFromParam(x.X, depth+1) || derivesFromParam(x.Y, depth+1)
	case *ssa.Phi:
		for _, e := range x.Edges {
			if derivesFromParam(e, depth+1) {
				return true
			}
		}
	case *ssa.Slice:
		return derivesFromParam(x.X, depth+1)
	case *ssa.Extract:
		return derivesFromParam(x.Tuple, depth+1)
	}
	return false
}

// textChain lists (function, parameter) pairs through which a text reaches prm of fn from the functions nobody in the
// module calls: the parameter itself and, transitively, the callers' parameters that are passed on to it.
type textParam struct {
	fn  *ssa.Function
	prm *ssa.Parameter
}

func textChain(p *Prog, fn *ssa.Function, prm *ssa.Parameter, seen map[*ssa.Parameter]bool) []textParam {
	if seen[prm] {
		return nil
	}
	seen[prm] = true
	out := []textParam{{fn, prm}}
	idx := -1
	for i, q := range fn.Params {
		if q == prm {
			idx = i
		}
	}
	if idx < 0 {
		return out
	}
	for _, caller := range p.ModuleFuncs() {
		fname := p.Fset.Position(caller.Pos()).Filename
		if strings.HasSuffix(fname, "_test.go") || strings.HasSuffix(fname, "test_utils.go") {
			continue
		}
		for _, b := range caller.Blocks {
			for _, ins := range b.Instrs {
				ci, ok := ins.(ssa.CallInstruction)
				if !ok || ci.Common().StaticCallee() != fn || idx >= len(ci.Common().Args) {
					continue
				}
				origin := ci.Common().Args[idx]
				for {
					if cv, ok := origin.(*ssa.Convert); ok {
						origin = cv.X
						continue
					}
					break
				}
				if q, ok := origin.(*ssa.Parameter); ok {
					out = append(out, textChain(p, caller, q, seen)...)
				}
			}
		}
	}
	return out
}

// otherUsesOfText: uses of the text parameter (and of its string/[]byte conversions) other than handing it to one of the
// allowed callees. allowed decides by the static callee and argument position.
func otherUsesOfText(prm *ssa.Parameter, allowed func(ci ssa.CallInstruction, argIdx int) bool) []ssa.Instruction {
	var bad []ssa.Instruction
	var visit func(v ssa.Value, depth int)
	visit = func(v ssa.Value, depth int) {
		if depth > 3 {
			return
		}
		for _, ref := range nonDebugRefs(v) {
			switch x := ref.(type) {
			case *ssa.Convert:
				visit(x, depth+1)
			case *ssa.ChangeType:
				visit(x, depth+1)
			case *ssa.MakeInterface:
				visit(x, depth+1)
			case ssa.CallInstruction:
				ok := false
				for i, a := range x.Common().Args {
					if a == v && allowed(x, i) {
						ok = true
					}
				}
				if !ok {
					bad = append(bad, ref)
				}
			case *ssa.MakeClosure:
				bad = append(bad, ref)
			default:
				bad = append(bad, ref)
			}
		}
	}
	visit(prm, 0)
	return bad
}

func c15PrefixNames(c *Ctx) {
	r, p := c.R, c.P
	g, err := loadPegGrammar(p, "internal/parser/path")
	if err != nil {
		r.Unknown("C15.O7", "grammar", "", err.Error())
		return
	}
	var nsCls *pegExpr
	for _, rl := range g.Rules {
		seq := rl.Expr.strip()
		if seq.Kind != "seq" {
			continue
		}
		for i := 0; i+2 < len(seq.Kids); i++ {
			a, dot, b := seq.Kids[i].strip(), seq.Kids[i+1].strip(), seq.Kids[i+2].strip()
			if a.Kind == "plus" && b.Kind == "plus" && dot.Kind == "lit" && dot.Val == "." && a.Kids[0].strip().Kind == "class" && b.Kids[0].strip().Kind == "class" {
				nsCls = a.Kids[0].strip()
			}
		}
	}
	if nsCls == nil {
		r.Unknown("C15.O7", "iri-rule", "", "the grammar rule for compact IRIs was not found")
		return
	}
	chars, ok := classRunes(nsCls)
	if !ok {
		r.Unknown("C15.O7", "iri-prefix-class", "", "unbounded grammar class")
		return
	}
	// the prefix parser: functions of the profile package that return the prefix table (a map from string to string) built
	// from a YAML node, and what they call in their own package
	var roots []*ssa.Function
	for _, fn := range p.ModuleFuncs() {
		if RelPkg(fn) != "internal/parser/profile" || fn.Signature.Results().Len() < 1 || fn.Parent() != nil {
			continue
		}
		m, ok := fn.Signature.Results().At(0).Type().Underlying().(*types.Map)
		if !ok || !isStringType(m.Key()) || !isStringType(m.Elem()) {
			continue
		}
		roots = append(roots, fn)
	}
	if len(roots) == 0 {
		r.Unknown("C15.O7", "prefix-parser", "", "no function returning a prefix table found in the profile parser")
		return
	}
	n := 0
	for _, root := range roots {
		for _, fn := range samePkgReach(p, root) {
			for _, b := range fn.Blocks {
				for _, ins := range b.Instrs {
					call, ok := ins.(*ssa.Call)
					if !ok {
						continue
					}
					name := funcFullName(ssaCalleeObj(call))
					var pat string
					var okPat bool
					switch name {
					case "(*regexp.Regexp).MatchString", "(*regexp.Regexp).Match", "(*regexp.Regexp).FindString", "(*regexp.Regexp).FindStringSubmatch":
						pat, okPat = regexpPatternOf(call.Call.Args[0])
					case "regexp.MatchString":
						pat, okPat = constStringOf(call.Call.Args[0])
					default:
						continue
					}
					n++
					k := FuncKey(fn) + "#name-pattern"
					if !okPat {
						r.Unknown("C15.O7", k, p.Pos(ins.Pos()), "a regular expression is applied in the prefix parser but its pattern is not a constant")
						continue
					}
					re, err := regexp.Compile(pat)
					if err != nil {
						r.Unknown("C15.O7", k, p.Pos(ins.Pos()), "the pattern does not compile: "+err.Error())
						continue
					}
					var rejected []rune
					for _, ch := range chars {
						if unicode.IsSpace(ch) {
							continue
						}
						for _, sample := range []string{string(ch), "a" + string(ch), string(ch) + "a"} {
							if !re.MatchString(sample) {
								rejected = append(rejected, ch)
								break
							}
						}
					}
					r.Check(len(rejected) == 0, "C15.O7", k, p.Pos(ins.Pos()), "the name check admits every prefix name the grammar admits", fmt.Sprintf("the prefix parser checks names against %q, which rejects names the compact-IRI grammar admits (characters %s, alone, first or last): the same profile with its prefix consistently renamed to such a name is an error instead of the same report", pat, quoteRunes(rejected)))
				}
			}
		}
	}
	if n == 0 {
		r.OK("C15.O7", "census", "", fmt.Sprintf("%d prefix-table function(s): no pattern is applied to prefix names", len(roots)))
	}
	// the same for the {{prefix.name}} placeholders of messages: the pattern that finds them must find a placeholder
	// whatever admissible prefix name it uses, and capture it whole
	for _, fn := range p.ModuleFuncs() {
		if RelPkg(fn) != "internal/parser/profile" || fn.Signature.Results().Len() != 1 || typeName(fn.Signature.Results().At(0).Type()) != "Message" {
			continue
		}
		for _, sub := range samePkgReach(p, fn) {
			for _, b := range sub.Blocks {
				for _, ins := range b.Instrs {
					call, ok := ins.(*ssa.Call)
					if !ok || !strings.HasPrefix(funcFullName(ssaCalleeObj(call)), "(*regexp.Regexp).Find") {
						continue
					}
					k := FuncKey(sub) + "#placeholder-pattern"
					pat, okPat := regexpPatternOf(call.Call.Args[0])
					if !okPat {
						r.Unknown("C15.O7", k, p.Pos(ins.Pos()), "the pattern that finds message placeholders is not a constant")
						continue
					}
					re, err := regexp.Compile(pat)
					if err != nil {
						r.Unknown("C15.O7", k, p.Pos(ins.Pos()), "the pattern does not compile: "+err.Error())
						continue
					}
					if re.FindStringSubmatch("{{ab.name}}") == nil {
						continue // not the placeholder pattern
					}
					var rejected []rune
					for _, ch := range chars {
						if unicode.IsSpace(ch) {
							continue
						}
						for _, prefix := range []string{"a" + string(ch) + "b", string(ch) + "a", "a" + string(ch)} {
							m := re.FindStringSubmatch("see {{" + prefix + ".name}} here")
							found := false
							for _, g := range m {
								if g == prefix+".name" {
									found = true
								}
							}
							if !found {
								rejected = append(rejected, ch)
								break
							}
						}
					}
					r.Check(len(rejected) == 0, "C15.O7", k, p.Pos(ins.Pos()), "message placeholders are found for every prefix name the grammar admits", fmt.Sprintf("the pattern %q that finds {{prefix.name}} placeholders does not find them when the prefix contains %s, which the compact-IRI grammar admits: the same profile with its prefix consistently renamed prints the raw placeholder instead of the value", pat, quoteRunes(rejected)))
				}
			}
		}
	}
}

// c15NoEarlyStop (O8): the lists the profile parser builds from the sequences and mappings of the profile (the names of a
// level list, the operands of and / or, the entries of a mapping) must not depend on the position of an entry, so no
// loop that fills such a list may stop early: a `break` (or a return that is not an error exit) after which later
// entries are never looked at makes the result depend on the order the profile lists them in.  Decided on the values the
// functions build (E-sym): what a loop appends after a statement that may have ended the loop is marked, however the
// loop and its guards are written; `continue` (this entry is skipped, the others are not) and error exits are fine.
func c15NoEarlyStop(c *Ctx) {
	r, p := c.R, c.P
	r.Rule("C15.O8", "no loop of the profile parser that fills a list stops early: later entries are always looked at", 1)
	n := 0
	for _, rel := range []string{"internal/parser/profile", "internal/parser/yaml"} {
		pk := p.Pkg(rel)
		if pk == nil {
			continue
		}
		for _, f := range pk.Syntax {
			for _, d := range f.Decls {
				fd, ok := d.(*ast.FuncDecl)
				if !ok || fd.Body == nil {
					continue
				}
				n++
				var bad []string
				look := func(v *Sym) {
					v.Walk(func(q *Sym) {
						if q.K == symWhen && q.Fn == "stopped" {
							bad = append(bad, shortFormat(q.Name))
						}
					})
				}
				proto := &symWalker{}
				proto.OnReturn = func(w *symWalker, ret *ast.ReturnStmt, results []*Sym) {
					for _, v := range results {
						look(v)
					}
				}
				proto.OnStore = func(w *symWalker, at ast.Node, target *Sym, key *Sym, val *Sym) { look(val) }
				p.SymWalk(pk, fd, proto, nil)
				if len(bad) > 0 {
					name := fd.Name.Name
					if rn := recvName(fd); rn != "" {
						name = rn + "." + name
					}
					r.Bad("C15.O8", relOf(pk)+"."+name+"#stops-early", p.Pos(fd.Pos()), "a list built here receives entries only while "+bad[0]+": once the loop has been stopped the remaining entries of the profile's list are ignored, so the result depends on the order in which the profile lists them")
				}
			}
		}
	}
	r.OK("C15.O8", "census", "", fmt.Sprintf("%d functions of the profile and YAML parsers evaluated: no list is filled by a loop that can stop early", n))
}

// readsNodeText: some expression under n reads the Value of a yaml.Node.
func readsNodeText(info *types.Info, n ast.Node) bool {
	found := false
	ast.Inspect(n, func(m ast.Node) bool {
		sel, ok := m.(*ast.SelectorExpr)
		if !ok || sel.Sel.Name != "Value" {
			return true
		}
		if tv, ok := info.Types[sel.X]; ok {
			t := tv.Type
			if pt, ok := t.Underlying().(*types.Pointer); ok {
				t = pt.Elem()
			}
			if nt := namedOf(t); nt != nil && nt.Obj().Name() == "Node" && strings.HasSuffix(objPkgPath(nt.Obj()), "yaml.v3") {
				found = true
			}
		}
		return true
	})
	return found
}

// adoptsParamMap: the function stores a map it received (as a map parameter or through a pointer parameter) into memory
// that another parameter points to, or returns it: afterwards two owners share one map.
func adoptsParamMap(fn *ssa.Function) token.Pos {
	fromParam := func(v ssa.Value) *ssa.Parameter {
		for i := 0; i < 6; i++ {
			switch x := v.(type) {
			case *ssa.Parameter:
				return x
			case *ssa.UnOp:
				if x.Op != token.MUL {
					return nil
				}
				v = x.X
			case *ssa.ChangeType:
				v = x.X
			case *ssa.FieldAddr:
				v = x.X
			default:
				return nil
			}
		}
		return nil
	}
	for _, b := range fn.Blocks {
		for _, ins := range b.Instrs {
			switch x := ins.(type) {
			case *ssa.Store:
				if _, isMap := x.Val.Type().Underlying().(*types.Map); !isMap {
					continue
				}
				src, dst := fromParam(x.Val), fromParam(x.Addr)
				if src != nil && dst != nil && src != dst {
					return x.Pos()
				}
			case *ssa.Return:
				for _, res := range x.Results {
					if _, isMap := res.Type().Underlying().(*types.Map); isMap && fromParam(res) != nil {
						return x.Pos()
					}
				}
			}
		}
	}
	return token.NoPos
}
