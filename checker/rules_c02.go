package main

import (
	"fmt"
	"go/ast"
	"go/token"
	"go/types"
	"golang.org/x/tools/go/ssa"
	"sort"
	"strings"

	rast "github.com/open-policy-agent/opa/ast"
	"golang.org/x/tools/go/packages"
)

func init() { register("C02", checkC02) }

func checkC02(c *Ctx) {
	r, p := c.R, c.P
	r.Explanation = "Decides the structural facts that make generated path rules denote composition, union and converse. (P1) Grammar shape, read from the parser's PEG table: the rule with the `/` literal builds the sequence node and its operands are the rule with the `|` literal, which builds the alternative node and whose operands are the factor rule (so `|` binds tighter than `/`); a factor is a parenthesised expression, an IRI or `@type`; the IRI action sets Inverse exactly under the `^` test and Transitive under the `*` test. (P2) Tree building: the builder's type switch covers every node type the grammar actions construct, maps sequence to the And path and alternative to the Or path, copies Inverse, and appends every element of the body, in order, unconditionally. (P3) Traversal is structural recursion: the traversal switch covers every path type except the null path; the alternative traversal ranges over all alternatives and appends all results without break/continue/condition; the sequence traversal traverses the head with node fetching forced on and continues from each head result with the remaining tail; the inverse arm emits the search_subjects template with the current source as data.object and the forward arm reads the property of the current source. (P4) Slice ownership: a function that appends to slice fields of a by-value struct parameter works on a fresh copy - it re-assigns the parameter from a cloning call, or every call site passes the direct result of one - so alternatives never extend a shared backing array. (P5) Set semantics: every consumer obtains values through the set aggregation, whose rule head is a partial-set rule with one clause per alternative; only uniqueValues uses the array aggregation. (P6) Embedded helpers: search_subjects iterates input[\"@ids\"], passes the predicate's values through nodes_array and compares @id with the object's; find dereferences a link through input[\"@ids\"]. Value-level semantics of the helpers beyond this shape, and cyclic graphs (the generator has no fixpoint: paths are finite), are not decided."
	r.Declines = []string{"value-level semantics of the Rego helpers beyond their shape", "transitive paths (`*`) are parsed but not generated (documented TODO in the repository)"}
	r.Trusted = []string{"the pigeon runtime interprets the table as PEG semantics prescribe", "OPA partial-set rules denote the union of their clauses"}
	r.Rule("C02.P1", "grammar: `/` over `|` over factors; IRI modifiers map to Inverse / Transitive", 5)
	r.Rule("C02.P2", "builder: all node types, order-preserving, nothing dropped", 4)
	r.Rule("C02.P3", "traversal: union over all alternatives, composition from each head result, converse via search_subjects", 5)
	r.Rule("C02.P4", "slice fields of by-value traversal state are only extended on fresh copies", 2)
	r.Rule("C02.P5", "set aggregation for every consumer except uniqueValues", 3)
	r.Rule("C02.P6", "embedded helpers search_subjects / find have the expected shape", 3)
	r.Rule("C02.P11", "a forward and an inverse step yield the nodes they reach in the same form", 1)

	g, err := loadPegGrammar(p, "internal/parser/path")
	if err != nil {
		r.Unknown("C02.P1", "grammar", "", err.Error())
	} else {
		c02Grammar(c, g)
	}
	c02Builder(c, g)
	c02Traversal(c)
	c02Ownership(c)
	c02Sets(c)
	c02Helpers(c)
	c02RuleNames(c)
	c02EveryResult(c)
	// (P9) a predicate step denotes the IRI its prefix is bound to by THIS profile and the built-in table: the expander's
	// context is a fresh copy of the defaults overlaid by the profile's prefixes (an aliased table lets an earlier profile
	// rebind the prefixes of a later one)
	r.Rule("C02.P9", "the IRI a path step denotes depends on the profile alone: fresh expander context, defaults then profile prefixes", 2)
	prefixResolution(c, "C02.P9")
	// (P7) which traversal a step gets (custom domain property or regular predicate) depends on the namespace the IRI
	// expands to, never on how the prefix is spelled
	r.Rule("C02.P7", "path steps are classified by their expanded IRI, not by a prefix name", 1)
	defaults, _, ctxPk := defaultPrefixTable(p)
	if len(defaults) == 0 {
		r.Unknown("C02.P7", "default-prefixes", "", "the default prefix table was not found")
	} else {
		uses := prefixLiteralUses(p, defaults, ctxPk)
		n := 0
		for _, u := range uses {
			if strings.HasPrefix(u.key, "internal/parser/path.") || strings.HasPrefix(u.key, "internal/generator.") {
				n++
				r.Bad("C02.P7", u.key, p.Pos(u.pos), fmt.Sprintf("a path step is classified by the literal prefix %q (%s): with the prefix rebound, or the namespace bound to another prefix, the step is traversed the wrong way and yields nothing", u.lit, u.where))
			}
		}
		if n == 0 {
			r.OK("C02.P7", "census", "", "no prefix name is tested in the path package or the generator")
		}
	}
}

func ruleWithLiteralInStar(g *pegGrammar, lit string) *pegRule {
	for _, rl := range g.Rules {
		found := false
		rl.Expr.walk(func(e *pegExpr) {
			if e.Kind == "star" {
				e.walk(func(k *pegExpr) {
					if k.Kind == "lit" && k.Val == lit {
						found = true
					}
				})
			}
		})
		if found {
			return rl
		}
	}
	return nil
}

func operandRefs(g *pegGrammar, rl *pegRule) []string {
	set := map[string]bool{}
	rl.Expr.walk(func(e *pegExpr) {
		if e.Kind == "ref" && !g.wsRule(e.Val) {
			set[e.Val] = true
		}
	})
	return sortedKeys(set)
}

func actionOf(rl *pegRule) string {
	if rl.Expr.Kind == "action" {
		return rl.Expr.Val
	}
	return ""
}

func c02Grammar(c *Ctx, g *pegGrammar) {
	r, p := c.R, c.P
	seqRule := ruleWithLiteralInStar(g, "/")
	altRule := ruleWithLiteralInStar(g, "|")
	if seqRule == nil || altRule == nil {
		r.Unknown("C02.P1", "operators", "", "the rules for `/` and `|` were not found in the grammar table")
		return
	}
	seqOps, altOps := operandRefs(g, seqRule), operandRefs(g, altRule)
	r.Check(len(seqOps) == 1 && seqOps[0] == altRule.Name, "C02.P1", "precedence:/", p.Pos(seqRule.Pos), fmt.Sprintf("the operands of `/` are %s, the rule of `|`", altRule.Name), fmt.Sprintf("the operands of `/` are %v, expected only the rule of `|` (%s): `|` must bind tighter than `/`", seqOps, altRule.Name))
	var factor *pegRule
	if len(altOps) == 1 {
		factor = g.Rule(altOps[0])
	}
	r.Check(factor != nil && factor != seqRule && factor != altRule, "C02.P1", "precedence:|", p.Pos(altRule.Pos), "the operands of `|` are the factor rule", fmt.Sprintf("the operands of `|` are %v, expected the factor rule only", altOps))
	// node types constructed
	seqT := g.constructedTypes(g.actionDecl(actionOf(seqRule)))
	altT := g.constructedTypes(g.actionDecl(actionOf(altRule)))
	r.Check(len(seqT) == 1 && len(altT) == 1 && seqT[0] != altT[0], "C02.P1", "node-types", "", fmt.Sprintf("`/` builds %v, `|` builds %v", seqT, altT), fmt.Sprintf("the actions of `/` and `|` do not build two distinct node types (%v / %v)", seqT, altT))
	if factor != nil {
		ch := factor.Expr.strip()
		var hasParen, hasIri, hasType bool
		if ch.Kind == "choice" {
			for _, alt := range ch.Kids {
				a := alt.strip()
				switch {
				case a.Kind == "seq" && len(a.Kids) >= 3 && a.Kids[0].strip().Kind == "lit" && a.Kids[0].strip().Val == "(":
					// refers back to the sequence rule (full expression inside parentheses)
					a.walk(func(e *pegExpr) {
						if e.Kind == "ref" && e.Val == seqRule.Name {
							hasParen = true
						}
					})
				case a.Kind == "ref":
					hasIri = true
				case a.Kind == "lit" && a.Val == "@type":
					hasType = true
				}
			}
		}
		r.Check(hasParen && hasIri && hasType, "C02.P1", "factor", p.Pos(factor.Pos), "factor = ( expression ) | iri | @type", fmt.Sprintf("the factor rule is not `( expression ) | iri | @type` (parenthesised expression: %v, iri: %v, @type: %v)", hasParen, hasIri, hasType))
	}
	// IRI action: Inverse under "^", Transitive under "*"
	for _, rl := range g.Rules {
		fd := g.actionDecl(actionOf(rl))
		if fd == nil {
			continue
		}
		assigns := map[string]string{} // field -> modifier literal in the guarding condition
		ast.Inspect(fd.Body, func(n ast.Node) bool {
			ifs, ok := n.(*ast.IfStmt)
			if !ok {
				return true
			}
			lits := map[string]bool{}
			ast.Inspect(ifs.Cond, func(q ast.Node) bool {
				if bl, ok := q.(*ast.BasicLit); ok && bl.Kind == token.STRING {
					lits[strings.Trim(bl.Value, "\"`")] = true
				}
				return true
			})
			for _, st := range ifs.Body.List {
				if as, ok := st.(*ast.AssignStmt); ok && len(as.Lhs) == 1 {
					if sel, ok := as.Lhs[0].(*ast.SelectorExpr); ok {
						if id, ok := as.Rhs[0].(*ast.Ident); ok && id.Name == "true" {
							assigns[sel.Sel.Name] = strings.Join(sortedKeys(lits), "")
						}
					}
				}
			}
			return true
		})
		if len(assigns) == 0 {
			continue
		}
		r.Check(assigns["Inverse"] == "^" && (assigns["Transitive"] == "" || assigns["Transitive"] == "*"), "C02.P1", "modifiers:"+rl.Name, p.Pos(fd.Pos()), "Inverse is set under the `^` test, Transitive under `*`", fmt.Sprintf("the IRI action sets Inverse under %q and Transitive under %q", assigns["Inverse"], assigns["Transitive"]))
	}
}

// ---- P2
func c02Builder(c *Ctx, g *pegGrammar) { pathTreeBuilder(c, g, "C02.P2") }

// pathTreeBuilder: the function that turns the parser's nodes into path values (shared by C02.P2 and C16.X8).
func pathTreeBuilder(c *Ctx, g *pegGrammar, rid string) {
	r, p := c.R, c.P
	pk := p.Pkg("internal/parser/path")
	if pk == nil {
		r.Unknown(rid, "package", "", "internal/parser/path not found")
		return
	}
	info := pk.TypesInfo
	// node types the actions construct
	constructed := map[string]bool{}
	if g != nil {
		for _, rl := range g.Rules {
			rl.Expr.walk(func(e *pegExpr) {
				if e.Kind == "action" {
					for _, t := range g.constructedTypes(g.actionDecl(e.Val)) {
						constructed[t] = true
					}
				}
			})
		}
	}
	// the builder: the function with a type switch over an `any` parameter whose cases are those types
	for _, f := range pk.Syntax {
		if strings.HasSuffix(p.Fset.Position(f.Pos()).Filename, "peg.go") {
			continue
		}
		for _, d := range f.Decls {
			fd, ok := d.(*ast.FuncDecl)
			if !ok || fd.Body == nil {
				continue
			}
			var ts *ast.TypeSwitchStmt
			ast.Inspect(fd.Body, func(n ast.Node) bool {
				if t, ok := n.(*ast.TypeSwitchStmt); ok && ts == nil {
					ts = t
				}
				return true
			})
			if ts == nil {
				continue
			}
			cases := map[string]*ast.CaseClause{}
			for _, cl := range ts.Body.List {
				cc := cl.(*ast.CaseClause)
				for _, e := range cc.List {
					if tv, ok := info.Types[e]; ok {
						if nt, ok := tv.Type.(*types.Named); ok {
							cases[nt.Obj().Name()] = cc
						}
					}
				}
			}
			hit := 0
			for t := range constructed {
				if cases[t] != nil {
					hit++
				}
			}
			if hit == 0 {
				continue
			}
			key := relOf(pk) + "." + fd.Name.Name
			var missing []string
			for t := range constructed {
				if cases[t] == nil {
					missing = append(missing, t)
				}
			}
			sort.Strings(missing)
			r.Check(len(missing) == 0, rid, key+"#covers-node-types", p.Pos(ts.Pos()), fmt.Sprintf("the builder handles all %d node types the grammar constructs", len(constructed)), "the builder has no case for "+strings.Join(missing, ", ")+": such paths hit the default (panic)")
			// per case, decided on the value the builder returns (E-sym: helpers interpreted, loops summarised)
			type caseRet struct {
				val *Sym
				pos token.Pos
			}
			rets := map[string][]caseRet{}
			self := info.Defs[fd.Name]
			proto := &symWalker{Inline: func(fn *types.Func) bool {
				if fn.Pkg() != pk.Types {
					return false
				}
				if d, dpk := p.findDecl(fn); d != nil {
					return !strings.HasSuffix(dpk.Fset.Position(d.Pos()).Filename, "peg.go")
				}
				return false
			}}
			proto.OnReturn = func(w *symWalker, ret *ast.ReturnStmt, results []*Sym) {
				if w.depth != 0 || len(results) != 1 {
					return
				}
				for _, cnd := range w.Conds() {
					if cnd.Cond.K == symCall && cnd.Cond.Fn == "typeis" && !cnd.Neg {
						for _, nm := range strings.Split(cnd.Cond.Name, "|") {
							rets[nm] = append(rets[nm], caseRet{results[0], ret.Pos()})
						}
					}
				}
			}
			p.SymWalk(pk, fd, proto, nil)
			listField := map[string]string{}
			for tname := range cases {
				if len(rets[tname]) == 0 {
					continue // a case that panics or delegates
				}
				for _, cr := range rets[tname] {
					v := cr.val
					if v.K != symStruct {
						r.Unknown(rid, key+"#"+tname+"-result", p.Pos(cr.pos), "the builder's result for "+tname+" is "+v.String()+", not a path node literal")
						continue
					}
					if inv, ok := v.FieldDeep("Inverse"); ok {
						r.Check(inv.K == symField && inv.Name == "Inverse", rid, key+"#inverse-copied", p.Pos(cr.pos), "Inverse is copied from the parsed node", "the Inverse flag of the built property is not the parsed node's Inverse: "+inv.String())
					}
					for _, fname := range []string{"And", "Or"} {
						lst, ok := v.FieldDeep(fname)
						if !ok {
							continue
						}
						listField[tname] = fname
						okList := lst.K == symList && len(lst.Parts) == 1 && lst.Parts[0].K == symRepeat && len(lst.Parts[0].Parts) == 1
						if okList {
							rep := lst.Parts[0]
							el := rep.Parts[0]
							// the parsed body of the node, each element built by the builder itself
							okList = rep.X.K == symField && el.K == symCall && len(el.Parts) >= 1 && el.Parts[len(el.Parts)-1].K == symElem && el.Parts[len(el.Parts)-1].X.String() == rep.X.String()
							if okList {
								if fo, isFn := self.(*types.Func); isFn && el.Fn != funcFullName(fo) {
									okList = false
								}
							}
						}
						r.Check(okList, rid, key+"#"+tname+"-keeps-every-element", p.Pos(cr.pos), "every element of the parsed body is built and kept, in order", "the "+fname+" list built for "+tname+" is "+lst.String()+", not [build(element) for every element of the parsed body]: alternatives or steps of the path are lost, filtered or reordered")
					}
				}
			}
			// sequence -> And path, alternative -> Or path
			if g != nil {
				seqRule, altRule := ruleWithLiteralInStar(g, "/"), ruleWithLiteralInStar(g, "|")
				if seqRule != nil && altRule != nil {
					seqT := g.constructedTypes(g.actionDecl(actionOf(seqRule)))
					altT := g.constructedTypes(g.actionDecl(actionOf(altRule)))
					if len(seqT) == 1 && len(altT) == 1 && cases[seqT[0]] != nil && cases[altT[0]] != nil {
						r.Check(listField[seqT[0]] == "And" && listField[altT[0]] == "Or", rid, key+"#operator-mapping", p.Pos(ts.Pos()), "`/` nodes become sequence paths and `|` nodes alternative paths", fmt.Sprintf("`/` nodes are built as %q paths and `|` nodes as %q paths", listField[seqT[0]], listField[altT[0]]))
					}
				}
			}
		}
	}
}

// ---- P3
func c02Traversal(c *Ctx) {
	r, p := c.R, c.P
	gen := p.Pkg("internal/generator")
	pathPk := p.Pkg("internal/parser/path")
	if gen == nil || pathPk == nil {
		return
	}
	info := gen.TypesInfo
	// path interface implementors
	var pathIf *types.Interface
	var pathT *types.Named
	for _, n := range pathPk.Types.Scope().Names() {
		if tn, ok := pathPk.Types.Scope().Lookup(n).(*types.TypeName); ok {
			if it, ok := tn.Type().Underlying().(*types.Interface); ok && it.NumMethods() >= 2 {
				pathIf, pathT = it, tn.Type().(*types.Named)
			}
		}
	}
	if pathIf == nil {
		r.Unknown("C02.P3", "path-interface", "", "the property path interface was not found")
		return
	}
	var impls []string
	for _, n := range pathPk.Types.Scope().Names() {
		if tn, ok := pathPk.Types.Scope().Lookup(n).(*types.TypeName); ok {
			if _, isStruct := tn.Type().Underlying().(*types.Struct); isStruct && types.Implements(tn.Type(), pathIf) {
				impls = append(impls, tn.Name())
			}
		}
	}
	for _, f := range gen.Syntax {
		for _, d := range f.Decls {
			fd, ok := d.(*ast.FuncDecl)
			if !ok || fd.Body == nil {
				continue
			}
			key := relOf(gen) + "." + fd.Name.Name
			// the traversal switch
			ast.Inspect(fd.Body, func(n ast.Node) bool {
				ts, ok := n.(*ast.TypeSwitchStmt)
				if !ok {
					return true
				}
				var tag ast.Expr
				if as, ok := ts.Assign.(*ast.AssignStmt); ok {
					if ta, ok := as.Rhs[0].(*ast.TypeAssertExpr); ok {
						tag = ta.X
					}
				}
				if tag == nil {
					return true
				}
				if tv, ok := info.Types[tag]; !ok || !types.Identical(tv.Type, pathT) {
					return true
				}
				have := map[string]bool{}
				for _, cl := range ts.Body.List {
					for _, e := range cl.(*ast.CaseClause).List {
						if tv, ok := info.Types[e]; ok {
							have[typeName(tv.Type)] = true
						}
					}
				}
				var missing []string
				for _, im := range impls {
					if !have[im] && !strings.Contains(strings.ToLower(im), "null") {
						missing = append(missing, im)
					}
				}
				r.Check(len(missing) == 0, "C02.P3", key+"#covers-path-types", p.Pos(ts.Pos()), fmt.Sprintf("the traversal handles every path type (%s)", strings.Join(impls, ", ")), "the traversal has no case for "+strings.Join(missing, ", ")+": such sub-paths yield nothing")
				return true
			})
			if fd.Type.Params == nil || len(fd.Type.Params.List) == 0 {
				continue
			}
			if prm0 := firstParamObj(info, fd); prm0 != nil {
				switch {
				case hasSliceFieldOf(prm0.Type(), "Or", pathT):
					ok, why := c02UnionShape(c, gen, fd, prm0, "Or", pathT)
					r.Check(ok, "C02.P3", key+"#union", p.Pos(fd.Pos()), "every alternative is traversed and all its results are appended", "union is not complete: "+why)
				case hasSliceFieldOf(prm0.Type(), "And", pathT):
					ok, why := c02CompositionShape(c, gen, fd, prm0, "And", pathT)
					r.Check(ok, "C02.P3", key+"#composition", p.Pos(fd.Pos()), "the head is traversed to nodes, and the tail And[1:] is traversed from each head result", "composition is not `head (fetching nodes) then tail from each head result`: "+why)
				}
			}
			// inverse / forward arms of a property step, decided on what the function emits when <property>.Inverse is true and
			// when it is false (E-sym, two worlds): however the choice is written (if/else, switch, helper)
			if fd.Type.Params == nil || len(fd.Type.Params.List) == 0 || len(fd.Type.Params.List[0].Names) == 0 {
				continue
			}
			prm0 := info.Defs[fd.Type.Params.List[0].Names[0]]
			if prm0 == nil || !hasField(prm0.Type(), "Inverse") {
				continue
			}
			mentionsInverse := false
			ast.Inspect(fd.Body, func(n ast.Node) bool {
				if sel, ok := n.(*ast.SelectorExpr); ok && sel.Sel.Name == "Inverse" {
					mentionsInverse = true
				}
				return true
			})
			if !mentionsInverse {
				continue
			}
			world := func(inverse bool) string {
				var out []string
				proto := &symWalker{Inline: samePkgInline(gen), Assume: map[string]bool{prm0.Name() + ".Inverse": inverse}}
				proto.OnCall = func(w *symWalker, call *ast.CallExpr, fn types.Object, args []*Sym, result *Sym) {
					id, ok := ast.Unparen(call.Fun).(*ast.Ident)
					if !ok || id.Name != "append" || len(args) < 2 || call.Ellipsis.IsValid() {
						return
					}
					if tv, ok := w.info.Types[call]; !ok || tv.Type.String() != "[]string" {
						return
					}
					for _, a := range args[1:] {
						out = append(out, a.Template())
					}
				}
				p.SymWalk(gen, fd, proto, nil)
				return strings.Join(out, "\n")
			}
			inv, fwd := world(true), world(false)
			okInv := strings.Contains(inv, "search_") && strings.Contains(inv, "with data.object as") && !strings.Contains(fwd, "search_")
			okFwd := fwd != "" && (strings.Contains(fwd, "nested_nodes") || strings.Contains(fwd, "object.get") || strings.Contains(fwd, "gen_path_extension"))
			r.Check(okInv && okFwd, "C02.P3", key+"#converse", p.Pos(fd.Pos()), "p^ searches the subjects whose p is the current node; p reads the current node's p", "the Inverse arm does not emit the subject search (or the forward arm does): inverse="+shortFormat(inv)+" forward="+shortFormat(fwd))
			// P11: when the step's results are not dereferenced (the caller counts or compares values), the forward arm
			// yields the values as the node holds them — links {"@id": …} for nodes — so the inverse arm has to yield links
			// too, or the union of a forward and an inverse step holds one node twice, once as a link and once as the
			// full node object the subject search returns
			if bp := boolParamName(info, fd); bp != "" {
				worldNF := func(inverse bool) string {
					var out []string
					proto := &symWalker{Inline: samePkgInline(gen), Assume: map[string]bool{prm0.Name() + ".Inverse": inverse, bp: false}}
					proto.OnCall = func(w *symWalker, call *ast.CallExpr, fn types.Object, args []*Sym, result *Sym) {
						id, ok := ast.Unparen(call.Fun).(*ast.Ident)
						if !ok || id.Name != "append" || len(args) < 2 || call.Ellipsis.IsValid() {
							return
						}
						if tv, ok := w.info.Types[call]; !ok || tv.Type.String() != "[]string" {
							return
						}
						for _, a := range args[1:] {
							out = append(out, a.Template())
						}
					}
					p.SymWalk(gen, fd, proto, nil)
					return strings.Join(out, "\n")
				}
				invNF, fwdNF := worldNF(true), worldNF(false)
				if strings.Contains(invNF, "search_subjects") && strings.Contains(fwdNF, "nodes_array") && !strings.Contains(fwdNF, "search_") {
					fwdDerefs := strings.Contains(fwdNF, "nested_nodes") || strings.Contains(fwdNF, "find ")
					invProjects := strings.Contains(invNF, "{\"@id\":")
					r.Check(fwdDerefs || invProjects, "C02.P11", "step:forward-yields-links/inverse-yields-nodes#same-representation", p.Pos(fd.Pos()), "both directions yield the reached nodes in the same form when they are not dereferenced", "when the results are not dereferenced the forward arm yields links ({\"@id\": …}, the values as the node holds them) while the inverse arm yields the full node objects the subject search returns: in `p | q^` a node reached both ways is two members of the result set, so counts are off by one (maxCount: 1 is reported although one node is reached)")
				}
			}
		}
	}
}

// ---- P4
func c02Ownership(c *Ctx) {
	r, p := c.R, c.P
	gen := p.Pkg("internal/generator")
	if gen == nil {
		return
	}
	info := gen.TypesInfo
	// cloning functions: return a composite literal whose slice fields are all append(make(...), x...) / make(...)
	cloners := map[string]bool{}
	for _, f := range gen.Syntax {
		for _, d := range f.Decls {
			fd, ok := d.(*ast.FuncDecl)
			if !ok || fd.Body == nil {
				continue
			}
			ast.Inspect(fd.Body, func(n ast.Node) bool {
				ret, ok := n.(*ast.ReturnStmt)
				if !ok || len(ret.Results) != 1 {
					return true
				}
				cl, ok := ast.Unparen(ret.Results[0]).(*ast.CompositeLit)
				if !ok {
					return true
				}
				tv, ok := info.Types[cl]
				if !ok {
					return true
				}
				st, ok := tv.Type.Underlying().(*types.Struct)
				if !ok {
					return true
				}
				sliceFields, fresh := 0, 0
				for i := 0; i < st.NumFields(); i++ {
					if _, isSlice := st.Field(i).Type().Underlying().(*types.Slice); !isSlice {
						continue
					}
					sliceFields++
					v := compositeField(cl, st.Field(i).Name())
					if v == nil {
						continue
					}
					if call, ok := ast.Unparen(v).(*ast.CallExpr); ok {
						if id, ok := call.Fun.(*ast.Ident); ok {
							switch id.Name {
							case "make":
								fresh++
							case "append":
								if inner, ok := ast.Unparen(call.Args[0]).(*ast.CallExpr); ok {
									if iid, ok := inner.Fun.(*ast.Ident); ok && iid.Name == "make" {
										fresh++
									}
								}
								if tvn, ok := info.Types[call.Args[0]]; ok && tvn.IsNil() {
									fresh++
								}
								if conv, ok := ast.Unparen(call.Args[0]).(*ast.CallExpr); ok && len(conv.Args) == 1 {
									if tvc, ok := info.Types[conv.Args[0]]; ok && tvc.IsNil() {
										fresh++
									}
								}
							}
						}
					}
				}
				if sliceFields > 0 && fresh == sliceFields {
					cloners[fd.Name.Name] = true
				}
				return true
			})
		}
	}
	r.Analysed["cloning_functions"] = sortedKeys(cloners)
	isCloneCall := func(e ast.Expr) bool {
		call, ok := ast.Unparen(e).(*ast.CallExpr)
		if !ok {
			return false
		}
		if sel, ok := call.Fun.(*ast.SelectorExpr); ok && cloners[sel.Sel.Name] {
			return true
		}
		if id, ok := call.Fun.(*ast.Ident); ok && cloners[id.Name] {
			return true
		}
		return false
	}
	// functions appending to slice fields of a struct parameter (by value, or through a pointer)
	type site struct {
		fd    *ast.FuncDecl
		prm   types.Object
		idx   int
		byPtr bool
	}
	var sites []site
	decls := map[types.Object]*ast.FuncDecl{}
	paramIndex := func(fd *ast.FuncDecl, obj types.Object) int {
		idx := 0
		for _, fld := range fd.Type.Params.List {
			for _, name := range fld.Names {
				if info.Defs[name] == obj {
					return idx
				}
				idx++
			}
		}
		return -1
	}
	structWithSlices := func(t types.Type) (bool, bool) {
		byPtr := false
		if pt, ok := t.Underlying().(*types.Pointer); ok {
			t, byPtr = pt.Elem(), true
		}
		st, ok := t.Underlying().(*types.Struct)
		if !ok {
			return false, false
		}
		for i := 0; i < st.NumFields(); i++ {
			if _, isSlice := st.Field(i).Type().Underlying().(*types.Slice); isSlice {
				return true, byPtr
			}
		}
		return false, false
	}
	appendsTo := func(body ast.Node, obj types.Object) bool {
		found := false
		ast.Inspect(body, func(n ast.Node) bool {
			if call, ok := n.(*ast.CallExpr); ok {
				if id, ok := call.Fun.(*ast.Ident); ok && id.Name == "append" && len(call.Args) >= 1 {
					if sel, ok := ast.Unparen(call.Args[0]).(*ast.SelectorExpr); ok {
						if base, ok := ast.Unparen(sel.X).(*ast.Ident); ok && info.Uses[base] == obj {
							found = true
						}
					}
				}
			}
			return true
		})
		return found
	}
	for _, f := range gen.Syntax {
		for _, d := range f.Decls {
			fd, ok := d.(*ast.FuncDecl)
			if !ok || fd.Body == nil || fd.Type.Params == nil {
				continue
			}
			decls[info.Defs[fd.Name]] = fd
			idx := 0
			for _, fld := range fd.Type.Params.List {
				for _, name := range fld.Names {
					obj := info.Defs[name]
					if has, byPtr := structWithSlices(obj.Type()); has && appendsTo(fd.Body, obj) {
						sites = append(sites, site{fd, obj, idx, byPtr})
					}
					idx++
				}
			}
		}
	}
	// owned(f, p): the slices of parameter p are not shared with a value another alternative may extend
	type ownKey struct {
		fd  *ast.FuncDecl
		prm types.Object
	}
	memo := map[ownKey]int{} // 1 in progress, 2 owned, 3 not owned
	whyNot := map[ownKey]string{}
	var owned func(fd *ast.FuncDecl, prm types.Object) bool
	freshLocal := func(caller *ast.FuncDecl, obj types.Object, before token.Pos) bool {
		for _, st := range caller.Body.List {
			if st.Pos() > before {
				break
			}
			if as, ok := st.(*ast.AssignStmt); ok && len(as.Lhs) == 1 && len(as.Rhs) == 1 {
				if lid, ok := as.Lhs[0].(*ast.Ident); ok && (info.Uses[lid] == obj || info.Defs[lid] == obj) && isCloneCall(as.Rhs[0]) {
					return true
				}
			}
		}
		return false
	}
	insideLoop := func(caller *ast.FuncDecl, pos token.Pos) bool {
		in := false
		ast.Inspect(caller.Body, func(n ast.Node) bool {
			switch x := n.(type) {
			case *ast.RangeStmt:
				if x.Body.Pos() <= pos && pos <= x.Body.End() {
					in = true
				}
			case *ast.ForStmt:
				if x.Body.Pos() <= pos && pos <= x.Body.End() {
					in = true
				}
			}
			return true
		})
		return in
	}
	terminalUse := func(caller *ast.FuncDecl, obj types.Object, call *ast.CallExpr) bool {
		// the call is part of a return statement, or the variable is not mentioned after the call
		inReturn := false
		ast.Inspect(caller.Body, func(n ast.Node) bool {
			if ret, ok := n.(*ast.ReturnStmt); ok && ret.Pos() <= call.Pos() && call.End() <= ret.End() {
				inReturn = true
			}
			return true
		})
		if inReturn {
			return true
		}
		later := false
		ast.Inspect(caller.Body, func(n ast.Node) bool {
			if id, ok := n.(*ast.Ident); ok && id.Pos() > call.End() && info.Uses[id] == obj {
				later = true
			}
			return true
		})
		return !later
	}
	owned = func(fd *ast.FuncDecl, prm types.Object) bool {
		k := ownKey{fd, prm}
		switch memo[k] {
		case 1, 3:
			return false
		case 2:
			return true
		}
		memo[k] = 1
		res := func() bool {
			// (a) the parameter is re-assigned from a cloning call before the first append
			for _, st := range fd.Body.List {
				if as, ok := st.(*ast.AssignStmt); ok && len(as.Lhs) == 1 && len(as.Rhs) == 1 {
					if id, ok := as.Lhs[0].(*ast.Ident); ok && info.Uses[id] == prm && isCloneCall(as.Rhs[0]) {
						return true
					}
				}
				appendsHere := false
				ast.Inspect(st, func(n ast.Node) bool {
					if call, ok := n.(*ast.CallExpr); ok {
						if id, ok := call.Fun.(*ast.Ident); ok && id.Name == "append" {
							appendsHere = true
						}
					}
					return true
				})
				if appendsHere {
					break
				}
			}
			// (b) every call site passes an owned value
			idx := paramIndex(fd, prm)
			self := info.Defs[fd.Name]
			nSites := 0
			okAll := true
			for _, caller := range decls {
				ast.Inspect(caller.Body, func(n ast.Node) bool {
					call, ok := n.(*ast.CallExpr)
					if !ok || calleeOf(info, call) != self || idx < 0 || idx >= len(call.Args) {
						return true
					}
					nSites++
					arg := ast.Unparen(call.Args[idx])
					if u, ok := arg.(*ast.UnaryExpr); ok && u.Op == token.AND {
						arg = ast.Unparen(u.X) // &x: the callee extends x itself
						if aid, ok := arg.(*ast.Ident); ok {
							obj := info.Uses[aid]
							if freshLocal(caller, obj, call.Pos()) {
								return true
							}
							if paramIndex(caller, obj) >= 0 && owned(caller, obj) {
								return true
							}
						}
						okAll = false
						whyNot[k] = fmt.Sprintf("%s passes %s, which is not a fresh copy", caller.Name.Name, types.ExprString(call.Args[idx]))
						return true
					}
					if isCloneCall(arg) {
						return true
					}
					if aid, ok := arg.(*ast.Ident); ok {
						obj := info.Uses[aid]
						if freshLocal(caller, obj, call.Pos()) {
							return true
						}
						if paramIndex(caller, obj) >= 0 && owned(caller, obj) {
							// handed over: not in a loop (the same value would be handed to several callees), and not used afterwards
							if !insideLoop(caller, call.Pos()) && terminalUse(caller, obj, call) {
								return true
							}
							okAll = false
							whyNot[k] = fmt.Sprintf("%s hands its own copy %s over inside a loop or keeps using it afterwards", caller.Name.Name, aid.Name)
							return true
						}
					}
					okAll = false
					whyNot[k] = fmt.Sprintf("%s passes %s, which is not a fresh copy", caller.Name.Name, types.ExprString(call.Args[idx]))
					return true
				})
			}
			if nSites == 0 {
				whyNot[k] = "no call site found"
				return false
			}
			return okAll
		}()
		if res {
			memo[k] = 2
		} else {
			memo[k] = 3
		}
		return res
	}
	for _, s := range sites {
		key := relOf(gen) + "." + s.fd.Name.Name + "#" + s.prm.Name()
		k := ownKey{s.fd, s.prm}
		ok := owned(s.fd, s.prm)
		r.Check(ok, "C02.P4", key, p.Pos(s.fd.Pos()), "the parameter's slices are exclusively owned when they are extended (fresh copy on entry, or every caller passes one)", "the slices of the parameter "+s.prm.Name()+" are extended with append although the caller's copy shares their backing arrays ("+whyNot[k]+"): when the same traversal state is handed to several alternatives, the second alternative overwrites the step the first one appended")
	}
	if len(sites) == 0 {
		r.Unknown("C02.P4", "sites", "", "no function appending to slice fields of a struct parameter was found in the generator")
	}
}

// ---- P5
func c02Sets(c *Ctx) {
	r, p := c.R, c.P
	gen := p.Pkg("internal/generator")
	if gen == nil {
		return
	}
	info := gen.TypesInfo
	// aggregators: functions passed as the aggregation argument; classify by the head template they emit
	arrayUsers, setUsers := map[string]bool{}, map[string]bool{}
	headKinds := map[string]string{}
	for _, f := range gen.Syntax {
		for _, d := range f.Decls {
			fd, ok := d.(*ast.FuncDecl)
			if !ok || fd.Body == nil {
				continue
			}
			if !strings.HasPrefix(fd.Name.Name, "aggregate") {
				continue
			}
			// the head the function emits, whether it is formatted or concatenated (E-sym texts, holes as %s)
			proto := &symWalker{Inline: func(*types.Func) bool { return false }}
			proto.OnText = func(w *symWalker, at ast.Expr, text *Sym) {
				if w.depth != 0 || text == nil {
					return
				}
				f := holeText.ReplaceAllString(text.Template(), "%s")
				switch {
				case strings.HasPrefix(f, "%s[") && strings.HasSuffix(strings.TrimSpace(f), "{"):
					headKinds[fd.Name.Name] = "set"
				case strings.HasPrefix(f, "%s = ["):
					headKinds[fd.Name.Name] = "array"
				}
			}
			p.SymWalk(gen, fd, proto, nil)
		}
	}
	// entry functions that select an aggregator
	entryKind := map[string]string{}
	for _, f := range gen.Syntax {
		for _, d := range f.Decls {
			fd, ok := d.(*ast.FuncDecl)
			if !ok || fd.Body == nil {
				continue
			}
			ast.Inspect(fd.Body, func(n ast.Node) bool {
				call, ok := n.(*ast.CallExpr)
				if !ok {
					return true
				}
				for _, a := range call.Args {
					if id, ok := ast.Unparen(a).(*ast.Ident); ok {
						if k, ok := headKinds[id.Name]; ok {
							entryKind[fd.Name.Name] = k
						}
					}
				}
				return true
			})
		}
	}
	for _, f := range gen.Syntax {
		for _, d := range f.Decls {
			fd, ok := d.(*ast.FuncDecl)
			if !ok || fd.Body == nil {
				continue
			}
			ast.Inspect(fd.Body, func(n ast.Node) bool {
				// any mention of an entry function counts, called directly or taken as a function value
				id, ok := n.(*ast.Ident)
				if !ok {
					return true
				}
				if fo, isFn := info.Uses[id].(*types.Func); isFn && fo.Pkg() == gen.Types {
					switch entryKind[id.Name] {
					case "array":
						arrayUsers[fd.Name.Name] = true
					case "set":
						setUsers[fd.Name.Name] = true
					}
				}
				return true
			})
		}
	}
	// every alternative contributes its clause: a function that turns the list of traversal results into a rule ranges over
	// the list it was given (a filtered or de-duplicated copy drops alternatives: `p | p^` have the same property list)
	for _, f := range gen.Syntax {
		for _, d := range f.Decls {
			fd, ok := d.(*ast.FuncDecl)
			if !ok || fd.Body == nil || fd.Type.Params == nil || len(fd.Type.Params.List) != 1 || len(fd.Type.Params.List[0].Names) != 1 {
				continue
			}
			prm := info.Defs[fd.Type.Params.List[0].Names[0]]
			sl, ok := prm.Type().Underlying().(*types.Slice)
			if !ok {
				continue
			}
			st, ok := sl.Elem().Underlying().(*types.Struct)
			if !ok {
				continue
			}
			hasRego := false
			for i := 0; i < st.NumFields(); i++ {
				if st.Field(i).Name() == "rego" {
					hasRego = true
				}
			}
			if !hasRego || fd.Type.Results == nil {
				continue
			}
			reassigned := false
			loops, direct := 0, 0
			ast.Inspect(fd.Body, func(n ast.Node) bool {
				switch x := n.(type) {
				case *ast.AssignStmt:
					for _, l := range x.Lhs {
						if id, ok := l.(*ast.Ident); ok && info.Uses[id] == prm {
							reassigned = true
						}
					}
				case *ast.RangeStmt:
					if tv, ok := info.Types[x.X]; ok && types.Identical(tv.Type, prm.Type()) {
						loops++
						if id, ok := ast.Unparen(x.X).(*ast.Ident); ok && info.Uses[id] == prm {
							direct++
						}
					}
				}
				return true
			})
			if loops == 0 {
				continue
			}
			r.Check(!reassigned && loops == direct, "C02.P5", relOf(gen)+"."+fd.Name.Name+"#every-alternative", p.Pos(fd.Pos()), "one clause per traversal result: the loops range over the list the function was given", "the aggregation does not range over the list of alternatives it was given (it is filtered, de-duplicated or replaced first): alternatives that differ only in direction or in a later step are dropped from the union")
		}
	}
	r.Analysed["set_consumers"] = sortedKeys(setUsers)
	r.Analysed["array_consumers"] = sortedKeys(arrayUsers)
	r.Check(len(headKinds) >= 2, "C02.P5", "aggregators", "", fmt.Sprintf("aggregators: %v", headKinds), "the set / array aggregation functions were not recognised")
	var badUsers []string
	for u := range arrayUsers {
		if !strings.Contains(strings.ToLower(u), "unique") {
			badUsers = append(badUsers, u)
		}
	}
	sort.Strings(badUsers)
	r.Check(len(badUsers) == 0, "C02.P5", "array-consumers", "", "only the uniqueValues generator uses the array aggregation", "constraints other than uniqueValues obtain their values through the array aggregation (duplicates are counted): "+strings.Join(badUsers, ", "))
	r.Check(len(setUsers) >= 8, "C02.P5", "set-consumers", "", fmt.Sprintf("%d generators obtain values through the set aggregation", len(setUsers)), fmt.Sprintf("only %d generators use the set aggregation", len(setUsers)))
	// the set head parses as a partial set rule with several clauses
	text := "package t\ngen_path_set_rule_1[nodes] {\n  nodes = 1\n} {\n  nodes = 2\n}\n"
	mod, err := rast.ParseModule("t.rego", text)
	okSet := err == nil && len(mod.Rules) >= 1 && mod.Rules[0].Head.Key != nil
	r.Check(okSet, "C02.P5", "set-head-is-partial-set", "", "`name[nodes] { … } { … }` parses as a partial-set rule with one clause per alternative", "the aggregated set rule does not parse as a partial-set rule")
	_ = p
}

// ---- P6
func c02Helpers(c *Ctx) {
	r := c.R
	rp, err := loadPreamble(c.P)
	if err != nil {
		r.Unknown("C02.P6", "preamble", "", err.Error())
		return
	}
	ss := rp.rulesNamed("search_subjects")
	if len(ss) != 1 {
		r.Bad("C02.P6", "search_subjects", "", fmt.Sprintf("%d definitions of search_subjects", len(ss)))
	} else {
		rl := ss[0]
		val := map[string]*rast.Term{}
		for _, a := range bodyAssignments(rl.Body) {
			val[a.Var] = a.Term
		}
		var iterIds, viaNodesArray, cmpID bool
		for _, t := range val {
			if pth := refPath(t); len(pth) == 3 && pth[0] == "input" && pth[1] == "@ids" {
				iterIds = true
			}
			if refHeadName(t) == "nodes_array" {
				viaNodesArray = true
			}
		}
		for _, e := range rl.Body {
			if e.IsCall() && e.Operator().String() == "equal" && len(e.Operands()) == 2 {
				a, b := refPath(e.Operands()[0]), refPath(e.Operands()[1])
				if len(a) == 2 && len(b) == 2 && a[1] == "@id" && b[1] == "@id" {
					cmpID = true
				}
			}
		}
		// the with-clause of nodes_array reads the predicate of the candidate node
		withOK := false
		for _, e := range rl.Body {
			for _, w := range e.With {
				if name, args := callName(w.Value); name == "object.get" && len(args) == 3 {
					withOK = true
				}
			}
		}
		r.Check(iterIds && viaNodesArray && cmpID && withOK, "C02.P6", "search_subjects", "", "iterates all nodes, wraps the predicate's values with nodes_array, compares @id with the object's @id", fmt.Sprintf("search_subjects does not have the expected shape (all nodes: %v, nodes_array: %v, @id comparison: %v, predicate read with object.get: %v)", iterIds, viaNodesArray, cmpID, withOK))
		// result is the candidate node
		res := refHeadName(rl.Head.Key)
		okRes := false
		if t, ok := val[res]; ok {
			if v := refHeadName(t); v != "" {
				if src, ok := val[v]; ok {
					if pth := refPath(src); len(pth) == 3 && pth[0] == "input" && pth[1] == "@ids" {
						okRes = true
					}
				}
			}
		}
		r.Check(okRes, "C02.P6", "search_subjects#result", "", "yields the subject node itself", "search_subjects does not yield the node it iterated")
	}
	// a subject qualifies by the link test alone: the searches have no second test that excludes candidates (p^ over all
	// graphs, including nodes that point to themselves)
	for _, name := range []string{"search_subjects", "search_custom_property_subjects"} {
		for _, rl := range rp.rulesNamed(name) {
			var excluding []string
			for _, e := range rl.Body {
				if e.Negated {
					excluding = append(excluding, "not "+e.String())
					continue
				}
				if e.IsCall() {
					switch e.Operator().String() {
					case "neq", "lt", "gt", "lte", "gte":
						excluding = append(excluding, e.String())
					}
				}
			}
			r.Check(len(excluding) == 0, "C02.P6", name+"#no-excluding-test", "", "candidates are only tested for the link to the object", name+" drops candidate subjects by an extra test ("+strings.Join(excluding, "; ")+"): the converse of a predicate then misses some of the nodes that point to the object (a node that points to itself, for instance)")
		}
	}
	fd := rp.rulesNamed("find")
	okFind := false
	if len(fd) == 1 {
		val := map[string]*rast.Term{}
		for _, a := range bodyAssignments(fd[0].Body) {
			val[a.Var] = a.Term
		}
		for _, t := range val {
			if pth := refPath(t); len(pth) == 3 && pth[0] == "input" && pth[1] == "@ids" && strings.HasPrefix(pth[2], "$") {
				if idt, ok := val[strings.TrimPrefix(pth[2], "$")]; ok {
					if ip := refPath(idt); len(ip) >= 2 && ip[len(ip)-1] == "@id" {
						okFind = true
					}
				}
			}
		}
	}
	r.Check(okFind, "C02.P6", "find", "", `find = input["@ids"][link["@id"]]`, `find does not dereference the link's @id through input["@ids"]`)
}

var _ = packages.NeedName

// P8: each path gets its own Rego rule; two path rules with the same name are merged by Rego into one rule whose value is
// the union of both denotations. The names must come from the fresh-name generator, and its counter must never be reset
// in reach of the entry points (a reset while another compilation is generating makes that compilation reuse names).
func c02RuleNames(c *Ctx) {
	r, p := c.R, c.P
	r.Rule("C02.P8", "path rules are named by the fresh-name generator, whose counter is never reset in reach of the entry points", 2)
	gen := p.Pkg("internal/generator")
	if gen == nil {
		return
	}
	// (a) the rule name of each aggregation comes from the fresh-name generator
	n := 0
	proto := &symWalker{}
	proto.OnText = func(w *symWalker, at ast.Expr, text *Sym) {
		parts := []*Sym{text}
		if text.K == symConcat {
			parts = text.Parts
		}
		if len(parts) < 2 {
			return
		}
		c1, ok := parts[1].ConstString()
		if !ok || !(strings.HasPrefix(c1, "[") || strings.HasPrefix(c1, " = ") || strings.HasPrefix(c1, " =")) {
			return
		}
		last, _ := parts[len(parts)-1].ConstString()
		if !strings.HasSuffix(strings.TrimSpace(last), "{") {
			return
		}
		head := parts[0]
		if head.K == symConst {
			return
		}
		fn := w.FuncName()
		// the rule of a validation is named after its level (C03.L2, C07.H2): not a path rule
		if head.K == symCall && head.Fn == "strings.ToLower" {
			return
		}
		n++
		fresh := false
		head.Walk(func(s *Sym) {
			if s.K == symCall && strings.Contains(s.Fn, "/parser/profile.") {
				fresh = true
			}
		})
		r.Check(fresh, "C02.P8", relOf(gen)+"."+fn+"#rule-name", p.Pos(at.Pos()), "the path rule is named by the fresh-name generator", "the head of the path rule is "+head.String()+", not a fresh name: two paths share a rule and each constraint sees the union of both")
	}
	for _, f := range gen.Syntax {
		for _, d := range f.Decls {
			if fd, ok := d.(*ast.FuncDecl); ok && fd.Body != nil {
				p.SymWalk(gen, fd, proto, nil)
			}
		}
	}
	if n == 0 {
		r.Unknown("C02.P8", "rule-heads", "", "no path rule head template was recognised in the generator")
	}
	// (b) the counter is monotone in reach of the library's entry points
	entries := libraryEntries(p)
	var funcs []*ssa.Function
	for f := range p.Reach(entries...) {
		funcs = append(funcs, f)
	}
	sort.Slice(funcs, func(i, j int) bool { return FuncKey(funcs[i]) < FuncKey(funcs[j]) })
	ms := newMutationSummary(p)
	counters := 0
	for _, g := range moduleGlobals(p) {
		atom, reset := 0, []string{}
		for _, a := range accessesOf(p, ms, g, funcs) {
			if a.Kind == "atomic" {
				atom++
				if strings.Contains(a.Detail, ".Store") || strings.Contains(a.Detail, ".Swap") || strings.Contains(a.Detail, ".CompareAndSwap") {
					reset = append(reset, FuncKey(a.Fn)+" at "+p.Pos(a.Instr.Pos()))
				}
			}
			if a.Kind == "write" && strings.Contains(strings.ToLower(g.Name()), "counter") {
				reset = append(reset, FuncKey(a.Fn)+" at "+p.Pos(a.Instr.Pos()))
			}
		}
		if atom == 0 {
			continue
		}
		counters++
		sort.Strings(reset)
		r.Check(len(reset) == 0, "C02.P8", globalKey(g)+"#monotone", p.Pos(g.Pos()), "the fresh-name counter is only incremented in reach of the entry points", "the fresh-name counter is reset in reach of the entry points ("+strings.Join(reset, "; ")+"): a compilation that is generating while another one starts reuses names, two of its path rules get the same name and Rego merges them")
	}
	if counters == 0 {
		r.Unknown("C02.P8", "counter", "", "no atomically accessed fresh-name counter found")
	}
}

func firstParamObj(info *types.Info, fd *ast.FuncDecl) types.Object {
	if fd.Type.Params == nil || len(fd.Type.Params.List) == 0 || len(fd.Type.Params.List[0].Names) == 0 {
		return nil
	}
	return info.Defs[fd.Type.Params.List[0].Names[0]]
}

// hasSliceFieldOf: t is a struct (not the interface itself) with a field `name` of type []elem.
func hasSliceFieldOf(t types.Type, name string, elem types.Type) bool {
	st, ok := t.Underlying().(*types.Struct)
	if !ok {
		return false
	}
	for i := 0; i < st.NumFields(); i++ {
		if st.Field(i).Name() == name {
			if sl, ok := st.Field(i).Type().Underlying().(*types.Slice); ok && types.Identical(sl.Elem(), elem) {
				return true
			}
		}
	}
	return false
}

// c02TraversalReturns evaluates a traversal arm symbolically.  Helpers of the package are interpreted, except the
// functions that take a path (the dispatcher and the arms themselves): calls to those stay calls, so that the value
// returned says which sub-paths are traversed, from which state, and what happens to their results.
func c02TraversalReturns(c *Ctx, gen *packages.Package, fd *ast.FuncDecl, pathT *types.Named) [][2]interface{} {
	pathIf, _ := pathT.Underlying().(*types.Interface)
	takesPath := func(fn *types.Func) bool {
		sig, ok := fn.Type().(*types.Signature)
		if !ok || sig.Params().Len() == 0 {
			return false
		}
		t0 := sig.Params().At(0).Type()
		return types.Identical(t0, pathT) || (pathIf != nil && types.Implements(t0, pathIf))
	}
	inl := samePkgInline(gen)
	var rets [][2]interface{}
	proto := &symWalker{Inline: func(fn *types.Func) bool { return inl(fn) && !takesPath(fn) }}
	proto.OnReturn = func(w *symWalker, ret *ast.ReturnStmt, results []*Sym) {
		if w.depth == 0 && len(results) == 1 {
			rets = append(rets, [2]interface{}{condsText(w.Conds()), results[0]})
		}
	}
	c.P.SymWalk(gen, fd, proto, nil)
	return rets
}

// isElemCopy: s is an element of the collection X, or a field-by-field copy of one.
func isElemCopy(s, X *Sym) bool {
	if s == nil {
		return false
	}
	if s.K == symElem && s.X != nil && s.X.String() == X.String() {
		return true
	}
	if s.K == symStruct && len(s.Fields) > 0 {
		for k, f := range s.Fields {
			if f.K != symField || f.Name != k || f.X == nil || f.X.K != symElem || f.X.X == nil || f.X.X.String() != X.String() {
				return false
			}
		}
		return true
	}
	return false
}

// traversalCall: s is a call of a function of the package whose first parameter is a path; returns its arguments.
func traversalCall(gen *packages.Package, s *Sym) ([]*Sym, bool) {
	if s == nil || s.K != symCall || !strings.HasPrefix(s.Fn, gen.Types.Path()+".") || len(s.Parts) == 0 {
		return nil, false
	}
	return s.Parts, true
}

// flattenOf: part is each(C => element of C): all the results of the collection C are appended, in order.
func flattenOf(part *Sym) (*Sym, bool) {
	if part == nil || part.K != symRepeat || part.X == nil || len(part.Parts) != 1 || !isElemCopy(part.Parts[0], part.X) {
		return nil, false
	}
	return part.X, true
}

func mentionsElemOf(s, X *Sym) bool {
	found := false
	s.Walk(func(q *Sym) {
		if q.K == symElem && q.X != nil && q.X.String() == X.String() {
			found = true
		}
	})
	return found
}

// c02UnionShape: the arm for a union returns [for every alternative a of <prm>.Or: every result of traverse(a, ...)],
// whatever loops, helpers or append forms produce it; the caller's fetch flag is handed down unchanged.
func c02UnionShape(c *Ctx, gen *packages.Package, fd *ast.FuncDecl, prm types.Object, field string, pathT *types.Named) (bool, string) {
	rets := c02TraversalReturns(c, gen, fd, pathT)
	if len(rets) == 0 {
		return false, "the function's result could not be evaluated"
	}
	boolPrm := boolParamName(gen.TypesInfo, fd)
	for _, rt := range rets {
		v := rt[1].(*Sym)
		where := ""
		if rt[0].(string) != "" {
			where = " (returned when " + rt[0].(string) + ")"
		}
		if v.K != symList || len(v.Parts) != 1 || v.Parts[0].K != symRepeat {
			return false, "the value returned is not one entry per alternative" + where + ": " + shortFormat(v.String())
		}
		outer := v.Parts[0]
		if outer.X.K != symField || outer.X.Name != field || outer.X.X == nil || outer.X.X.K != symVar || outer.X.X.Obj != prm {
			return false, "the loop that fills the result does not range over " + prm.Name() + "." + field + where + ": " + shortFormat(outer.X.String())
		}
		if len(outer.Parts) != 1 {
			return false, fmt.Sprintf("per alternative %d things are appended, conditionally or more than the traversal's results%s: %s", len(outer.Parts), where, shortFormat(outer.String()))
		}
		coll, ok := flattenOf(outer.Parts[0])
		if !ok {
			return false, "what is appended per alternative is not every result of its traversal" + where + ": " + shortFormat(outer.Parts[0].String())
		}
		args, ok := traversalCall(gen, coll)
		if !ok || !isElemCopy(args[0], outer.X) {
			return false, "the results appended are not those of traversing the alternative itself" + where + ": " + shortFormat(coll.String())
		}
		if boolPrm != "" {
			passes := false
			for _, a := range args[1:] {
				if a.K == symVar && a.Obj != nil && a.Obj.Name() == boolPrm {
					passes = true
				}
			}
			if !passes {
				return false, "the alternatives are not traversed with the caller's " + boolPrm + " flag" + where + ": " + shortFormat(coll.String())
			}
		}
	}
	return true, ""
}

func boolParamName(info *types.Info, fd *ast.FuncDecl) string {
	for _, f := range fd.Type.Params.List {
		for _, nm := range f.Names {
			if o := info.Defs[nm]; o != nil {
				if b, ok := o.Type().Underlying().(*types.Basic); ok && b.Kind() == types.Bool {
					return nm.Name
				}
			}
		}
	}
	return ""
}

// c02CompositionShape: for two or more steps the arm returns [for every result h of traverse(first step, fetching
// nodes): every result of traversing the remaining steps And[1:] from h]; a single step is traversed as it is.
func c02CompositionShape(c *Ctx, gen *packages.Package, fd *ast.FuncDecl, prm types.Object, field string, pathT *types.Named) (bool, string) {
	rets := c02TraversalReturns(c, gen, fd, pathT)
	if len(rets) == 0 {
		return false, "the function's result could not be evaluated"
	}
	isSteps := func(s *Sym) bool {
		return s != nil && s.K == symField && s.Name == field && s.X != nil && s.X.K == symVar && s.X.Obj == prm
	}
	isFirst := func(s *Sym) bool {
		if s == nil || s.K != symIndex || !isSteps(s.X) {
			return false
		}
		i, ok := s.Y.ConstInt()
		return ok && i == 0
	}
	isTail := func(s *Sym) bool {
		// a path value whose steps are And[1:len(And)]
		var steps *Sym
		s.Walk(func(q *Sym) {
			if q.K == symCall && q.Fn == "slice" && len(q.Parts) == 3 && isSteps(q.Parts[0]) {
				steps = q
			}
		})
		if steps == nil {
			return false
		}
		lo, ok := steps.Parts[1].ConstInt()
		hi := steps.Parts[2]
		return ok && lo == 1 && hi.K == symLen && isSteps(hi.X)
	}
	composed := 0
	var problems []string
	for _, rt := range rets {
		v := rt[1].(*Sym)
		where := ""
		if rt[0].(string) != "" {
			where = " (returned when " + rt[0].(string) + ")"
		}
		// the single-step form: the step's own traversal
		if args, ok := traversalCall(gen, v); ok && isFirst(args[0]) {
			continue
		}
		if v.K == symList && len(v.Parts) == 0 {
			continue // no steps, no results
		}
		if v.K != symList || len(v.Parts) != 1 || v.Parts[0].K != symRepeat || len(v.Parts[0].Parts) != 1 {
			problems = append(problems, "the value returned is not one group of results per head result"+where+": "+shortFormat(v.String()))
			continue
		}
		outer := v.Parts[0]
		hargs, ok := traversalCall(gen, outer.X)
		if !ok || !isFirst(hargs[0]) {
			problems = append(problems, "the outer loop does not range over the traversal of the first step"+where+": "+shortFormat(outer.X.String()))
			continue
		}
		fetches := false
		for _, a := range hargs[1:] {
			if b, isB := a.ConstBool(); isB && b {
				fetches = true
			}
		}
		if !fetches {
			problems = append(problems, "the head is not traversed with node fetching forced on"+where+": "+shortFormat(outer.X.String()))
			continue
		}
		coll, ok := flattenOf(outer.Parts[0])
		if !ok {
			problems = append(problems, "what is appended per head result is not every result of the tail's traversal"+where+": "+shortFormat(outer.Parts[0].String()))
			continue
		}
		targs, ok := traversalCall(gen, coll)
		if !ok || !isTail(targs[0]) {
			problems = append(problems, "the inner traversal is not over the remaining steps "+field+"[1:]"+where+": "+shortFormat(coll.String()))
			continue
		}
		from := false
		for _, a := range targs[1:] {
			if mentionsElemOf(a, outer.X) {
				from = true
			}
		}
		if !from {
			problems = append(problems, "the tail is not traversed from each head result"+where+": "+shortFormat(coll.String()))
			continue
		}
		composed++
	}
	if len(problems) > 0 {
		return false, strings.Join(problems, "; ")
	}
	if composed == 0 {
		return false, "no return value composes the head with the tail"
	}
	return true, ""
}

// c02EveryResult (P5): wherever the generator turns the results of a traversal (one per alternative route through the
// path) into the list it hands on, every result is kept: the returned list is [for every result r of traverse(...): one
// entry made from r], with nothing skipped, de-duplicated or conditional.  Two alternatives may well look alike in
// whatever key a filter could use (`p | p^` visit the same predicates).
func c02EveryResult(c *Ctx) {
	r, p := c.R, c.P
	gen := p.Pkg("internal/generator")
	pathPk := p.Pkg("internal/parser/path")
	if gen == nil || pathPk == nil {
		return
	}
	var pathT *types.Named
	for _, n := range pathPk.Types.Scope().Names() {
		if tn, ok := pathPk.Types.Scope().Lookup(n).(*types.TypeName); ok {
			if it, ok := tn.Type().Underlying().(*types.Interface); ok && it.NumMethods() >= 2 {
				pathT, _ = tn.Type().(*types.Named)
			}
		}
	}
	if pathT == nil {
		return
	}
	n := 0
	for _, f := range gen.Syntax {
		for _, d := range f.Decls {
			fd, ok := d.(*ast.FuncDecl)
			if !ok || fd.Body == nil || fd.Type.Results == nil {
				continue
			}
			for _, rt := range c02TraversalReturns(c, gen, fd, pathT) {
				v := rt[1].(*Sym)
				if v.K != symList {
					continue
				}
				for _, part := range v.Parts {
					if part.K != symRepeat {
						continue
					}
					if _, isTr := traversalCall(gen, part.X); !isTr {
						continue
					}
					n++
					key := relOf(gen) + "." + fd.Name.Name + "#every-result"
					var everyResult func(rep *Sym) bool
					everyResult = func(rep *Sym) bool {
						if len(rep.Parts) != 1 {
							return false
						}
						p0 := rep.Parts[0]
						if p0.K == symRepeat {
							// for every result, every result of a further traversal that starts from it
							_, isTr := traversalCall(gen, p0.X)
							return isTr && mentionsElemOf(p0.X, rep.X) && everyResult(p0)
						}
						return p0.K != symWhen && mentionsElemOf(p0, rep.X)
					}
					okOne := everyResult(part)
					r.Check(okOne, "C02.P5", key, p.Pos(fd.Pos()), "every result of the traversal contributes one entry", "the results of "+shortFormat(part.X.String())+" are turned into "+shortFormat(part.String())+", not into one entry each: routes are skipped, filtered or merged, so an alternative of a union (or a converse step that visits the same predicates) silently disappears")
				}
			}
		}
	}
	if n == 0 {
		r.Unknown("C02.P5", "every-result", "", "no function that turns traversal results into a list was recognised")
	}
}
