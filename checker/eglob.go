package main

import (
	"fmt"
	"go/token"
	"go/types"
	"sort"
	"strings"

	"golang.org/x/tools/go/ssa"
)

// E-glob: package-level state of the module: who writes it, who reads it, whether the access is synchronised, and
// whether a value loaded from it (an alias of a shared map / slice / pointee) is mutated anywhere.

// derivedValues returns the SSA values of fn that are derived from the seed values by loads, projections and
// conversions (aliases of the seed's storage or of what it refers to).
func derivedValues(fn *ssa.Function, seeds []ssa.Value) map[ssa.Value]bool {
	derived := map[ssa.Value]bool{}
	var work []ssa.Value
	for _, s := range seeds {
		if !derived[s] {
			derived[s] = true
			work = append(work, s)
		}
	}
	for len(work) > 0 {
		v := work[len(work)-1]
		work = work[:len(work)-1]
		var refList []ssa.Instruction
		if refs := v.Referrers(); refs != nil {
			refList = *refs
		} else {
			// globals, functions and constants have no referrer lists: scan the function for their uses
			for _, b := range fn.Blocks {
				for _, ins := range b.Instrs {
					for _, op := range ins.Operands(nil) {
						if *op == v {
							refList = append(refList, ins)
							break
						}
					}
				}
			}
		}
		for _, ref := range refList {
			if ref.Parent() != fn {
				continue
			}
			var out ssa.Value
			switch x := ref.(type) {
			case *ssa.UnOp:
				if x.Op == token.MUL && x.X == v && refType(x.Type()) {
					out = x // load of a reference-typed value (map, slice, pointer, interface): still an alias
				} else if x.Op == token.MUL && x.X == v {
					// load of a scalar/struct: a copy, but a struct may contain references
					if _, isStruct := x.Type().Underlying().(*types.Struct); isStruct {
						out = x
					}
				}
			case *ssa.FieldAddr:
				if x.X == v {
					out = x
				}
			case *ssa.Field:
				if x.X == v && refType(x.Type()) {
					out = x
				}
			case *ssa.IndexAddr:
				if x.X == v {
					out = x
				}
			case *ssa.Index:
				if x.X == v && refType(x.Type()) {
					out = x
				}
			case *ssa.Lookup:
				if x.X == v && (refType(x.Type()) || x.CommaOk) {
					out = x
				}
			case *ssa.Extract:
				if x.Tuple == v && refType(x.Type()) {
					out = x
				}
			case *ssa.Slice:
				if x.X == v {
					out = x
				}
			case *ssa.Phi:
				out = x
			case *ssa.ChangeType:
				out = x
			case *ssa.ChangeInterface:
				out = x
			case *ssa.MakeInterface:
				if refType(x.X.Type()) {
					out = x
				}
			case *ssa.TypeAssert:
				if refType(x.AssertedType) || x.CommaOk {
					out = x
				}
			case *ssa.Convert:
				// string(bytes) etc. copy
			case *ssa.Range:
				if x.X == v {
					out = x
				}
			case *ssa.Next:
				out = x
			case *ssa.Store:
				// storing an alias into a local cell: loads of that cell are aliases too
				if x.Val == v {
					if a, ok := x.Addr.(*ssa.Alloc); ok {
						out = a
					}
				}
			}
			if out != nil && !derived[out] {
				derived[out] = true
				work = append(work, out)
			}
		}
	}
	return derived
}

func refType(t types.Type) bool {
	switch u := t.Underlying().(type) {
	case *types.Map, *types.Slice, *types.Pointer, *types.Interface, *types.Chan, *types.Signature:
		return true
	case *types.Tuple:
		for i := 0; i < u.Len(); i++ {
			if refType(u.At(i).Type()) {
				return true
			}
		}
	}
	return false
}

// Mutation is one instruction that writes through a derived value.
type Mutation struct {
	Instr ssa.Instruction
	What  string
}

// mutationSummary: for each module function, which parameter positions (receiver = 0 for methods) have their referent
// mutated by the function or its module callees.
type mutationSummary struct {
	p        *Prog
	mutates  map[*ssa.Function]map[int]string // param index -> description of the first mutation
	computed bool
}

func newMutationSummary(p *Prog) *mutationSummary {
	ms := &mutationSummary{p: p, mutates: map[*ssa.Function]map[int]string{}}
	funcs := p.ModuleFuncs()
	changed := true
	for iter := 0; changed && iter < 20; iter++ {
		changed = false
		for _, fn := range funcs {
			for i, prm := range fn.Params {
				if ms.mutates[fn][i] != "" {
					continue
				}
				if !refType(prm.Type()) {
					continue
				}
				d := derivedValues(fn, []ssa.Value{prm})
				muts := ms.mutationsThrough(fn, d, true)
				if len(muts) > 0 {
					if ms.mutates[fn] == nil {
						ms.mutates[fn] = map[int]string{}
					}
					ms.mutates[fn][i] = muts[0].What + " at " + p.Pos(muts[0].Instr.Pos())
					changed = true
				}
			}
		}
	}
	return ms
}

// readOnlyExternal: dependency functions known not to modify what their arguments refer to.
func readOnlyExternal(name string) bool {
	switch {
	case strings.HasPrefix(name, "fmt."), strings.HasPrefix(name, "strings."), strings.HasPrefix(name, "strconv."),
		strings.HasPrefix(name, "(*encoding/json.Encoder)"), name == "encoding/json.Marshal", name == "encoding/json.MarshalIndent",
		name == opaPath+"/rego.UnsafeBuiltins", name == opaPath+"/rego.EvalInput", name == opaPath+"/rego.Module", name == opaPath+"/rego.Query",
		name == "errors.New", strings.HasPrefix(name, "(*regexp.Regexp)"), strings.HasPrefix(name, "regexp."),
		strings.HasPrefix(name, "sync/atomic.Load"), name == "(error).Error":
		return true
	}
	return false
}

// mutationsThrough lists the instructions of fn that write through a value in d (an alias set).
// followCalls: passing an alias to a module callee at a mutated position counts as a mutation.
func (ms *mutationSummary) mutationsThrough(fn *ssa.Function, d map[ssa.Value]bool, followCalls bool) []Mutation {
	var out []Mutation
	for _, b := range fn.Blocks {
		for _, ins := range b.Instrs {
			switch x := ins.(type) {
			case *ssa.MapUpdate:
				if d[x.Map] {
					out = append(out, Mutation{ins, "map update"})
				}
			case *ssa.Store:
				if d[x.Addr] {
					if _, isAlloc := x.Addr.(*ssa.Alloc); isAlloc {
						continue // writing a local cell that merely holds an alias
					}
					out = append(out, Mutation{ins, "store through a shared pointer"})
				}
			case ssa.CallInstruction:
				cc := x.Common()
				if bi, ok := cc.Value.(*ssa.Builtin); ok {
					switch bi.Name() {
					case "delete", "copy", "clear":
						if len(cc.Args) > 0 && d[cc.Args[0]] {
							out = append(out, Mutation{ins, bi.Name() + " on a shared container"})
						}
					case "append":
						// append(shared, ...) may write into the shared backing array when it has spare capacity
						if len(cc.Args) > 0 && d[cc.Args[0]] {
							out = append(out, Mutation{ins, "append to a shared slice (may write into its backing array)"})
						}
					}
					continue
				}
				if !followCalls {
					continue
				}
				args := cc.Args
				callee := cc.StaticCallee()
				if cc.IsInvoke() {
					continue // interface methods of module types are value-receiver rule methods; dependencies are trusted
				}
				if callee == nil {
					continue
				}
				if IsModuleFunc(callee) {
					for i, a := range args {
						if d[a] && ms.mutates[callee][i] != "" {
							out = append(out, Mutation{ins, fmt.Sprintf("passed to %s, which mutates it (%s)", FuncKey(callee), ms.mutates[callee][i])})
						}
					}
					continue
				}
				name := ""
				if o := callee.Object(); o != nil {
					name = funcFullName(o)
				}
				if name == "sort.Sort" || name == "sort.Strings" || name == "sort.Slice" || name == "sort.Stable" {
					for _, a := range args {
						if d[a] {
							out = append(out, Mutation{ins, "sorted in place by " + name})
						}
					}
				}
			}
		}
	}
	return out
}

// GlobalAccess describes how one function touches one package-level variable.
type GlobalAccess struct {
	Fn     *ssa.Function
	Instr  ssa.Instruction
	Kind   string // "write", "read", "atomic", "alias-mutation", "address-escapes"
	Detail string
	Locked bool
}

// moduleGlobals lists the package-level variables of the module, sorted.
func moduleGlobals(p *Prog) []*ssa.Global {
	var out []*ssa.Global
	for _, pk := range p.modPkgsSorted() {
		sp := p.SSA.Package(pk.Types)
		if sp == nil {
			continue
		}
		for _, m := range sp.Members {
			if g, ok := m.(*ssa.Global); ok {
				if strings.HasPrefix(g.Name(), "init$") {
					continue
				}
				out = append(out, g)
			}
		}
	}
	sort.Slice(out, func(i, j int) bool { return globalKey(out[i]) < globalKey(out[j]) })
	return out
}

func globalKey(g *ssa.Global) string {
	return relOfTypesPkg(g.Pkg.Pkg) + "." + g.Name()
}

// accessesOf collects the accesses of g in the given functions.
func accessesOf(p *Prog, ms *mutationSummary, g *ssa.Global, funcs []*ssa.Function) []GlobalAccess {
	var out []GlobalAccess
	for _, fn := range funcs {
		uses := false
		for _, b := range fn.Blocks {
			for _, ins := range b.Instrs {
				for _, op := range ins.Operands(nil) {
					if *op == ssa.Value(g) {
						uses = true
					}
				}
			}
		}
		if !uses {
			continue
		}
		isInit := fn.Name() == "init" && fn.Parent() == nil
		locked := holdsLock(fn)
		d := derivedValues(fn, []ssa.Value{g})
		// direct uses of the address
		for _, b := range fn.Blocks {
			for _, ins := range b.Instrs {
				refsG := false
				for _, op := range ins.Operands(nil) {
					if *op == ssa.Value(g) {
						refsG = true
					}
				}
				if !refsG {
					continue
				}
				switch x := ins.(type) {
				case *ssa.Store:
					if x.Addr == ssa.Value(g) {
						if isInit {
							continue
						}
						out = append(out, GlobalAccess{fn, ins, "write", "assignment to the variable", locked})
					} else {
						out = append(out, GlobalAccess{fn, ins, "address-escapes", "the variable's address is stored", locked})
					}
				case *ssa.UnOp:
					out = append(out, GlobalAccess{fn, ins, "read", "load", locked})
				case ssa.CallInstruction:
					name := funcFullName(ssaCalleeObj(x))
					if strings.HasPrefix(name, "sync/atomic.") {
						out = append(out, GlobalAccess{fn, ins, "atomic", name, locked})
					} else if callee := x.Common().StaticCallee(); callee != nil && IsModuleFunc(callee) {
						// &g passed to a module function: a write if that parameter is mutated
						mut := false
						for i, a := range x.Common().Args {
							if a == ssa.Value(g) && ms.mutates[callee][i] != "" {
								mut = true
								out = append(out, GlobalAccess{fn, ins, "write", "address passed to " + FuncKey(callee) + ", which writes through it: " + ms.mutates[callee][i], locked})
							}
						}
						if !mut {
							out = append(out, GlobalAccess{fn, ins, "read", "address passed to " + FuncKey(callee) + " (read-only there)", locked})
						}
					} else if strings.HasPrefix(name, "(*sync.Map).") {
						m := strings.TrimPrefix(name, "(*sync.Map).")
						if m == "Load" {
							out = append(out, GlobalAccess{fn, ins, "sync-read", name, true})
						} else {
							out = append(out, GlobalAccess{fn, ins, "sync-write", name, true})
						}
					} else if strings.HasPrefix(name, "(*sync.Pool).") {
						// an object put into a process-wide pool is handed to a later call as it was left
						if strings.HasSuffix(name, ".Put") {
							out = append(out, GlobalAccess{fn, ins, "sync-write", name, true})
						} else {
							out = append(out, GlobalAccess{fn, ins, "sync-read", name, true})
						}
					} else if strings.HasPrefix(name, "(*sync.") {
						out = append(out, GlobalAccess{fn, ins, "lock-op", name, locked})
					} else {
						out = append(out, GlobalAccess{fn, ins, "address-escapes", "the variable's address is passed to " + name, locked})
					}
				case *ssa.FieldAddr, *ssa.IndexAddr:
					// handled through the derived set
				default:
					out = append(out, GlobalAccess{fn, ins, "read", fmt.Sprintf("%T", ins), locked})
				}
			}
		}
		// mutations through aliases (fields of a global struct, contents of a global map, ...)
		for _, m := range ms.mutationsThrough(fn, d, true) {
			if st, ok := m.Instr.(*ssa.Store); ok && st.Addr == ssa.Value(g) {
				continue
			}
			if isInit {
				continue
			}
			// atomic ops on a field address are calls, not stores; plain stores to g.f count as writes
			out = append(out, GlobalAccess{fn, m.Instr, "alias-mutation", m.What, locked})
		}
		// atomic access to a field: sync/atomic.AddInt64(&g.f, ..)
		for v := range d {
			if fa, ok := v.(*ssa.FieldAddr); ok {
				for _, ref := range nonDebugRefs(fa) {
					if ci, ok := ref.(ssa.CallInstruction); ok && strings.HasPrefix(funcFullName(ssaCalleeObj(ci)), "sync/atomic.") {
						out = append(out, GlobalAccess{fn, ref, "atomic", funcFullName(ssaCalleeObj(ci)), locked})
					}
				}
			}
		}
	}
	return out
}

// holdsLock: the function takes a sync.Mutex / RWMutex lock (a coarse, per-function notion: the repository has none).
func holdsLock(fn *ssa.Function) bool {
	for _, b := range fn.Blocks {
		for _, ins := range b.Instrs {
			if ci, ok := ins.(ssa.CallInstruction); ok {
				n := funcFullName(ssaCalleeObj(ci))
				if n == "(*sync.Mutex).Lock" || n == "(*sync.RWMutex).Lock" || n == "(*sync.RWMutex).RLock" {
					return true
				}
			}
		}
	}
	return false
}

func elemOfPointer(g *ssa.Global) types.Type {
	return g.Type().Underlying().(*types.Pointer).Elem()
}

// refTypeDeep: the type is, or contains (struct fields, arrays), a map, slice, pointer, interface or channel.
func refTypeDeep(t types.Type) bool {
	switch u := t.Underlying().(type) {
	case *types.Map, *types.Slice, *types.Pointer, *types.Interface, *types.Chan:
		return true
	case *types.Struct:
		for i := 0; i < u.NumFields(); i++ {
			if refTypeDeep(u.Field(i).Type()) {
				return true
			}
		}
	case *types.Array:
		return refTypeDeep(u.Elem())
	}
	return false
}

// crossCallWrites lists the accesses in funcs that leave state behind in package-level variable g for a later call:
// plain writes, mutation through an alias, synchronised writes (sync.Map Store, writes under a mutex) and atomic
// Store/Swap/CompareAndSwap. Monotone atomic increments (fresh-name counters) are not listed.
func crossCallWrites(p *Prog, ms *mutationSummary, g *ssa.Global, funcs []*ssa.Function) []string {
	var w []string
	for _, a := range accessesOf(p, ms, g, funcs) {
		switch {
		case a.Kind == "write", a.Kind == "alias-mutation", a.Kind == "sync-write":
		case a.Kind == "atomic" && (strings.Contains(a.Detail, ".Store") || strings.Contains(a.Detail, ".Swap") || strings.Contains(a.Detail, ".CompareAndSwap")):
		default:
			continue
		}
		w = append(w, fmt.Sprintf("%s (%s: %s) at %s", FuncKey(a.Fn), a.Kind, a.Detail, p.Pos(a.Instr.Pos())))
	}
	sort.Strings(w)
	return w
}

// noCrossCallState reports, under rule rid, every package-level variable that a call leaves state in (in reach of the
// library's entry points). why completes the sentence "... so <why>".
func noCrossCallState(c *Ctx, rid, title, why string) {
	r, p := c.R, c.P
	r.Rule(rid, title, 1)
	entries := libraryEntries(p)
	var funcs []*ssa.Function
	for f := range p.Reach(entries...) {
		funcs = append(funcs, f)
	}
	sort.Slice(funcs, func(i, j int) bool { return FuncKey(funcs[i]) < FuncKey(funcs[j]) })
	ms := newMutationSummary(p)
	n := 0
	for _, g := range moduleGlobals(p) {
		if w := crossCallWrites(p, ms, g, funcs); len(w) > 0 {
			n++
			if len(w) > 3 {
				w = append(w[:3], fmt.Sprintf("... %d more", len(w)-3))
			}
			r.Bad(rid, globalKey(g), p.Pos(g.Pos()), "a call leaves state in this package-level variable ("+strings.Join(w, "; ")+"), so "+why)
		}
	}
	r.OK(rid, "census", "", fmt.Sprintf("%d package-level variables examined over %d functions in reach of the entry points: %d hold cross-call state", len(moduleGlobals(p)), len(funcs), n))
}

// locksReleasedByDefer reports, under rule rid, every sync lock taken in funcs whose unlock is neither deferred nor the
// very next call.
func locksReleasedByDefer(c *Ctx, rid, title, why string, funcs []*ssa.Function) {
	r, p := c.R, c.P
	r.Rule(rid, title, 1)
	n := 0
	for _, f := range funcs {
		ord := ordinal{}
		for _, b := range f.Blocks {
			for _, ins := range b.Instrs {
				ci, ok := ins.(ssa.CallInstruction)
				if !ok {
					continue
				}
				name := funcFullName(ssaCalleeObj(ci))
				switch name {
				case "(*sync.Mutex).Lock", "(*sync.RWMutex).Lock", "(*sync.RWMutex).RLock":
					n++
					k := ord.next(FuncKey(f) + "#" + name)
					r.Check(unlockDeferredOrFollows(f, ci), rid, k, p.Pos(ins.Pos()), "the lock is released by a deferred unlock (or by the very next call)", "the unlock is neither deferred nor the next call: a panic raised while the lock is held is turned into an error further up, the lock stays held, and "+why)
				}
			}
		}
	}
	if n == 0 {
		r.OK(rid, "census", "", fmt.Sprintf("%d functions scanned: no sync lock is taken", len(funcs)))
	}
}
