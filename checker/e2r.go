package main

import (
	"flag"
	"fmt"
	"go/ast"
	"go/format"
	"os"
	"sort"
	"strings"
)

// cmdE2R is a self-test aid like s2c, rnl and r2i: in a SCRATCH copy of the repository it removes every `else` whose
// `if` branch always leaves (its last statement is a return, panic, continue or break): `if c { ...; return x } else { B }`
// becomes `if c { ...; return x }` followed by B.  Behaviour is unchanged; files that no longer compile because a name
// declared in B now clashes are to be reverted by the caller (git checkout).  usage: acvlint e2r -repo <scratch dir>
func cmdE2R(args []string) int {
	fs := flag.NewFlagSet("e2r", flag.ExitOnError)
	repo := fs.String("repo", "", "scratch working tree (files are rewritten in place)")
	fs.Parse(args)
	if *repo == "" || *repo == "/repo" {
		fmt.Fprintln(os.Stderr, "e2r rewrites files: give it a scratch worktree, never /repo")
		return 2
	}
	p, err := Load(*repo, "", "")
	if err != nil {
		fmt.Fprintln(os.Stderr, err)
		return 2
	}
	leaves := func(b *ast.BlockStmt) bool {
		if len(b.List) == 0 {
			return false
		}
		switch x := b.List[len(b.List)-1].(type) {
		case *ast.ReturnStmt:
			return true
		case *ast.BranchStmt:
			return x.Label == nil
		case *ast.ExprStmt:
			if call, ok := x.X.(*ast.CallExpr); ok {
				if id, ok := call.Fun.(*ast.Ident); ok && id.Name == "panic" {
					return true
				}
			}
		}
		return false
	}
	total := 0
	for _, pk := range p.modPkgsSorted() {
		for _, file := range pk.Syntax {
			name := p.Fset.Position(file.Pos()).Filename
			if strings.HasSuffix(name, "_test.go") || strings.HasSuffix(name, "peg.go") {
				continue
			}
			src, err := os.ReadFile(name)
			if err != nil {
				continue
			}
			type edit struct {
				from, to int
				text     string
			}
			var edits []edit
			elseOf := map[*ast.IfStmt]bool{} // if statements that are themselves the else branch of another
			ast.Inspect(file, func(nd ast.Node) bool {
				if is, ok := nd.(*ast.IfStmt); ok {
					if e, ok := is.Else.(*ast.IfStmt); ok {
						elseOf[e] = true
					}
				}
				return true
			})
			ast.Inspect(file, func(nd ast.Node) bool {
				is, ok := nd.(*ast.IfStmt)
				if !ok || elseOf[is] || is.Init != nil {
					return true
				}
				eb, ok := is.Else.(*ast.BlockStmt)
				if !ok || !leaves(is.Body) {
					return true
				}
				off := func(pos interface{ IsValid() bool }) int { return 0 }
				_ = off
				bodyEnd := p.Fset.Position(is.Body.Rbrace).Offset + 1
				elseOpen := p.Fset.Position(eb.Lbrace).Offset + 1
				elseClose := p.Fset.Position(eb.Rbrace).Offset
				edits = append(edits, edit{bodyEnd, elseOpen, "\n"})
				edits = append(edits, edit{elseClose, elseClose + 1, ""})
				return true
			})
			if len(edits) == 0 {
				continue
			}
			sort.Slice(edits, func(i, j int) bool { return edits[i].from > edits[j].from })
			out := string(src)
			for _, e := range edits {
				out = out[:e.from] + e.text + out[e.to:]
			}
			if formatted, err := format.Source([]byte(out)); err == nil {
				out = string(formatted)
			}
			if err := os.WriteFile(name, []byte(out), 0o644); err != nil {
				fmt.Fprintln(os.Stderr, err)
				return 2
			}
			total += len(edits) / 2
		}
	}
	fmt.Printf("else branches removed: %d\n", total)
	return 0
}
