package main

import (
	"fmt"
	"go/ast"
	"go/constant"
	"go/token"
	"go/types"
	"regexp"
	"sort"
	"strings"
	"unicode"

	rast "github.com/open-policy-agent/opa/ast"
	"golang.org/x/tools/go/packages"
	"golang.org/x/tools/go/ssa"
)

func init() { register("C07", checkC07) }

func isIdentChar(b byte) bool {
	return b == '_' || b >= '0' && b <= '9' || b >= 'a' && b <= 'z' || b >= 'A' && b <= 'Z'
}

// constSetOf resolves a string operand to the finite set of constants it can be: a constant, a phi of constants, the
// result of a module function whose returns are all constants, or a parameter whose call-site arguments all resolve.
func constSetOf(p *Prog, v ssa.Value, depth int, seen map[ssa.Value]bool) ([]string, bool) {
	if depth > 6 || seen[v] {
		return nil, false
	}
	seen[v] = true
	v = stripIface(v)
	switch x := v.(type) {
	case *ssa.Const:
		if s, ok := constStringOf(x); ok {
			return []string{s}, true
		}
		return nil, false
	case *ssa.Phi:
		var out []string
		for _, e := range x.Edges {
			s, ok := constSetOf(p, e, depth+1, seen)
			if !ok {
				return nil, false
			}
			out = append(out, s...)
		}
		return out, true
	case *ssa.Call:
		callee := x.Call.StaticCallee()
		if callee == nil || callee.Blocks == nil || !IsModuleFunc(callee) {
			if funcFullName(ssaCalleeObj(x)) == "fmt.Sprintf" && len(x.Call.Args) == 1 {
				return constSetOf(p, x.Call.Args[0], depth+1, seen)
			}
			return nil, false
		}
		var out []string
		for _, b := range callee.Blocks {
			for _, ins := range b.Instrs {
				if ret, ok := ins.(*ssa.Return); ok && len(ret.Results) >= 1 {
					s, ok := constSetOf(p, ret.Results[0], depth+1, seen)
					if !ok {
						return nil, false
					}
					out = append(out, s...)
				}
			}
		}
		return out, len(out) > 0
	case *ssa.Parameter:
		fn := x.Parent()
		idx := -1
		for i, prm := range fn.Params {
			if prm == x {
				idx = i
			}
		}
		var out []string
		sites := 0
		for _, caller := range p.ModuleFuncs() {
			for _, b := range caller.Blocks {
				for _, ins := range b.Instrs {
					if ci, ok := ins.(ssa.CallInstruction); ok && ci.Common().StaticCallee() == fn && idx < len(ci.Common().Args) {
						sites++
						s, ok := constSetOf(p, ci.Common().Args[idx], depth+1, seen)
						if !ok {
							return nil, false
						}
						out = append(out, s...)
					}
				}
			}
		}
		return out, sites > 0
	}
	return nil, false
}

func uniq(ss []string) []string {
	m := map[string]bool{}
	for _, s := range ss {
		m[s] = true
	}
	return sortedKeys(m)
}

// instantiate replaces the verbs of a format by plausible Rego tokens for its lexical context.
func instantiate(format string, holes []hole, choice map[int]string) string {
	var b strings.Builder
	hi := 0
	for i := 0; i < len(format); i++ {
		if format[i] == '%' && i+1 < len(format) {
			if format[i+1] == '%' {
				b.WriteByte('%')
				i++
				continue
			}
			j := i + 1
			for j < len(format) && strings.ContainsRune("+-# 0123456789.", rune(format[j])) {
				j++
			}
			if j < len(format) && hi < len(holes) {
				h := holes[hi]
				verb := format[j]
				repl := ""
				if c, ok := choice[hi]; ok {
					repl = c
				} else {
					switch {
					case verb == 'd':
						repl = "1"
					case verb == 't':
						repl = "true"
					case verb == 'f' || verb == 'g' || verb == 'e':
						repl = "1.5"
					case h.Ctx == ctxCode:
						repl = fmt.Sprintf("v%d", hi)
						if isIdentChar(h.Before) || isIdentChar(h.After) {
							repl = "x"
						}
					default:
						repl = "txt"
					}
				}
				b.WriteString(repl)
				hi++
				i = j
				continue
			}
		}
		b.WriteByte(format[i])
	}
	return b.String()
}

// bracketDelta scans Rego text (outside strings and comments) and reports whether its brackets are balanced.
func bracketsBalanced(text string) bool {
	var st []byte
	ctx := ctxCode
	for i := 0; i < len(text); i++ {
		ch := text[i]
		switch ctx {
		case ctxCode:
			switch ch {
			case '"':
				ctx = ctxDQ
			case '`':
				ctx = ctxRaw
			case '#':
				ctx = ctxComment
			case '(', '[', '{':
				st = append(st, ch)
			case ')', ']', '}':
				if len(st) == 0 {
					return false
				}
				o := st[len(st)-1]
				if (ch == ')' && o != '(') || (ch == ']' && o != '[') || (ch == '}' && o != '{') {
					return false
				}
				st = st[:len(st)-1]
			}
		case ctxDQ:
			if ch == '\\' {
				i++
			} else if ch == '"' {
				ctx = ctxCode
			}
		case ctxRaw:
			if ch == '`' {
				ctx = ctxCode
			}
		case ctxComment:
			if ch == '\n' {
				ctx = ctxCode
			}
		}
	}
	return len(st) == 0
}

var memberHole = regexp.MustCompile(`\bv[0-9]+\b`)

func parsesAsRego(text string) error {
	t := strings.TrimSpace(text)
	if t == "" {
		return nil
	}
	onlyComments := true
	for _, l := range strings.Split(t, "\n") {
		l = strings.TrimSpace(l)
		if l != "" && !strings.HasPrefix(l, "#") {
			onlyComments = false
		}
	}
	if onlyComments {
		return nil
	}
	if strings.HasPrefix(t, "package ") {
		_, err := rast.ParseModule("t.rego", t)
		return err
	}
	_, err := rast.ParseBody(t)
	if err == nil {
		return nil
	}
	if _, err2 := rast.ParseModule("t.rego", "package t\nimport future.keywords.in\nimport future.keywords.every\n"+t); err2 == nil {
		return nil
	}
	// members of an object literal (trace values are assembled as `"key": value, ...` lists)
	if _, err3 := rast.ParseBody("x = {" + t + "}"); err3 == nil {
		return nil
	}
	// an object literal with a hole for further members
	if alt := memberHole.ReplaceAllString(t, `"k": 1`); alt != t {
		if _, err4 := rast.ParseBody("x = " + alt); err4 == nil {
			return nil
		}
	}
	return err
}

func checkC07(c *Ctx) {
	r, p := c.R, c.P
	r.Explanation = "'Never fails because of names or code the translator invented' is a statement about the translator's finite set of templates and name generators, decided template by template. (H1) Identifier hygiene: the quantified-variable alphabet (the literal in the variable generator plus the X<n> fallback) is combined with every template position that forms an identifier from a variable name (prefix/suffix glued to a %s in code position); none of the produced names - nor the bare names - is a Rego keyword (of the linked OPA, plus the future keywords the preamble imports), a rule or function of the embedded preamble, an undotted built-in, or an identifier the templates themselves use as a fixed local name. (H2) Every rule head emitted outside the preamble is named by the fresh-name generator or by the lower-cased level. (H3) Bracket discipline of the functions that emit multi-line constructs: every text-returning function of the generator is evaluated symbolically; the lines, joined texts and text fields it returns form a tree of constant texts, holes, each(collection => ...) and when(condition => ...); when a constant text is unbalanced on its own the tree is interpreted over the stack of open brackets for every combination of 0..4 (thorough: 0..5) elements per collection, with the conditions on loop indices and on len() of the lists being built evaluated exactly; every closing bracket must match the innermost open one, nothing may stay open at the end, and every call of a built-in or of a preamble function opened by a template must be closed with its declared number of arguments. (H4) Every self-contained template (balanced brackets) is instantiated - operator holes with every constant the operand can take, other holes with identifiers / literals according to their lexical context - and parsed with OPA's parser as a body, a rule or a module. (H5) Profile text other than the sources of C13 (path text) is neutralised for its context; the package name is reduced to identifier characters. (H6) The characters the path grammar admits in a compact IRI are all admitted by the IRI expander's compact-form check. Does not decide OPA's later compile stages (safety, types, recursion, type-check time) on the assembled module."
	r.Declines = []string{"OPA's safety, type and recursion checks on the assembled module, and its compile time for deeply nested profiles", "IRIs are assumed to contain no backslash (the compact-form check admits it)"}
	r.Trusted = []string{"OPA's parser (same version as the repository links) as the oracle for template syntax"}
	r.Rule("C07.H1", "no generated identifier collides with a keyword, a preamble rule, a built-in or a fixed template-local name", 3)
	r.Rule("C07.H2", "rule heads outside the preamble are fresh names or level names", 2)
	r.Rule("C07.H3", "multi-line emitters keep bracket discipline and built-in arity for any number of alternatives", 3)
	r.Rule("C07.H4", "every self-contained template parses as Rego for every operator constant", 60)
	r.Rule("C07.H5", "path text and the package name are neutralised for their context", 10)
	r.Rule("C07.H6", "grammar IRI characters are accepted by the IRI expander", 2)
	r.Rule("C07.H7", "constraint templates declare no fixed-name local at rule-body scope (two constraints of one kind share a body)", 8)
	c07FixedLocals(c)
	r.Rule("C07.H9", "the path aggregations emit a rule that parses for 1, 2 and 3 alternatives (separators, brackets, clause joints)", 4)
	c07AggregationsParse(c)
	r.Rule("C07.H10", "the variable generator hands out a name for every request: alphabet by index within bounds, then the numbered fallback", 1)
	c07VariableNames(c)

	te := newTaintEngine(p)
	te.Run()
	sinks, funcs := generatorSinks(p, te)

	// ---- H4 (and collection of template tokens for H1)
	type tpl struct {
		fn     *ssa.Function
		call   *ssa.Call
		format string
		ops    []ssa.Value
		where  string    // for texts put together by concatenation: the function
		pos    token.Pos // and the position of the expression
	}
	var tpls []tpl
	for _, fn := range funcs {
		if RelPkg(fn) != "internal/generator" {
			continue
		}
		for _, b := range fn.Blocks {
			for _, ins := range b.Instrs {
				call, ok := ins.(*ssa.Call)
				if !ok {
					continue
				}
				fv, packed, _, ok := ssaSprintf(call)
				if !ok {
					continue
				}
				format, ok := constStringOf(fv)
				if !ok {
					continue
				}
				var ops []ssa.Value
				if packed != nil {
					ops = variadicOperands(packed)
				}
				tpls = append(tpls, tpl{fn: fn, call: call, format: format, ops: ops})
			}
		}
	}
	// texts put together by concatenation are templates as well: constant pieces with a hole for every other operand
	// (the same text may be written with Sprintf in one version of the code and with + in the next)
	if genPk := p.Pkg("internal/generator"); genPk != nil {
		for _, f := range genPk.Syntax {
			for _, d := range f.Decls {
				fd, ok := d.(*ast.FuncDecl)
				if !ok || fd.Body == nil {
					continue
				}
				seenText := map[string]bool{}
				proto := &symWalker{Inline: func(*types.Func) bool { return false }}
				proto.OnText = func(w *symWalker, at ast.Expr, text *Sym) {
					if _, isConcat := at.(*ast.BinaryExpr); !isConcat || w.depth != 0 || text == nil || text.K != symConcat {
						return
					}
					var b strings.Builder
					holes := 0
					for _, part := range text.Parts {
						if cs, ok := part.ConstString(); ok {
							b.WriteString(strings.ReplaceAll(cs, "%", "%%"))
						} else {
							b.WriteString("%s")
							holes++
						}
					}
					if holes == 0 || seenText[b.String()] {
						return
					}
					seenText[b.String()] = true
					tpls = append(tpls, tpl{format: b.String(), where: relOf(genPk) + "." + fd.Name.Name, pos: at.Pos()})
				}
				p.SymWalk(genPk, fd, proto, nil)
			}
		}
	}
	// plain constant lines appended to accumulators are templates without holes
	gen := p.Pkg("internal/generator")
	constLines := map[string]token.Pos{}
	if gen != nil {
		for _, f := range gen.Syntax {
			ast.Inspect(f, func(n ast.Node) bool {
				call, ok := n.(*ast.CallExpr)
				if !ok {
					return true
				}
				if id, ok := call.Fun.(*ast.Ident); !ok || id.Name != "append" {
					return true
				}
				for _, a := range call.Args[1:] {
					if s, ok := constString(gen.TypesInfo, a); ok {
						constLines[s] = a.Pos()
					}
				}
				return true
			})
		}
	}
	r.Analysed["templates"] = len(tpls)
	r.Analysed["constant_lines"] = len(constLines)
	errorish := func(f string) bool {
		return strings.HasPrefix(f, "unknown ") || strings.HasPrefix(f, "expected ") || strings.HasPrefix(f, "cannot ") || strings.HasPrefix(f, "only ") || strings.HasPrefix(f, "ony ") || strings.HasPrefix(f, "error in nested") || strings.HasPrefix(f, "nested expressions")
	}
	ord := ordinal{}
	parsed, skippedPartial := 0, 0
	for _, t := range tpls {
		if errorish(t.format) {
			continue // texts of Go errors / report messages, not Rego
		}
		holes, _ := scanFormat(t.format, ctxCode)
		where, at := t.where, t.pos
		if t.fn != nil {
			where, at = FuncKey(t.fn), t.call.Pos()
		}
		key := ord.next(where + "#" + shortFormat(t.format))
		// operator holes: code-position %s surrounded by spaces whose operand resolves to a small constant set
		choices := []map[int]string{{}}
		for hi, h := range holes {
			if !strings.HasSuffix(h.Verb, "s") || h.Ctx != ctxCode || h.ArgIdx >= len(t.ops) || t.ops[h.ArgIdx] == nil {
				continue
			}
			set, ok := constSetOf(p, t.ops[h.ArgIdx], 0, map[ssa.Value]bool{})
			if !ok {
				continue
			}
			set = uniq(set)
			if len(set) == 0 || len(set) > 8 {
				continue
			}
			var next []map[int]string
			for _, ch := range choices {
				for _, s := range set {
					m := map[int]string{}
					for k, v := range ch {
						m[k] = v
					}
					m[hi] = s
					next = append(next, m)
				}
			}
			if len(next) <= 64 {
				choices = next
			}
		}
		probe := instantiate(t.format, holes, choices[0])
		if !bracketsBalanced(probe) {
			skippedPartial++
			continue // a fragment of a multi-line construct: judged by H3
		}
		var firstErr error
		var badInst string
		for _, ch := range choices {
			inst := instantiate(t.format, holes, ch)
			if err := parsesAsRego(inst); err != nil && firstErr == nil {
				firstErr, badInst = err, inst
			}
		}
		parsed++
		if firstErr != nil {
			msg := firstErr.Error()
			if i := strings.Index(msg, "\n"); i > 0 {
				msg = msg[:i]
			}
			r.Bad("C07.H4", key, p.Pos(at), fmt.Sprintf("the template does not parse as Rego when instantiated as `%s`: %s", strings.ReplaceAll(badInst, "\n", "\\n"), msg))
		} else {
			r.OK("C07.H4", key, p.Pos(at), fmt.Sprintf("parses in %d instantiation(s)", len(choices)))
		}
	}
	for line, pos := range constLines {
		if !bracketsBalanced(line) {
			skippedPartial++
			continue
		}
		parsed++
		if err := parsesAsRego(line); err != nil {
			r.Bad("C07.H4", "const:"+shortFormat(line), p.Pos(pos), "the constant line does not parse as Rego: "+strings.SplitN(err.Error(), "\n", 2)[0])
		} else {
			r.OK("C07.H4", "const:"+shortFormat(line), p.Pos(pos), "parses")
		}
	}
	r.Analysed["templates_parsed"] = parsed
	r.Analysed["partial_templates_left_to_H3"] = skippedPartial

	// ---- H1
	c07Identifiers(c, tpls2formats(tpls), constLines)

	// ---- H2
	if gen != nil {
		info := gen.TypesInfo
		heads := 0
		_ = info
		for _, f := range gen.Syntax {
			for _, d := range f.Decls {
				fd, ok := d.(*ast.FuncDecl)
				if !ok || fd.Body == nil {
					continue
				}
				// rule heads are only emitted by functions that assemble whole rules (their result is not a body line list)
				fname := fd.Name.Name
				if !strings.HasPrefix(fname, "aggregate") && !strings.HasPrefix(fname, "wrapTopLevel") {
					continue
				}
				seenHead := map[string]bool{}
				proto := &symWalker{Inline: func(*types.Func) bool { return false }}
				proto.OnText = func(w *symWalker, at ast.Expr, text *Sym) {
					if w.depth != 0 || text == nil || text.K != symConcat || len(text.Parts) < 2 {
						return
					}
					if _, isConst := text.Parts[0].ConstString(); isConst {
						return
					}
					format := holeText.ReplaceAllString(text.Template(), "%s")
					isHead := (strings.HasPrefix(format, "%s[") && strings.HasSuffix(strings.TrimSpace(format), "{")) || strings.HasPrefix(format, "%s = [") || strings.HasPrefix(format, "%s = {")
					if !isHead || strings.HasPrefix(format, "%s = { ") && strings.Contains(format, "|") && strings.HasSuffix(strings.TrimSpace(format), "}") {
						return
					}
					if seenHead[format] {
						return
					}
					seenHead[format] = true
					heads++
					name := text.Parts[0]
					okh := name.K == symCall && (strings.Contains(name.Fn, "/internal/parser/profile.") || name.Fn == "strings.ToLower")
					r.Check(okh, "C07.H2", relOf(gen)+"."+fname+"#head:"+shortFormat(format), p.Pos(at.Pos()), "the rule is named by the fresh-name generator or by the level", "a module-scope rule is named by "+shortFormat(name.String())+", which is neither a fresh name nor a level: two validations can define conflicting rules")
				}
				p.SymWalk(gen, fd, proto, nil)
			}
		}
		if heads == 0 {
			r.Unknown("C07.H2", "heads", "", "no rule-head templates recognised")
		}
	}

	// ---- H3
	c07Brackets(c)

	// ---- H5
	ord5 := ordinal{}
	for _, s := range sinks {
		t := te.get(s.Operand)
		if t == nil || !t.tainted {
			continue
		}
		isPath := t.sources["BasePath.source"] && !t.sources["Property.Iri"] && !t.san["iri"] && !t.san["fragment"]
		isPkg := strings.HasPrefix(s.Format, "package ") || strings.HasPrefix(s.Format, "profile_")
		if !isPath && !isPkg {
			continue
		}
		if hasAny(t, codeFields) {
			continue
		}
		if errorish(s.Format) {
			continue
		}
		key := ord5.next(FuncKey(s.Fn) + "#" + shortFormat(s.Format))
		ok, why := adequate(t, s.Hole)
		if isPkg && s.Hole.Ctx == ctxCode && !(t.san["ident"] || t.san["fragment"]) {
			ok, why = false, "the package name is not reduced to identifier characters"
		}
		r.Check(ok, "C07.H5", key, p.Pos(s.Instr.Pos()), fmt.Sprintf("%s: %s", describeSink(p, s), why), fmt.Sprintf("%s: text from %s (sanitisers: [%s]): %s", describeSink(p, s), t.srcList(), t.sanList(), why))
	}

	// ---- H8: no profile text lands in code position as it was written. Whatever the profile author types (a number as YAML
	// spells it: +1.5, 5., 1_000; a name; an operator) is not Rego syntax unless the translator re-renders it: numbers through
	// their parsed value, names through the identifier reduction or a string literal, IRIs through the expander.
	r.Rule("C07.H8", "profile text reaches code position only re-rendered (parsed number, identifier reduction, string literal, expanded IRI)", 1)
	ord8 := ordinal{}
	raw8 := 0
	for _, s := range sinks {
		if s.Hole.Ctx != ctxCode {
			continue
		}
		t := te.get(s.Operand)
		if t == nil || !t.tainted {
			continue
		}
		if t.san["fragment"] || t.san["ident"] || t.san["iri"] || t.san["json-literal"] || hasAny(t, codeFields) || errorish(s.Format) {
			continue
		}
		isPkg := strings.HasPrefix(s.Format, "package ") || strings.HasPrefix(s.Format, "profile_")
		if isPkg {
			continue // judged by H5
		}
		raw8++
		r.Bad("C07.H8", ord8.next(FuncKey(s.Fn)+"#"+shortFormat(s.Format)), p.Pos(s.Instr.Pos()), fmt.Sprintf("%s: text from %s is pasted into code as the profile wrote it (sanitisers: [%s]): a spelling YAML accepts and Rego does not (+1.5, 5., 0x10, 1_000, a word) makes the generated module fail to parse", describeSink(p, s), t.srcList(), t.sanList()))
	}
	if raw8 == 0 {
		r.OK("C07.H8", "census", "", fmt.Sprintf("%d formatting sinks examined: no unrendered profile text in code position", len(sinks)))
	}

	// Go quoting is not Rego quoting: \a, \v, \x7f, \U000e0067 are legal in a Go literal and illegal in a Rego string
	quoteUses := 0
	for _, fn := range te.funcs {
		rel := RelPkg(fn)
		if rel != "internal/generator" && rel != "internal/misc" && rel != "internal/parser/profile" {
			continue
		}
		ordq := ordinal{}
		for _, b := range fn.Blocks {
			for _, ins := range b.Instrs {
				call, ok := ins.(*ssa.Call)
				if !ok {
					continue
				}
				name := funcFullName(ssaCalleeObj(call))
				bad := ""
				switch {
				case strings.HasPrefix(name, "strconv.Quote") || strings.HasPrefix(name, "strconv.AppendQuote"):
					bad = name
				case isSprintfLike(call):
					fv, _, _, _ := ssaSprintf(call)
					if f, ok := constStringOf(fv); ok && (strings.Contains(f, "%q") || strings.Contains(f, "%+q") || strings.Contains(f, "%#q")) {
						if rel == "internal/parser/profile" && fn.Name() == "String" {
							continue
						}
						bad = "fmt.Sprintf with %q"
					}
				}
				if bad != "" {
					quoteUses++
					r.Bad("C07.H5", ordq.next(FuncKey(fn)+"#go-quoting"), p.Pos(ins.Pos()), bad+" renders text with Go escape sequences (\\a, \\v, \\x7f, \\U…), which OPA's parser rejects: a profile text with such a character does not compile")
				}
			}
		}
	}
	lit := 0
	for _, k := range te.sanFn {
		if k == "json-literal" {
			lit++
		}
	}
	r.Check(lit > 0 && quoteUses == 0, "C07.H5", "string-literal-encoding", "", fmt.Sprintf("%d JSON-based string-literal helper(s); no Go-style quoting in the generator", lit), "profile text is not rendered through a JSON-based string-literal helper")

	// ---- H6
	c07IriAgreement(c)
}

func tpls2formats[T any](ts []T) []string { return nil }

var fallbackName = regexp.MustCompile(`^[A-Za-z_]+%d$`)

// c07Identifiers: rule H1.
func c07Identifiers(c *Ctx, _ []string, constLines map[string]token.Pos) {
	r, p := c.R, c.P
	prof := p.Pkg("internal/parser/profile")
	gen := p.Pkg("internal/generator")
	if prof == nil || gen == nil {
		r.Unknown("C07.H1", "packages", "", "profile or generator package missing")
		return
	}
	// alphabet: the []string literal of single-letter constants inside the function that builds the variable generator
	var alphabet []string
	fallback := ""
	for _, f := range prof.Syntax {
		ast.Inspect(f, func(n ast.Node) bool {
			switch x := n.(type) {
			case *ast.CompositeLit:
				if tv, ok := prof.TypesInfo.Types[x]; ok {
					if sl, ok := tv.Type.Underlying().(*types.Slice); ok && isStringType(sl.Elem()) && len(x.Elts) >= 10 {
						var names []string
						short := true
						for _, el := range x.Elts {
							s, ok := constString(prof.TypesInfo, el)
							if !ok || len(s) > 2 {
								short = false
							}
							names = append(names, s)
						}
						if short && len(names) > len(alphabet) {
							alphabet = names
						}
					}
				}
			case *ast.CallExpr:
				if funcFullName(calleeOf(prof.TypesInfo, x)) == "fmt.Sprintf" && len(x.Args) == 2 {
					if s, ok := constString(prof.TypesInfo, x.Args[0]); ok && fallbackName.MatchString(s) {
						fallback = s
					}
				}
			}
			return true
		})
	}
	if len(alphabet) == 0 {
		r.Unknown("C07.H1", "alphabet", "", "the quantified-variable alphabet was not found")
		return
	}
	names := append([]string{}, alphabet...)
	if fallback != "" {
		names = append(names, strings.Replace(fallback, "%d", "26", 1), strings.Replace(fallback, "%d", "100", 1))
	}
	r.Analysed["variable_alphabet"] = alphabet
	r.Analysed["variable_fallback"] = fallback
	// reserved words
	reserved := map[string]string{}
	for _, k := range rast.Keywords {
		reserved[k] = "Rego keyword"
	}
	rp, err := loadPreamble(p)
	if err == nil {
		for _, imp := range rp.Module.Imports {
			pth := imp.Path.String()
			if strings.HasPrefix(pth, "future.keywords.") {
				reserved[strings.TrimPrefix(pth, "future.keywords.")] = "future keyword imported by the preamble"
			}
		}
		for _, n := range rp.ruleNames() {
			if _, ok := reserved[n]; !ok {
				reserved[n] = "rule of the embedded preamble"
			}
		}
	} else {
		r.Unknown("C07.H1", "preamble", "", err.Error())
	}
	for _, b := range rast.Builtins {
		if !strings.Contains(b.Name, ".") {
			if _, ok := reserved[b.Name]; !ok {
				reserved[b.Name] = "built-in function"
			}
		}
	}
	for _, w := range []string{"input", "data"} {
		reserved[w] = "root document"
	}
	// identifier-forming templates and fixed local identifiers of the generator's templates
	type form struct{ pre, suf, where string }
	var forms []form
	fixed := map[string]string{}
	fixedText := map[string]string{}
	addFixed := func(text, where string) {
		// identifier tokens in code position
		ctx := ctxCode
		for i := 0; i < len(text); {
			ch := text[i]
			switch ctx {
			case ctxCode:
				switch {
				case ch == '"':
					ctx = ctxDQ
					i++
				case ch == '`':
					ctx = ctxRaw
					i++
				case ch == '#':
					ctx = ctxComment
					i++
				case isIdentChar(ch) && !(ch >= '0' && ch <= '9'):
					j := i
					for j < len(text) && (isIdentChar(text[j])) {
						j++
					}
					tok := text[i:j]
					prevDot := i > 0 && text[i-1] == '.'
					nextCh := byte(0)
					if j < len(text) {
						nextCh = text[j]
					}
					prevPct := i > 0 && text[i-1] == '%' // a verb letter
					if !prevDot && !prevPct && nextCh != '(' && nextCh != '.' {
						if _, ok := fixed[tok]; !ok {
							fixed[tok] = where
							fixedText[tok] = shortFormat(text)
						}
					}
					i = j
				default:
					i++
				}
			case ctxDQ:
				if ch == '\\' {
					i++
				} else if ch == '"' {
					ctx = ctxCode
				}
				i++
			case ctxRaw:
				if ch == '`' {
					ctx = ctxCode
				}
				i++
			case ctxComment:
				if ch == '\n' {
					ctx = ctxCode
				}
				i++
			}
		}
	}
	for _, f := range gen.Syntax {
		ast.Inspect(f, func(n ast.Node) bool {
			x, ok := n.(*ast.CallExpr)
			if !ok {
				return true
			}
			if x, ok = normSprintf(gen.TypesInfo, x); !ok {
				return true
			}
			format, ok := constString(gen.TypesInfo, x.Args[0])
			if !ok {
				return true
			}
			where := relOf(gen) + "." + enclosingFuncName(gen, x.Pos())
			holes, _ := scanFormat(format, ctxCode)
			// strip the verbs to collect fixed identifiers; a verb glued to identifier characters forms an identifier
			stripped := []byte(format)
			for hi := range holes {
				_ = hi
			}
			// locate verbs again to cut them out and to record glue
			for i := 0; i < len(format); i++ {
				if format[i] != '%' || i+1 >= len(format) {
					continue
				}
				if format[i+1] == '%' {
					i++
					continue
				}
				j := i + 1
				for j < len(format) && strings.ContainsRune("+-# 0123456789.", rune(format[j])) {
					j++
				}
				if j >= len(format) {
					break
				}
				// prefix / suffix runs
				a := i
				for a > 0 && isIdentChar(format[a-1]) {
					a--
				}
				bnd := j + 1
				for bnd < len(format) && (isIdentChar(format[bnd]) || (format[bnd] == '%' && bnd+1 < len(format) && format[bnd+1] == 'd')) {
					if format[bnd] == '%' {
						bnd++
					}
					bnd++
				}
				if format[j] == 's' && (a < i || bnd > j+1) {
					pre := format[a:i]
					suf := strings.ReplaceAll(format[j+1:bnd], "%d", "1")
					forms = append(forms, form{pre, suf, where})
				}
				for k := a; k < bnd && k < len(stripped); k++ {
					stripped[k] = ' '
				}
				i = j
			}
			addFixed(string(stripped), where)
			return true
		})
	}
	for line := range constLines {
		if len(line) > 2000 {
			continue // the embedded preamble: its local names live in its own rules; its rule names are reserved above
		}
		addFixed(line, "internal/generator (constant line)")
	}
	r.Analysed["identifier_forming_templates"] = len(forms)
	r.Analysed["fixed_template_identifiers"] = len(fixed)
	// check
	bad := map[string]string{}
	for _, n := range names {
		if why, ok := reserved[n]; ok {
			bad[n] = fmt.Sprintf("the variable name %q is a %s", n, why)
		}
		if where, ok := fixed[n]; ok {
			bad[n] = fmt.Sprintf("the variable name %q is also used as a fixed local name by a template of %s (%q): the two are unified or shadow each other", n, where, fixedText[n])
		}
		for _, f := range forms {
			id := f.pre + n + f.suf
			if why, ok := reserved[id]; ok {
				bad[id] = fmt.Sprintf("the template %s%%s%s in %s turns the variable %q into %q, a %s", f.pre, f.suf, f.where, n, id, why)
			}
		}
	}
	keys := sortedKeys(bad)
	for _, k := range keys {
		r.Bad("C07.H1", "name:"+k, "", bad[k])
	}
	r.OK("C07.H1", "alphabet", "", fmt.Sprintf("%d variable names x %d identifier-forming templates checked against %d reserved words and %d fixed template identifiers", len(names), len(forms), len(reserved), len(fixed)))
	if len(keys) == 0 {
		r.OK("C07.H1", "collisions", "", "no produced identifier is reserved")
		r.OK("C07.H1", "bare-names", "", "no bare variable name is reserved or used as a fixed local name")
	}
}

// ---- H3: abstract interpretation of bracket stacks over the syntax of emitting functions

type brState struct {
	stack    string // open brackets, innermost last; for '(' opened right after a known builtin name the name is recorded in calls
	calls    []brCall
	appended bool // at least one text has been appended (decides `if len(acc) > 0` guards)
}

type brCall struct {
	depth  int
	name   string
	commas int
}

func (s brState) key() string {
	k := s.stack
	if s.appended {
		k += "+"
	}
	for _, c := range s.calls {
		k += fmt.Sprintf("|%d:%s:%d", c.depth, c.name, c.commas)
	}
	return k
}

type brInterp struct {
	bounds   map[types.Object]int // slices whose length is known to be at most n at this point (after `if len(x) > n { ...; return }`)
	c        *Ctx
	pk       *packages.Package
	fd       *ast.FuncDecl
	unroll   int
	problems map[string]token.Pos
	lines    int
	// functions of the embedded preamble by name -> number of parameters: they shadow built-ins of the same name
	userFuncs map[string]int
}

func (bi *brInterp) applyText(s brState, text string, pos token.Pos) (brState, bool) {
	ctx := ctxCode
	out := brState{stack: s.stack, calls: append([]brCall(nil), s.calls...), appended: true}
	lastIdent := ""
	for i := 0; i < len(text); i++ {
		ch := text[i]
		switch ctx {
		case ctxCode:
			switch {
			case ch == '"':
				ctx = ctxDQ
			case ch == '`':
				ctx = ctxRaw
			case ch == '#':
				ctx = ctxComment
			case isIdentChar(ch) || ch == '.':
				j := i
				for j < len(text) && (isIdentChar(text[j]) || text[j] == '.') {
					j++
				}
				lastIdent = text[i:j]
				i = j - 1
				continue
			case ch == '(' || ch == '[' || ch == '{':
				out.stack += string(ch)
				if ch == '(' && lastIdent != "" {
					if _, isUser := bi.userFuncs[lastIdent]; isUser {
						out.calls = append(out.calls, brCall{len(out.stack), lastIdent, 0})
					} else if b, ok := rast.BuiltinMap[lastIdent]; ok && b.Decl != nil {
						out.calls = append(out.calls, brCall{len(out.stack), lastIdent, 0})
					}
				}
			case ch == ',':
				if n := len(out.calls); n > 0 && out.calls[n-1].depth == len(out.stack) {
					out.calls[n-1].commas++
				}
			case ch == ')' || ch == ']' || ch == '}':
				if len(out.stack) == 0 {
					bi.problems[fmt.Sprintf("the text %q closes %q but no bracket is open", shortFormat(text), string(ch))] = pos
					return out, false
				}
				o := out.stack[len(out.stack)-1]
				if (ch == ')' && o != '(') || (ch == ']' && o != '[') || (ch == '}' && o != '{') {
					bi.problems[fmt.Sprintf("the text %q closes %q while the innermost open bracket is %q: the construct is syntactically invalid for this number of alternatives", shortFormat(text), string(ch), string(o))] = pos
					return out, false
				}
				if n := len(out.calls); n > 0 && out.calls[n-1].depth == len(out.stack) && ch == ')' {
					cl := out.calls[n-1]
					if want, isUser := bi.userFuncs[cl.name]; isUser {
						if got := cl.commas + 1; got != want && got != want+1 {
							bi.problems[fmt.Sprintf("the preamble function %s is called with %d argument(s) on some emission path; it takes %d", cl.name, got, want)] = pos
						}
					} else if b := rast.BuiltinMap[cl.name]; b != nil {
						want := len(b.Decl.Args())
						got := cl.commas + 1
						if got != want && got != want+1 {
							bi.problems[fmt.Sprintf("the built-in %s is called with %d argument(s) on some emission path; it takes %d", cl.name, got, want)] = pos
						}
					}
					out.calls = out.calls[:n-1]
				}
				out.stack = out.stack[:len(out.stack)-1]
			}
			if !(isIdentChar(ch) || ch == '.') {
				if ch != ' ' && ch != '(' {
					lastIdent = ""
				}
				if ch == ' ' {
					// keep lastIdent across a single space? no: `f (` is not a call in Rego
					lastIdent = ""
				}
			}
		case ctxDQ:
			if ch == '\\' {
				i++
			} else if ch == '"' {
				ctx = ctxCode
			}
		case ctxRaw:
			if ch == '`' {
				ctx = ctxCode
			}
		case ctxComment:
			if ch == '\n' {
				ctx = ctxCode
			}
		}
	}
	return out, true
}

// textOf: the Rego text an appended expression contributes, with holes replaced by balanced placeholders.
func (bi *brInterp) textOf(e ast.Expr) (string, bool) {
	info := bi.pk.TypesInfo
	e = ast.Unparen(e)
	if s, ok := constString(info, e); ok {
		return s, true
	}
	switch x := e.(type) {
	case *ast.CallExpr:
		if nx, ok := normSprintf(info, x); ok {
			if f, ok := constString(info, nx.Args[0]); ok {
				holes, _ := scanFormat(f, ctxCode)
				return instantiate(f, holes, nil), true
			}
		}
	case *ast.BinaryExpr:
		if x.Op == token.ADD {
			l, lok := bi.textOf(x.X)
			rr, rok := bi.textOf(x.Y)
			if !lok {
				l = ""
			}
			if !rok {
				rr = ""
			}
			return l + rr, lok || rok
		}
	}
	return "", false
}

// ---- H3 on E-sym: what a function emits, as a tree

type emKind int

const (
	emText   emKind = iota // a constant piece of text
	emHole                 // text not known here (a value, a line produced elsewhere): assumed balanced on its own
	emRepeat               // kids once per element of the collection coll
	emWhen                 // kids when cond holds
	emAlt                  // one of alts
)

type emNode struct {
	kind emKind
	text string
	coll string
	cond *Sym
	name string
	kids []*emNode
	alts [][]*emNode
}

// emTree turns a value computed by E-sym (a list of lines, a joined text, a concatenation) into the sequence of texts
// it stands for, keeping the loop and condition structure.
func emTree(s *Sym) []*emNode {
	if s == nil {
		return []*emNode{{kind: emHole}}
	}
	switch s.K {
	case symConst:
		if t, ok := s.ConstString(); ok {
			return []*emNode{{kind: emText, text: t}}
		}
		return []*emNode{{kind: emHole}}
	case symList:
		var out []*emNode
		for _, p := range s.Parts {
			out = append(out, emTree(p)...)
		}
		return out
	case symConcat:
		// one text: constant pieces as they are, values as a placeholder; a part that joins a list of lines with a line
		// break is kept as structure (the text before it ends a line, the text after it starts one)
		var out []*emNode
		var buf strings.Builder
		flush := func() {
			if buf.Len() > 0 {
				out = append(out, &emNode{kind: emText, text: buf.String()})
				buf.Reset()
			}
		}
		for _, p := range s.Parts {
			if t, ok := p.ConstString(); ok {
				buf.WriteString(t)
				continue
			}
			if p.K == symCall && p.Fn == "strings.Join" && len(p.Parts) == 2 {
				if sep, ok := p.Parts[1].ConstString(); ok && strings.Contains(sep, "\n") {
					flush()
					out = append(out, emTree(p.Parts[0])...)
					continue
				}
			}
			if p.K == symRepeat || p.K == symWhen {
				flush()
				out = append(out, emTree(p)...)
				continue
			}
			if p.K == symConcat {
				for _, q := range emTree(p) {
					if q.kind == emText {
						buf.WriteString(q.text)
					} else {
						buf.WriteString("x")
					}
				}
				continue
			}
			buf.WriteString("x")
		}
		flush()
		return out
	case symRepeat:
		var kids []*emNode
		for _, p := range s.Parts {
			kids = append(kids, emTree(p)...)
		}
		return []*emNode{{kind: emRepeat, coll: s.X.String(), kids: kids}}
	case symWhen:
		var kids []*emNode
		for _, p := range s.Parts {
			kids = append(kids, emTree(p)...)
		}
		return []*emNode{{kind: emWhen, cond: s.X, name: s.Name, kids: kids}}
	case symChoice:
		n := &emNode{kind: emAlt}
		for _, p := range s.Parts {
			n.alts = append(n.alts, emTree(p))
		}
		return []*emNode{n}
	case symCall:
		switch {
		case s.Fn == "strings.Join" && len(s.Parts) == 2:
			return emTree(s.Parts[0])
		case s.Fn == "maybe" && len(s.Parts) == 1:
			return []*emNode{{kind: emWhen, name: s.Name, kids: emTree(s.Parts[0])}}
		}
	}
	return []*emNode{{kind: emHole}}
}

func emWalk(ns []*emNode, f func(*emNode)) {
	for _, n := range ns {
		f(n)
		emWalk(n.kids, f)
		for _, a := range n.alts {
			emWalk(a, f)
		}
	}
}

// emBinding: how many elements each collection has in the run being interpreted, and where each open loop stands.
type emBinding struct {
	count map[string]int
	iter  map[string]int
}

func (b *emBinding) evalInt(s *Sym) (int64, bool) {
	if s == nil {
		return 0, false
	}
	if v, ok := s.ConstInt(); ok {
		return v, true
	}
	switch s.K {
	case symIdx:
		if s.X != nil {
			if i, ok := b.iter[s.X.String()]; ok {
				return int64(i), true
			}
		}
	case symLen:
		if s.X == nil {
			return 0, false
		}
		if s.X.K == symList {
			return b.countItems(s.X)
		}
		if n, ok := b.count[s.X.String()]; ok {
			return int64(n), true
		}
	case symBin:
		l, ok1 := b.evalInt(s.X)
		r, ok2 := b.evalInt(s.Y)
		if ok1 && ok2 {
			switch s.Op {
			case token.ADD:
				return l + r, true
			case token.SUB:
				return l - r, true
			case token.MUL:
				return l * r, true
			}
		}
	}
	return 0, false
}

func (b *emBinding) evalBool(s *Sym) (bool, bool) {
	if s == nil {
		return false, false
	}
	if v, ok := s.ConstBool(); ok {
		return v, true
	}
	switch s.K {
	case symNot:
		v, ok := b.evalBool(s.X)
		return !v, ok
	case symBin:
		switch s.Op {
		case token.LAND, token.LOR:
			l, ok1 := b.evalBool(s.X)
			r, ok2 := b.evalBool(s.Y)
			if s.Op == token.LAND {
				if ok1 && !l || ok2 && !r {
					return false, true
				}
				return l && r, ok1 && ok2
			}
			if ok1 && l || ok2 && r {
				return true, true
			}
			return l || r, ok1 && ok2
		case token.LSS, token.LEQ, token.GTR, token.GEQ, token.EQL, token.NEQ:
			l, ok1 := b.evalInt(s.X)
			r, ok2 := b.evalInt(s.Y)
			if !ok1 || !ok2 {
				return false, false
			}
			switch s.Op {
			case token.LSS:
				return l < r, true
			case token.LEQ:
				return l <= r, true
			case token.GTR:
				return l > r, true
			case token.GEQ:
				return l >= r, true
			case token.EQL:
				return l == r, true
			default:
				return l != r, true
			}
		}
	}
	return false, false
}

// countItems: the number of elements of a list built with each(...) / when(...) parts under this binding.
func (b *emBinding) countItems(list *Sym) (int64, bool) {
	var total int64
	for _, p := range list.Parts {
		switch p.K {
		case symRepeat:
			coll := p.X.String()
			n, ok := b.count[coll]
			if !ok {
				return 0, false
			}
			saved, had := b.iter[coll]
			for i := 0; i < n; i++ {
				b.iter[coll] = i
				k, ok := b.countItems(&Sym{K: symList, Parts: p.Parts})
				if !ok {
					return 0, false
				}
				total += k
			}
			if had {
				b.iter[coll] = saved
			} else {
				delete(b.iter, coll)
			}
		case symWhen:
			v, ok := b.evalBool(p.X)
			if !ok {
				return 0, false
			}
			if v {
				k, ok := b.countItems(&Sym{K: symList, Parts: p.Parts})
				if !ok {
					return 0, false
				}
				total += k
			}
		case symAcc:
			return 0, false
		default:
			total++
		}
	}
	return total, true
}

// run interprets the emission tree over bracket states.
func (bi *brInterp) emRun(ns []*emNode, in map[string]brState, b *emBinding, pos token.Pos) map[string]brState {
	cur := in
	for _, n := range ns {
		switch n.kind {
		case emText:
			bi.lines++
			next := map[string]brState{}
			for _, st := range cur {
				if ns2, ok := bi.applyText(st, n.text, pos); ok {
					next[ns2.key()] = ns2
				}
			}
			cur = next
		case emHole:
			next := map[string]brState{}
			for _, st := range cur {
				if ns2, ok := bi.applyText(st, "x", pos); ok {
					next[ns2.key()] = ns2
				}
			}
			cur = next
		case emRepeat:
			cnt := b.count[n.coll]
			saved, had := b.iter[n.coll]
			for i := 0; i < cnt; i++ {
				b.iter[n.coll] = i
				cur = bi.emRun(n.kids, cur, b, pos)
			}
			if had {
				b.iter[n.coll] = saved
			} else {
				delete(b.iter, n.coll)
			}
		case emWhen:
			v, known := b.evalBool(n.cond)
			switch {
			case known && v:
				cur = bi.emRun(n.kids, cur, b, pos)
			case known:
			default:
				yes := bi.emRun(n.kids, cloneStates(cur), b, pos)
				for k, v := range yes {
					cur[k] = v
				}
			}
		case emAlt:
			out := map[string]brState{}
			for _, a := range n.alts {
				for k, v := range bi.emRun(a, cloneStates(cur), b, pos) {
					out[k] = v
				}
			}
			cur = out
		}
		if len(cur) > 64 {
			nm := map[string]brState{}
			for _, k := range sortedKeys(cur) {
				nm[k] = cur[k]
				if len(nm) >= 64 {
					break
				}
			}
			cur = nm
		}
	}
	return cur
}

func cloneStates(m map[string]brState) map[string]brState {
	n := make(map[string]brState, len(m))
	for k, v := range m {
		n[k] = v
	}
	return n
}

// returnsText: the function's results include a string, a list of strings, or a struct / pointer to one carrying such.
func returnsText(sig *types.Signature) bool {
	var textual func(t types.Type, depth int) bool
	textual = func(t types.Type, depth int) bool {
		switch u := t.Underlying().(type) {
		case *types.Basic:
			return u.Info()&types.IsString != 0
		case *types.Slice:
			return depth < 3 && textual(u.Elem(), depth+1)
		case *types.Pointer:
			return depth < 3 && textual(u.Elem(), depth+1)
		case *types.Struct:
			if depth >= 2 {
				return false
			}
			for i := 0; i < u.NumFields(); i++ {
				if textual(u.Field(i).Type(), depth+1) {
					return true
				}
			}
		}
		return false
	}
	for i := 0; i < sig.Results().Len(); i++ {
		if textual(sig.Results().At(i).Type(), 0) {
			return true
		}
	}
	return false
}

// c07Brackets (H3): every function of the generator is evaluated symbolically (E-sym); helpers that return no text are
// interpreted (builder methods, loops in helpers), functions that return text are separate units whose output counts as
// balanced where it is used.  The texts a function returns — lists of lines, joined texts, fields of a returned struct —
// form a tree of constant texts, holes, each(collection => ...) and when(condition => ...).  A function is an emitter
// when one of its constant texts has unbalanced brackets; its tree is then interpreted over bracket stacks for every
// combination of 0..unroll elements per collection, conditions on loop indices and on len() of the lists being built
// evaluated exactly (first-iteration, last-iteration and `len(acc) > 0` idioms, however they are written).
func c07Brackets(c *Ctx) {
	r, p := c.R, c.P
	gen := p.Pkg("internal/generator")
	if gen == nil {
		r.Unknown("C07.H3", "generator", "", "package not found")
		return
	}
	unroll := 4
	if c.Thorough() {
		unroll = 5
	}
	inl := samePkgInline(gen)
	inline := func(fn *types.Func) bool {
		sig, ok := fn.Type().(*types.Signature)
		return ok && inl(fn) && !returnsText(sig)
	}
	userFuncs := map[string]int{}
	if rp, err := loadPreamble(p); err == nil {
		for _, rl := range rp.Module.Rules {
			if len(rl.Head.Args) > 0 {
				userFuncs[string(rl.Head.Name)] = len(rl.Head.Args)
			}
		}
	}
	n := 0
	for _, f := range gen.Syntax {
		for _, d := range f.Decls {
			fd, ok := d.(*ast.FuncDecl)
			if !ok || fd.Body == nil {
				continue
			}
			fo, _ := gen.TypesInfo.Defs[fd.Name].(*types.Func)
			if fo == nil {
				continue
			}
			if sig, ok := fo.Type().(*types.Signature); !ok || !returnsText(sig) {
				continue
			}
			type emission struct {
				conds []symCond
				tree  []*emNode
			}
			var ems []emission
			proto := &symWalker{Inline: inline}
			proto.OnReturn = func(w *symWalker, ret *ast.ReturnStmt, results []*Sym) {
				if w.depth != 0 {
					return
				}
				for _, res := range results {
					var texts []*Sym
					switch res.K {
					case symStruct:
						for _, k := range res.Order {
							if fv := res.Fields[k]; fv != nil && (fv.K == symList || fv.K == symConcat || fv.K == symChoice) {
								texts = append(texts, fv)
							}
						}
					default:
						texts = append(texts, res)
					}
					for _, t := range texts {
						ems = append(ems, emission{w.Conds(), emTree(t)})
					}
				}
			}
			p.SymWalk(gen, fd, proto, nil)
			partial := false
			for _, em := range ems {
				emWalk(em.tree, func(nd *emNode) {
					if nd.kind == emText && !bracketsBalanced(nd.text) {
						partial = true
					}
				})
			}
			if !partial {
				continue
			}
			n++
			bi := &brInterp{c: c, pk: gen, fd: fd, unroll: unroll, problems: map[string]token.Pos{}, userFuncs: userFuncs}
			runs := 0
			for _, em := range ems {
				var colls []string
				seen := map[string]bool{}
				emWalk(em.tree, func(nd *emNode) {
					if nd.kind == emRepeat && !seen[nd.coll] {
						seen[nd.coll] = true
						colls = append(colls, nd.coll)
					}
				})
				// collections named by the path condition of the return (len(paths) > 1)
				for _, cd := range em.conds {
					cd.Cond.Walk(func(q *Sym) {
						if q.K == symLen && q.X != nil && q.X.K != symList && !seen[q.X.String()] {
							seen[q.X.String()] = true
							colls = append(colls, q.X.String())
						}
					})
				}
				free := len(colls)
				if free > 3 {
					free = 3 // further collections take the count of the third
				}
				total := 1
				for i := 0; i < free; i++ {
					total *= unroll + 1
				}
				for combo := 0; combo < total; combo++ {
					b := &emBinding{count: map[string]int{}, iter: map[string]int{}}
					x := combo
					last := 0
					for i, cl := range colls {
						if i < free {
							last = x % (unroll + 1)
							x /= unroll + 1
						}
						b.count[cl] = last
					}
					feasible := true
					for _, cd := range em.conds {
						if v, known := b.evalBool(cd.Cond); known && v == cd.Neg {
							feasible = false
						}
					}
					if !feasible {
						continue
					}
					runs++
					final := bi.emRun(em.tree, map[string]brState{"": {}}, b, fd.Pos())
					for _, st := range final {
						if st.stack != "" {
							bi.problems[fmt.Sprintf("the text the function returns can end with the brackets %q still open", st.stack)] = fd.Pos()
						}
					}
				}
			}
			key := relOf(gen) + "." + fd.Name.Name
			if len(bi.problems) == 0 {
				r.OK("C07.H3", key, p.Pos(fd.Pos()), fmt.Sprintf("%d emitted texts interpreted over %d combinations of 0..%d elements per collection: every closing bracket matches, nothing stays open, built-in calls have their declared arity", bi.lines, runs, unroll))
			} else {
				for _, msg := range sortedKeys(bi.problems) {
					r.Bad("C07.H3", key+"#"+shortFormat(msg), p.Pos(bi.problems[msg]), msg)
				}
			}
		}
	}
	r.Analysed["multi_line_emitters"] = n
}

// ---- H6
func c07IriAgreement(c *Ctx) {
	r, p := c.R, c.P
	g, err := loadPegGrammar(p, "internal/parser/path")
	if err != nil {
		r.Unknown("C07.H6", "grammar", "", err.Error())
		return
	}
	// the IRI rule: the rule with two one-or-more classes separated by the literal "."
	var nsCls, propCls *pegExpr
	for _, rl := range g.Rules {
		seq := rl.Expr.strip()
		if seq.Kind != "seq" {
			continue
		}
		for i := 0; i+2 < len(seq.Kids); i++ {
			a, dot, b := seq.Kids[i].strip(), seq.Kids[i+1].strip(), seq.Kids[i+2].strip()
			if a.Kind == "plus" && b.Kind == "plus" && dot.Kind == "lit" && dot.Val == "." && a.Kids[0].strip().Kind == "class" && b.Kids[0].strip().Kind == "class" {
				nsCls, propCls = a.Kids[0].strip(), b.Kids[0].strip()
			}
		}
	}
	if nsCls == nil {
		r.Unknown("C07.H6", "iri-rule", "", "the grammar rule for compact IRIs (class+ \".\" class+) was not found")
		return
	}
	// the expander's compact-form pattern: a constant regular expression ^A+\.B+$ in internal/misc
	misc := p.Pkg("internal/misc")
	var pat string
	var patPos token.Pos
	if misc != nil {
		for _, f := range misc.Syntax {
			ast.Inspect(f, func(n ast.Node) bool {
				call, ok := n.(*ast.CallExpr)
				if !ok {
					return true
				}
				name := funcFullName(calleeOf(misc.TypesInfo, call))
				if (name == "regexp.MustCompile" || name == "regexp.Compile") && len(call.Args) == 1 {
					if s, ok := constString(misc.TypesInfo, call.Args[0]); ok && strings.HasPrefix(s, "^") && strings.Contains(s, `\.`) {
						pat, patPos = s, call.Pos()
					}
				}
				return true
			})
		}
	}
	if pat == "" {
		r.Unknown("C07.H6", "compact-form-pattern", "", "the expander's compact-form regular expression was not found")
		return
	}
	re, err := regexp.Compile(pat)
	if err != nil {
		r.Unknown("C07.H6", "compact-form-pattern", p.Pos(patPos), "the pattern does not compile: "+err.Error())
		return
	}
	// containment of the grammar's IRIs in the pattern's language, decided on words: every character of each class alone
	// and every pair of characters of the class, in the position the grammar allows them, with a plain other half
	for _, pair := range []struct {
		peg  *pegExpr
		name string
		word func(part string) string
	}{
		{nsCls, "prefix", func(part string) string { return part + ".x" }},
		{propCls, "name", func(part string) string { return "x." + part }},
	} {
		rs, ok := classRunes(pair.peg)
		if !ok {
			r.Unknown("C07.H6", "iri-"+pair.name, p.Pos(pair.peg.Pos), "unbounded grammar class")
			continue
		}
		var chars []rune
		for _, ch := range rs {
			if !unicode.IsSpace(ch) {
				chars = append(chars, ch)
			}
		}
		missing := map[rune]bool{}
		example := ""
		for _, ch := range chars {
			if w := pair.word(string(ch)); !re.MatchString(w) {
				missing[ch] = true
				if example == "" {
					example = w
				}
			}
		}
		for _, a := range chars {
			for _, b := range chars {
				if missing[a] || missing[b] {
					continue
				}
				if w := pair.word(string(a) + string(b)); !re.MatchString(w) {
					missing[a], missing[b] = true, true
					if example == "" {
						example = w
					}
				}
			}
		}
		var ms []rune
		for ch := range missing {
			ms = append(ms, ch)
		}
		sort.Slice(ms, func(i, j int) bool { return ms[i] < ms[j] })
		r.Check(len(ms) == 0, "C07.H6", "iri-"+pair.name, p.Pos(patPos), fmt.Sprintf("every IRI %s of one or two characters the grammar admits is accepted by the expander (%d characters)", pair.name, len(chars)), fmt.Sprintf("the grammar admits %q as an IRI but the expander's compact-form check %q rejects it (characters involved: %s): a path the grammar accepts fails with 'not in compact form'", example, pat, quoteRunes(ms)))
	}
}

var _ = constant.MakeBool
var _ = sort.Strings

// c07FixedLocals (H7): the code of several constraints is concatenated into one rule body (alternatives of an `or`, the
// two sides of an if/then, constraints under one nested). A template of a constraint generator that declares a local with
// `:=` under a FIXED name at rule-body scope therefore declares it twice as soon as two constraints of that kind meet:
// OPA rejects the module ("var ... assigned above"). Names must come from the fresh-name generator, or live inside a
// comprehension. Texts are collected with E-sym, so Sprintf templates and concatenations are treated alike.
func c07FixedLocals(c *Ctx) {
	r, p := c.R, c.P
	m, err := loadC01Model(p)
	if err != nil {
		r.Unknown("C07.H7", "model", "", err.Error())
		return
	}
	info := m.gen.TypesInfo
	decl := regexp.MustCompile(`^\s*([A-Za-z_][A-Za-z0-9_]*)\s*:=`)
	for _, f := range m.gen.Syntax {
		for _, d := range f.Decls {
			fd, ok := d.(*ast.FuncDecl)
			if !ok || fd.Body == nil || fd.Type.Params == nil || len(fd.Type.Params.List) == 0 {
				continue
			}
			tv, ok := info.Types[fd.Type.Params.List[0].Type]
			if !ok {
				continue
			}
			nt := namedOf(tv.Type)
			if nt == nil || !(m.atomic[nt] || m.complex_[nt]) || nt.Obj().Name() == "TopLevelExpression" {
				continue
			}
			key := relOf(m.gen) + "." + fd.Name.Name
			var bad []string
			texts := 0
			proto := &symWalker{}
			proto.OnText = func(w *symWalker, at ast.Expr, text *Sym) {
				texts++
				tpl := text.Template()
				depth := 0
				for _, line := range strings.Split(tpl, "\n") {
					if depth == 0 {
						if mm := decl.FindStringSubmatch(line); mm != nil {
							bad = append(bad, fmt.Sprintf("%q at %s", strings.TrimSpace(line), p.Pos(at.Pos())))
						}
					}
					inStr := false
					for i := 0; i < len(line); i++ {
						ch := line[i]
						if inStr {
							if ch == '\\' {
								i++
							} else if ch == '"' {
								inStr = false
							}
							continue
						}
						switch ch {
						case '"':
							inStr = true
						case '#':
							i = len(line)
						case '{', '[', '(':
							depth++
						case '}', ']', ')':
							if depth > 0 {
								depth--
							}
						}
					}
				}
			}
			p.SymWalk(m.gen, fd, proto, nil)
			if texts == 0 {
				continue
			}
			sort.Strings(bad)
			r.Check(len(bad) == 0, "C07.H7", key, p.Pos(fd.Pos()), fmt.Sprintf("%d templates: every local declared at rule-body scope has a generated name", texts), "a template of this constraint generator declares a fixed-name local at rule-body scope: "+strings.Join(bad, "; ")+"; two constraints of this kind in one rule body (or, if/then, not over two constraints, one nested) make OPA reject the module: var assigned above")
		}
	}
}

// c07AggregationsParse (H9): the functions that turn a list of alternative traversals into one Rego rule are evaluated
// symbolically (E-sym) on concrete lists of 1, 2, 3 (thorough: 4) alternatives, each with one line of code; the lines the
// function returns are assembled and handed to OPA's parser. Nothing is executed: the function's syntax is interpreted
// over a list whose shape is known.
func c07AggregationsParse(c *Ctx) {
	r, p := c.R, c.P
	gen := p.Pkg("internal/generator")
	if gen == nil {
		return
	}
	info := gen.TypesInfo
	maxK := 3
	if c.Thorough() {
		maxK = 4
	}
	holeRe := regexp.MustCompile(`‹[^›]*›`)
	found := 0
	for _, f := range gen.Syntax {
		for _, d := range f.Decls {
			fd, ok := d.(*ast.FuncDecl)
			if !ok || fd.Body == nil || fd.Recv != nil || fd.Type.Params == nil || len(fd.Type.Params.List) != 1 || len(fd.Type.Params.List[0].Names) != 1 {
				continue
			}
			prm := info.Defs[fd.Type.Params.List[0].Names[0]]
			sl, ok := prm.Type().Underlying().(*types.Slice)
			if !ok {
				continue
			}
			est, ok := sl.Elem().Underlying().(*types.Struct)
			if !ok {
				continue
			}
			hasRego := false
			for i := 0; i < est.NumFields(); i++ {
				if est.Field(i).Name() == "rego" {
					hasRego = true
				}
			}
			if !hasRego || fd.Type.Results == nil || len(fd.Type.Results.List) != 1 {
				continue
			}
			found++
			key := relOf(gen) + "." + fd.Name.Name
			for k := 1; k <= maxK; k++ {
				list := &Sym{K: symList, Type: prm.Type()}
				for j := 0; j < k; j++ {
					el := &Sym{K: symStruct, Fields: map[string]*Sym{}, Type: sl.Elem()}
					for i := 0; i < est.NumFields(); i++ {
						fn := est.Field(i).Name()
						if fn == "rego" {
							el.Fields[fn] = &Sym{K: symList, Parts: []*Sym{symStr(fmt.Sprintf("nodes = data.alt%d[_]", j))}}
						} else {
							el.Fields[fn] = &Sym{K: symUnknown, Name: fn}
						}
						el.Order = append(el.Order, fn)
					}
					list.Parts = append(list.Parts, el)
				}
				var rets []*Sym
				proto := &symWalker{Inline: samePkgInline(gen)}
				proto.OnReturn = func(w *symWalker, ret *ast.ReturnStmt, results []*Sym) {
					if w.depth == 0 && len(results) == 1 {
						rets = append(rets, results[0])
					}
				}
				p.SymWalk(gen, fd, proto, map[types.Object]*Sym{prm: list})
				kk := fmt.Sprintf("%s#%d-alternatives", key, k)
				if len(rets) != 1 || rets[0].K != symStruct {
					r.Unknown("C07.H9", kk, p.Pos(fd.Pos()), fmt.Sprintf("the aggregation could not be evaluated on a list of %d alternatives (%d results)", k, len(rets)))
					continue
				}
				lines, ok := rets[0].Fields["rego"]
				if !ok || lines.K != symList {
					r.Unknown("C07.H9", kk, p.Pos(fd.Pos()), "the emitted lines are not a list: "+rets[0].String())
					continue
				}
				var text []string
				unknown := false
				for _, l := range lines.Parts {
					if l.HasUnknown() {
						unknown = true
					}
					text = append(text, holeRe.ReplaceAllString(l.Template(), "gen_rule_1"))
				}
				if unknown {
					r.Unknown("C07.H9", kk, p.Pos(fd.Pos()), "a line emitted by the aggregation could not be evaluated")
					continue
				}
				if len(text) < k+1 {
					r.Unknown("C07.H9", kk, p.Pos(fd.Pos()), fmt.Sprintf("only %d line(s) were evaluated for %d alternative(s): what the aggregation emits was not followed", len(text), k))
					continue
				}
				module := "package t\n\n" + strings.Join(text, "\n") + "\n"
				_, err := rast.ParseModule("t.rego", module)
				msg := ""
				if err != nil {
					msg = strings.SplitN(err.Error(), "\n", 2)[0]
				}
				r.Check(err == nil, "C07.H9", kk, p.Pos(fd.Pos()), fmt.Sprintf("the rule emitted for %d alternative(s) parses (%d lines)", k, len(text)), fmt.Sprintf("the rule emitted for %d alternative(s) does not parse: %s; text: %s", k, msg, shortFormat(strings.Join(text, " ⏎ "))))
			}
		}
	}
	if found == 0 {
		r.Unknown("C07.H9", "aggregations", "", "no function from a list of traversal results to a rule was found")
	}
}

// c07VariableNames (H10): the generator of quantified-variable names indexes its alphabet only below its length and
// otherwise builds the numbered fallback name; decided on the value its name-producing method returns (E-sym).
func c07VariableNames(c *Ctx) {
	r, p := c.R, c.P
	pk := p.Pkg("internal/parser/profile")
	if pk == nil {
		return
	}
	found := 0
	for _, f := range pk.Syntax {
		for _, d := range f.Decls {
			fd, ok := d.(*ast.FuncDecl)
			if !ok || fd.Body == nil || fd.Recv == nil || fd.Type.Results == nil || len(fd.Type.Results.List) != 1 {
				continue
			}
			// a method that indexes a string slice field of its receiver
			indexes := false
			ast.Inspect(fd.Body, func(n ast.Node) bool {
				if ix, ok := n.(*ast.IndexExpr); ok {
					if tv, ok := pk.TypesInfo.Types[ix.X]; ok && tv.Type.String() == "[]string" {
						_, baseSel := ast.Unparen(ix.X).(*ast.SelectorExpr)
						_, idxSel := ast.Unparen(ix.Index).(*ast.SelectorExpr)
						if baseSel && idxSel {
							indexes = true // <recv>.alphabet[<recv>.counter]
						}
					}
				}
				return true
			})
			if !indexes {
				continue
			}
			found++
			key := relOf(pk) + "." + recvName(fd) + "." + fd.Name.Name
			var rets []*Sym
			proto := &symWalker{}
			proto.OnReturn = func(w *symWalker, ret *ast.ReturnStmt, results []*Sym) {
				if w.depth == 0 && len(results) == 1 {
					rets = append(rets, results[0])
				}
			}
			p.SymWalk(pk, fd, proto, nil)
			if len(rets) != 1 {
				r.Unknown("C07.H10", key, p.Pos(fd.Pos()), fmt.Sprintf("%d return statements", len(rets)))
				continue
			}
			v := rets[0]
			if v.K == symStruct {
				if nm, ok := v.FieldDeep("Name"); ok {
					v = nm
				}
			}
			okv, why := false, "the name returned is "+v.String()
			if v.K == symChoice && len(v.Parts) == 2 {
				// one alternative indexes the alphabet under `i < len(alphabet)`, the other is the non-empty fallback text
				var idxAlt, fbAlt *Sym
				var idxCond string
				for i, part := range v.Parts {
					if part.K == symIndex {
						idxAlt, idxCond = part, v.Alts[i]
					} else {
						fbAlt = part
					}
				}
				if idxAlt != nil && fbAlt != nil {
					wantCond := "(" + idxAlt.Y.String() + " < len(" + idxAlt.X.String() + "))"
					fbOK := false
					if fbAlt.K == symConcat && len(fbAlt.Parts) >= 2 {
						if c0, ok := fbAlt.Parts[0].ConstString(); ok && c0 != "" {
							fbOK = true
						}
					}
					switch {
					case idxCond != wantCond:
						why = "the alphabet is indexed under the condition " + idxCond + ", not " + wantCond + ": at the boundary the index is out of range (the request fails) or a letter is skipped"
					case !fbOK:
						why = "past the alphabet the generator returns " + fbAlt.String() + ", not a non-empty prefix followed by the counter: variables beyond the alphabet get an empty or constant name"
					default:
						okv = true
					}
				}
			}
			r.Check(okv, "C07.H10", key, p.Pos(fd.Pos()), "alphabet[i] while i < len(alphabet), then <prefix><counter>", why)
		}
	}
	if found == 0 {
		r.Unknown("C07.H10", "variable-generator", "", "no method that indexes an alphabet of names was found in the profile package")
	}
}
