package main

import (
	"fmt"
	"go/ast"
	"go/token"
	"go/types"
	"golang.org/x/tools/go/ssa"
	"strings"

	rast "github.com/open-policy-agent/opa/ast"
	"golang.org/x/tools/go/packages"
)

func init() { register("C14", checkC14) }

// constKeyIndex: e is `X["<const>"]` (possibly behind a type assertion / parentheses); returns the key.
func constKeyIndex(info *types.Info, e ast.Expr) (string, bool) {
	e = ast.Unparen(e)
	if ta, ok := e.(*ast.TypeAssertExpr); ok {
		e = ast.Unparen(ta.X)
	}
	if st, ok := e.(*ast.StarExpr); ok {
		e = st.X
	}
	ix, ok := e.(*ast.IndexExpr)
	if !ok {
		return "", false
	}
	return constString(info, ix.Index)
}

// localDef finds the single assignment `id := <expr>` / `id = <expr>` of a local identifier in a function body.
func localDef(info *types.Info, body *ast.BlockStmt, obj types.Object) ast.Expr {
	var def ast.Expr
	n := 0
	ast.Inspect(body, func(node ast.Node) bool {
		as, ok := node.(*ast.AssignStmt)
		if !ok {
			return true
		}
		for i, lhs := range as.Lhs {
			id, ok := lhs.(*ast.Ident)
			if !ok || (info.Defs[id] != obj && info.Uses[id] != obj) {
				continue
			}
			n++
			if len(as.Rhs) == len(as.Lhs) {
				def = as.Rhs[i]
			} else if len(as.Rhs) == 1 {
				def = as.Rhs[0]
			}
		}
		return true
	})
	if n != 1 {
		return nil
	}
	return def
}

func checkC14(c *Ctx) {
	r, p := c.R, c.P
	r.Explanation = "Decides that locations are copied, never computed, on both sides of the lexical index. Go side (K1): the entry stored for a node is {range: the sourcemaps#value of the lexical entry, unchanged; uri: Location(id)} under the key id, where the key, the membership test against the node index and the argument of Location are one and the same sourcemaps#element value; the store is conditional on that membership test and on nothing else, and every SourceMap node and every entry of its lexical container is visited unconditionally. (K2) Location returns the per-element file when one is recorded and the root location otherwise; the per-element table maps each element id listed by an additional location to that location node's own doc#location; every multi-valued JSON-LD property of the normaliser (lexical, additionalLocations, elements) is read through the single-or-array helper, never through a bare []any assertion (a one-element array is compacted to a single object). Rego side (K3): in the parsed location() helper the four numbers are to_number(range_parts[i]) for i = 0..3 assigned to start.line, start.column, end.line, end.column in that order with no arithmetic, range_parts are the first four digit runs of the stored range, uri is the stored uri, and the entry is looked up under the focus node's @id. (K4) error() and trace() each have exactly two variants guarded by location(x) / not location(x) on the same argument; the first carries the location it computed, the second has no location key and is otherwise identical."
	r.Declines = []string{"regex.find_n on range strings that do not have AMF's [(l,c)-(l,c)] shape", "AMF's own correctness of source maps"}
	r.Trusted = []string{"OPA builtins to_number, regex.find_n, object access behave as documented"}
	r.Rule("C14.K1", "lexical index: values copied; one id for key, membership test and file lookup; unconditional coverage", 5)
	r.Rule("C14.K2", "file lookup: per-element file else root location; multi-valued properties read through the single-or-array helper", 4)
	r.Rule("C14.K3", "Rego location(): four numbers in order, no arithmetic; uri and range taken from the index entry of the focus node", 6)
	r.Rule("C14.K4", "error()/trace(): two complementary variants, location present exactly in the first", 4)

	pk := p.Pkg("internal/validator")
	if pk == nil {
		r.Unknown("C14.K1", "package", "", "internal/validator not found")
		return
	}
	c14Go(c, pk)
	c14Rego(c)
	c14NoPartialIndex(c)
	c14TraceNode(c)
}

// K6: a trace is located through its trace node. Custom Rego may name another node with the $traceNode placeholder; the
// generator must then report the variable it substituted for the placeholder as the trace node whenever the placeholder
// occurs at all, and the focus variable otherwise. Decided on the value of the result's TraceNode field (E-sym): it is a
// choice on exactly `strings.Contains(<code>, "$traceNode")`.
func c14TraceNode(c *Ctx) {
	r, p := c.R, c.P
	r.Rule("C14.K6", "custom Rego: the trace node is the substituted $traceNode variable exactly when the placeholder occurs", 1)
	gen := p.Pkg("internal/generator")
	if gen == nil {
		return
	}
	found := 0
	for _, f := range gen.Syntax {
		for _, d := range f.Decls {
			fd, ok := d.(*ast.FuncDecl)
			if !ok || fd.Body == nil {
				continue
			}
			mentions := false
			ast.Inspect(fd.Body, func(n ast.Node) bool {
				if bl, ok := n.(*ast.BasicLit); ok && strings.Contains(bl.Value, "$traceNode") {
					mentions = true
				}
				return true
			})
			if !mentions {
				continue
			}
			key := relOf(gen) + "." + fd.Name.Name
			var replaced *Sym
			var traceVals []*Sym
			proto := &symWalker{}
			proto.OnCall = func(w *symWalker, call *ast.CallExpr, fn types.Object, args []*Sym, result *Sym) {
				if funcFullName(fn) == "strings.ReplaceAll" && len(args) == 3 {
					if needle, ok := args[1].ConstString(); ok && needle == "$traceNode" {
						replaced = args[2]
					}
				}
			}
			proto.OnStore = func(w *symWalker, at ast.Node, target *Sym, k *Sym, v *Sym) {}
			proto.OnReturn = func(w *symWalker, ret *ast.ReturnStmt, results []*Sym) {
				for _, res := range results {
					res.Walk(func(s *Sym) {
						if s.K == symStruct {
							if tn, ok := s.Fields["TraceNode"]; ok {
								traceVals = append(traceVals, tn)
							}
						}
					})
				}
			}
			p.SymWalk(gen, fd, proto, nil)
			if replaced == nil || len(traceVals) == 0 {
				r.Unknown("C14.K6", key, p.Pos(fd.Pos()), "the substitution of $traceNode or the TraceNode of the result was not recognised")
				continue
			}
			found++
			tn := traceVals[0]
			okv := false
			why := "the TraceNode of the result is " + tn.String()
			if tn.K == symChoice && len(tn.Parts) == 2 {
				cond := tn.Alts[0]
				isContains := strings.HasPrefix(cond, "strings.Contains(") && strings.HasSuffix(cond, `,"$traceNode")`)
				if isContains && tn.Parts[0].String() == replaced.String() && tn.Parts[1].K == symField {
					okv = true
				} else if !isContains {
					why = "the trace node switches to the substituted variable under the condition " + cond + ", not exactly when the code mentions $traceNode: a form of binding the condition does not recognise (`:=`, `x = $traceNode`) leaves the trace on the focus node and the trace carries the wrong node's location"
				}
			}
			r.Check(okv, "C14.K6", key, p.Pos(fd.Pos()), "TraceNode = substituted variable if strings.Contains(code, \"$traceNode\") else the focus variable", why)
		}
	}
	if found == 0 {
		r.Unknown("C14.K6", "custom-rego-generator", "", "no generator function mentioning $traceNode was evaluated")
	}
}

// K5: the lexical index is all or nothing. A recover() that swallows a panic while the index is being built (and lets the
// function return what it has so far) silently drops the locations of every source map visited after the bad one.
func c14NoPartialIndex(c *Ctx) {
	r, p := c.R, c.P
	r.Rule("C14.K5", "no panic is swallowed while the lexical index is built (a partial index loses locations silently)", 1)
	// the functions that build the index: those of internal/validator from which a store under "@lexical" or a map literal
	// with the keys range and uri is reachable
	var seeds []*ssa.Function
	for _, fn := range p.ModuleFuncs() {
		if RelPkg(fn) != "internal/validator" {
			continue
		}
		hasRange, hasURI := false, false
		for _, b := range fn.Blocks {
			for _, ins := range b.Instrs {
				if mu, ok := ins.(*ssa.MapUpdate); ok {
					if k, ok := constStringOf(mu.Key); ok {
						if k == "range" {
							hasRange = true
						}
						if k == "uri" {
							hasURI = true
						}
					}
				}
			}
		}
		if hasRange && hasURI {
			seeds = append(seeds, fn)
		}
	}
	if len(seeds) == 0 {
		r.Unknown("C14.K5", "entry-builder", "", "no function storing a {range, uri} entry found")
		return
	}
	// backwards closure inside the package
	builders := map[*ssa.Function]bool{}
	for _, s := range seeds {
		builders[s] = true
	}
	changed := true
	for changed {
		changed = false
		for _, fn := range p.ModuleFuncs() {
			if builders[fn] || RelPkg(fn) != "internal/validator" {
				continue
			}
			for _, callee := range p.ModuleCallees(fn) {
				if builders[callee] {
					builders[fn] = true
					changed = true
					break
				}
			}
		}
	}
	swallow := 0
	for _, fn := range sortedFuncs(builders) {
		for _, b := range fn.Blocks {
			for _, ins := range b.Instrs {
				d, ok := ins.(*ssa.Defer)
				if !ok {
					continue
				}
				callee := d.Call.StaticCallee()
				if callee == nil {
					if mc, ok := d.Call.Value.(*ssa.MakeClosure); ok {
						callee, _ = mc.Fn.(*ssa.Function)
					}
				}
				if callee == nil || callee.Blocks == nil || !callsRecoverDirectly(callee) {
					continue
				}
				if !assignsErrorOnRecover(callee) {
					swallow++
					r.Bad("C14.K5", FuncKey(fn)+"#swallowed-panic", p.Pos(d.Pos()), "a deferred recover() here discards the panic and lets the function return the index built so far: every source map after the malformed one has no entry, and results about those nodes lose their location without any error")
				}
			}
		}
	}
	if swallow == 0 {
		r.OK("C14.K5", "census", "", fmt.Sprintf("%d functions build or carry the lexical index: none recovers without reporting an error", len(builders)))
	}
}

func c14Go(c *Ctx, pk *packages.Package) {
	r, p := c.R, c.P
	info := pk.TypesInfo
	// the entry builder: function containing a map literal with keys "range" and "uri"
	var entryFn *ast.FuncDecl
	var entryLit *ast.CompositeLit
	var storeStmt *ast.AssignStmt
	for _, f := range pk.Syntax {
		for _, d := range f.Decls {
			fd, ok := d.(*ast.FuncDecl)
			if !ok || fd.Body == nil {
				continue
			}
			ast.Inspect(fd.Body, func(n ast.Node) bool {
				as, ok := n.(*ast.AssignStmt)
				if !ok || len(as.Rhs) != 1 {
					return true
				}
				cl, ok := ast.Unparen(as.Rhs[0]).(*ast.CompositeLit)
				if !ok {
					return true
				}
				if compositeKeyValue(info, cl, "range") != nil && compositeKeyValue(info, cl, "uri") != nil {
					entryFn, entryLit, storeStmt = fd, cl, as
				}
				return true
			})
		}
	}
	if entryFn == nil {
		r.Unknown("C14.K1", "entry-builder", "", "no map literal with the keys range and uri found in internal/validator")
		return
	}
	key := relOf(pk) + "." + entryFn.Name.Name
	// id: the key of the store
	ix, _ := storeStmt.Lhs[0].(*ast.IndexExpr)
	var idObj types.Object
	if ix != nil {
		if id, ok := ast.Unparen(ix.Index).(*ast.Ident); ok {
			idObj = info.Uses[id]
		}
	}
	if idObj == nil {
		r.Unknown("C14.K1", key+"#key", p.Pos(storeStmt.Pos()), "the lexical index is not stored under a local identifier")
		return
	}
	idDef := localDef(info, entryFn.Body, idObj)
	k, ok := constKeyIndex(info, idDef)
	r.Check(ok && strings.HasSuffix(k, "#element"), "C14.K1", key+"#key", p.Pos(storeStmt.Pos()), "the index key is the entry's sourcemaps#element", "the index key is not the entry's sourcemaps#element value read unchanged")
	// range value
	rv := compositeKeyValue(info, entryLit, "range")
	okRange := false
	if id, isID := ast.Unparen(rv).(*ast.Ident); isID {
		def := localDef(info, entryFn.Body, info.Uses[id])
		if kk, ok := constKeyIndex(info, def); ok && strings.HasSuffix(kk, "#value") {
			if _, isCall := ast.Unparen(def).(*ast.CallExpr); !isCall {
				okRange = true
			}
		}
	} else if kk, ok := constKeyIndex(info, rv); ok && strings.HasSuffix(kk, "#value") {
		okRange = true
	}
	r.Check(okRange, "C14.K1", key+"#range", p.Pos(rv.Pos()), "range is the entry's sourcemaps#value, copied", "the stored range is not the entry's sourcemaps#value copied unchanged: "+types.ExprString(rv))
	// uri value: <x>.Location(id)
	uv := compositeKeyValue(info, entryLit, "uri")
	okURI := false
	var locMethod *types.Func
	if call, isCall := ast.Unparen(uv).(*ast.CallExpr); isCall && len(call.Args) == 1 {
		if aid, isID := ast.Unparen(call.Args[0]).(*ast.Ident); isID && info.Uses[aid] == idObj {
			if f, isF := calleeOf(info, call).(*types.Func); isF && f.Pkg() == pk.Types {
				okURI = true
				locMethod = f
			}
		}
	}
	r.Check(okURI, "C14.K1", key+"#uri", p.Pos(uv.Pos()), "uri is the file lookup for the same id", "the stored uri is not the file lookup applied to the same element id: "+types.ExprString(uv))
	// guard: the store is inside exactly one if, whose condition is the comma-ok of nodeIndex[id]
	var guards []*ast.IfStmt
	ast.Inspect(entryFn.Body, func(n ast.Node) bool {
		ifs, ok := n.(*ast.IfStmt)
		if ok && ifs.Body.Pos() <= storeStmt.Pos() && storeStmt.End() <= ifs.Body.End() {
			guards = append(guards, ifs)
		}
		return true
	})
	okGuard, why := false, fmt.Sprintf("%d enclosing conditions", len(guards))
	if len(guards) == 1 {
		g := guards[0]
		if as, isAs := g.Init.(*ast.AssignStmt); isAs && len(as.Lhs) == 2 && len(as.Rhs) == 1 {
			if gix, isIx := ast.Unparen(as.Rhs[0]).(*ast.IndexExpr); isIx {
				if gid, isID := ast.Unparen(gix.Index).(*ast.Ident); isID && info.Uses[gid] == idObj {
					if cid, isID := ast.Unparen(g.Cond).(*ast.Ident); isID {
						if okID, isID2 := as.Lhs[1].(*ast.Ident); isID2 && info.Uses[cid] == info.Defs[okID] {
							okGuard = true
						}
					}
				}
			}
		}
		if !okGuard {
			why = "the condition is `" + types.ExprString(g.Cond) + "`"
		}
	}
	r.Check(okGuard, "C14.K1", key+"#guard", p.Pos(storeStmt.Pos()), "the entry is stored exactly when its element is a node id", "the entry is not stored exactly when its element is a node id ("+why+"): nodes with a lexical entry lose their location, or property-level entries are indexed")
	// unconditional coverage: calls of entryFn are not nested in an if (inside their loop / closure)
	callsSeen := 0
	for _, f := range pk.Syntax {
		for _, d := range f.Decls {
			fd, ok := d.(*ast.FuncDecl)
			if !ok || fd.Body == nil {
				continue
			}
			var stack []ast.Node
			ast.Inspect(fd.Body, func(n ast.Node) bool {
				if n == nil {
					stack = stack[:len(stack)-1]
					return true
				}
				stack = append(stack, n)
				call, ok := n.(*ast.CallExpr)
				if !ok {
					return true
				}
				if f, ok := calleeOf(info, call).(*types.Func); !ok || f.Name() != entryFn.Name.Name || f.Pkg() != pk.Types {
					return true
				}
				callsSeen++
				cond := ""
				for _, anc := range stack {
					if ifs, ok := anc.(*ast.IfStmt); ok {
						cond = types.ExprString(ifs.Cond)
					}
					if sw, ok := anc.(*ast.SwitchStmt); ok && sw.Tag != nil {
						cond = "switch " + types.ExprString(sw.Tag)
					}
				}
				r.Check(cond == "", "C14.K1", relOf(pk)+"."+fd.Name.Name+"#visits-every-entry", p.Pos(call.Pos()), "every lexical entry of every source map is offered to the index", "lexical entries are only indexed under the condition `"+cond+"`")
				// the loop feeding it ranges over classIndex[...#SourceMap]
				for _, anc := range stack {
					if rs, ok := anc.(*ast.RangeStmt); ok {
						kk, ok := constKeyIndex(info, rs.X)
						r.Check(ok && strings.HasSuffix(kk, "#SourceMap"), "C14.K1", relOf(pk)+"."+fd.Name.Name+"#source-map-loop", p.Pos(rs.Pos()), "the loop visits every node of class SourceMap", "the loop feeding the lexical index does not range over the SourceMap class index")
					}
				}
				return true
			})
		}
	}
	if callsSeen == 0 {
		r.Unknown("C14.K1", "entry-calls", "", "no call of the entry builder found")
	}

	// ---- K2: Location method
	if locMethod != nil {
		name := locMethod.Name()
		if rt := recvTypeName(locMethod); rt != "" {
			name = rt + "." + name
		}
		fd, lpk := p.FuncDecl("internal/validator", name)
		okLoc, whyLoc := false, "the file lookup could not be evaluated"
		if fd != nil && fd.Body != nil && lpk != nil {
			// decided on the values the method returns (E-sym): the table entry of exactly the id it was asked about, or
			// the default location; nothing computed from the id, no search for similar ids
			idPrm := firstParamObj(lpk.TypesInfo, fd)
			var recvObj types.Object
			if fd.Recv != nil && len(fd.Recv.List) == 1 && len(fd.Recv.List[0].Names) == 1 {
				recvObj = lpk.TypesInfo.Defs[fd.Recv.List[0].Names[0]]
			}
			hits, defaults := 0, 0
			var problems []string
			proto := &symWalker{Inline: samePkgInline(lpk)}
			proto.OnReturn = func(w *symWalker, ret *ast.ReturnStmt, results []*Sym) {
				if w.depth != 0 || len(results) != 1 {
					return
				}
				v := results[0]
				ofRecv := func(x *Sym) bool {
					return x != nil && x.K == symField && x.X != nil && x.X.K == symVar && x.X.Obj == recvObj
				}
				switch {
				case len(w.Loops()) > 0:
					problems = append(problems, "a value is returned from inside a loop ("+shortFormat(v.String())+"): the lookup searches instead of reading the entry of the id it was given")
				case v.K == symIndex && ofRecv(v.X) && v.Y != nil && v.Y.K == symVar && v.Y.Obj == idPrm:
					hits++
				case ofRecv(v):
					defaults++
				default:
					problems = append(problems, "the method returns "+shortFormat(v.String())+", which is neither the table entry of the id it was given nor the default location")
				}
			}
			p.SymWalk(lpk, fd, proto, nil)
			switch {
			case len(problems) > 0:
				whyLoc = strings.Join(problems, "; ")
			case hits == 0 || defaults == 0:
				whyLoc = fmt.Sprintf("the method has %d return(s) of the recorded file and %d of the default location: both are needed", hits, defaults)
			default:
				okLoc = true
			}
		}
		r.Check(okLoc, "C14.K2", "internal/validator."+name, "", "returns the file recorded for exactly the id asked about, the default location otherwise", "the file lookup is not `the entry recorded for this id, else the root location`: "+whyLoc)
	}
	// default location = doc#rootLocation; per-element file = that location node's doc#location
	rootOK, locOK := false, false
	for _, f := range pk.Syntax {
		ast.Inspect(f, func(n ast.Node) bool {
			switch x := n.(type) {
			case *ast.KeyValueExpr:
				if id, ok := x.Key.(*ast.Ident); ok && id.Name == "DefaultLocation" {
					if vid, ok := ast.Unparen(x.Value).(*ast.Ident); ok {
						if fd := enclosingDecl(pk, x.Pos()); fd != nil {
							if kk, ok := constKeyIndex(info, localDef(info, fd.Body, info.Uses[vid])); ok && strings.HasSuffix(kk, "#rootLocation") {
								rootOK = true
							}
						}
					}
				}
			case *ast.AssignStmt:
				// (*idToLocation)[<elem id>] = locationValue
				if len(x.Lhs) == 1 && len(x.Rhs) == 1 {
					if _, ok := x.Lhs[0].(*ast.IndexExpr); ok {
						if vid, ok := ast.Unparen(x.Rhs[0]).(*ast.Ident); ok {
							if fd := enclosingDecl(pk, x.Pos()); fd != nil {
								if kk, ok := constKeyIndex(info, localDef(info, fd.Body, info.Uses[vid])); ok && strings.HasSuffix(kk, "document#location") {
									locOK = true
								}
							}
						}
					}
				}
			}
			return true
		})
	}
	r.Check(rootOK, "C14.K2", "default-location", "", "the default location is the source information's doc#rootLocation", "the default location is not read from doc#rootLocation")
	r.Check(locOK, "C14.K2", "element-location", "", "each listed element id is mapped to its location node's doc#location", "element ids are not mapped to their own location node's doc#location")
	// multi-valued properties: no bare []any assertion / range on an IRI-keyed property value
	bare := 0
	for _, f := range pk.Syntax {
		if !strings.HasSuffix(p.Fset.Position(f.Pos()).Filename, "normalizer.go") {
			continue
		}
		ast.Inspect(f, func(n ast.Node) bool {
			var target ast.Expr
			switch x := n.(type) {
			case *ast.TypeAssertExpr:
				if x.Type == nil {
					return true
				}
				if tv, ok := info.Types[x.Type]; ok {
					if _, isSlice := tv.Type.Underlying().(*types.Slice); isSlice {
						target = x.X
					}
				}
			case *ast.RangeStmt:
				target = x.X
			}
			if target == nil {
				return true
			}
			var kk string
			if id, ok := ast.Unparen(target).(*ast.Ident); ok {
				if fd := enclosingDecl(pk, target.Pos()); fd != nil {
					kk, _ = constKeyIndex(info, localDef(info, fd.Body, info.Uses[id]))
				}
			} else {
				kk, _ = constKeyIndex(info, target)
			}
			// only values read out of a JSON-LD node (map[string]any) can be single-or-array; the class index built by
			// the normaliser itself is a Go map of slices
			if strings.HasPrefix(kk, "http") && !jsonNodeIndex(info, pk, target) {
				return true
			}
			if strings.HasPrefix(kk, "http") {
				bare++
				r.Bad("C14.K2", relOf(pk)+"."+enclosingFuncName(pk, target.Pos())+"#bare-array:"+kk[strings.LastIndexAny(kk, "#/")+1:], p.Pos(target.Pos()), "the value of "+kk+" is treated as an array directly: JSON-LD compaction turns a one-element array into a single object, which is then silently skipped")
			}
			return true
		})
	}
	if bare == 0 {
		r.OK("C14.K2", "multi-valued-properties", "", "no property value of the normaliser is asserted or ranged as an array directly; they go through the single-or-array helper")
	}
}

func compositeKeyValue(info *types.Info, cl *ast.CompositeLit, key string) ast.Expr {
	for _, el := range cl.Elts {
		if kv, ok := el.(*ast.KeyValueExpr); ok {
			if s, ok := constString(info, kv.Key); ok && s == key {
				return kv.Value
			}
		}
	}
	return nil
}

func enclosingDecl(pk *packages.Package, pos token.Pos) *ast.FuncDecl {
	for _, f := range pk.Syntax {
		if pos < f.Pos() || pos > f.End() {
			continue
		}
		for _, d := range f.Decls {
			if fd, ok := d.(*ast.FuncDecl); ok && fd.Body != nil && fd.Pos() <= pos && pos <= fd.End() {
				return fd
			}
		}
	}
	return nil
}

// ---- Rego side
func c14Rego(c *Ctx) {
	r := c.R
	rp, err := loadPreamble(c.P)
	if err != nil {
		r.Unknown("C14.K3", "preamble", "", err.Error())
		return
	}
	locs := rp.rulesNamed("location")
	if len(locs) != 1 {
		r.Unknown("C14.K3", "location()", "", fmt.Sprintf("%d location rules in the preamble, expected one", len(locs)))
		return
	}
	loc := locs[0]
	as := bodyAssignments(loc.Body)
	val := map[string]*rast.Term{}
	for _, a := range as {
		val[a.Var] = a.Term
	}
	argName := ""
	if len(loc.Head.Args) == 1 {
		argName = refHeadName(loc.Head.Args[0])
	}
	// id := focusNode["@id"]
	idVar := ""
	for v, t := range val {
		if pth := refPath(t); len(pth) == 2 && pth[0] == argName && pth[1] == "@id" {
			idVar = v
		}
	}
	r.Check(idVar != "", "C14.K3", "location#id", "", "the entry is looked up under the focus node's @id", "location() does not take the id from its argument's @id")
	// location := input["@lexical"][id]
	entryVar := ""
	for v, t := range val {
		if pth := refPath(t); len(pth) == 3 && pth[0] == "input" && pth[1] == "@lexical" && pth[2] == "$"+idVar {
			entryVar = v
		}
	}
	r.Check(entryVar != "", "C14.K3", "location#entry", "", `the entry is input["@lexical"][id]`, `location() does not read input["@lexical"][<focus id>]`)
	rawVar, uriVar := "", ""
	for v, t := range val {
		if pth := refPath(t); len(pth) == 2 && pth[0] == entryVar {
			switch pth[1] {
			case "range":
				rawVar = v
			case "uri":
				uriVar = v
			}
		}
	}
	// range_parts := regex.find_n("\\d+", raw, 4)
	partsVar := ""
	for v, t := range val {
		if name, args := callName(t); name == "regex.find_n" && len(args) == 3 {
			pat, _ := args[0].Value.(rast.String)
			n, _ := args[2].Value.(rast.Number)
			if string(pat) == `\d+` && refHeadName(args[1]) == rawVar && rawVar != "" && n.String() == "4" {
				partsVar = v
			}
		}
	}
	r.Check(partsVar != "", "C14.K3", "location#parts", "", `the numbers are the first four digit runs of the stored range`, `location() does not extract regex.find_n("\\d+", <stored range>, 4)`)
	// the result object
	resVar := ""
	if loc.Head.Value != nil {
		resVar = refHeadName(loc.Head.Value)
	}
	res := val[resVar]
	if res == nil {
		r.Unknown("C14.K3", "location#result", "", "the value returned by location() is not a local object")
		return
	}
	uri := objectGet(res, "uri")
	r.Check(uri != nil && refHeadName(uri) == uriVar && uriVar != "", "C14.K3", "location#uri", "", "uri is the stored uri", "the uri of the location is not the uri stored in the lexical index entry")
	rng := objectGet(res, "range")
	if rng != nil {
		if v, ok := rng.Value.(rast.Var); ok {
			rng = val[string(v)]
		}
	}
	want := []struct {
		outer, inner string
		idx          string
	}{{"start", "line", "0"}, {"start", "column", "1"}, {"end", "line", "2"}, {"end", "column", "3"}}
	for _, w := range want {
		k := "location#" + w.outer + "." + w.inner
		ok := false
		why := "missing"
		if rng != nil {
			if o := objectGet(rng, w.outer); o != nil {
				if t := objectGet(o, w.inner); t != nil {
					name, args := callName(t)
					if name == "to_number" && len(args) == 1 {
						pth := refPath(args[0])
						if len(pth) == 2 && pth[0] == partsVar && pth[1] == w.idx {
							ok = true
						} else {
							why = "is " + t.String()
						}
					} else {
						why = "is " + t.String()
					}
				}
			}
		}
		r.Check(ok, "C14.K3", k, "", fmt.Sprintf("%s.%s = to_number(parts[%s])", w.outer, w.inner, w.idx), fmt.Sprintf("%s.%s %s, expected to_number(<parts>[%s]) with no arithmetic", w.outer, w.inner, why, w.idx))
	}

	// ---- K4
	resultConstructorVariants(c, rp, "C14.K4")
}

// resultConstructorVariants: error() and trace() are total. Each has exactly two clauses guarded by location(x) /
// not location(x) on the same parameter, so exactly one fires for every node; the located clause adds the computed
// location and nothing else differs. (C14.K4; also a necessary condition of C01: where neither clause fires the rule
// body is undefined and a failing node is silently not reported.)
func resultConstructorVariants(c *Ctx, rp *regoPreamble, rid string) {
	r := c.R
	for _, name := range []string{"error", "trace"} {
		rules := rp.rulesNamed(name)
		if len(rules) != 2 {
			r.Bad(rid, name+"()", "", fmt.Sprintf("%d variants of %s(), expected two (with and without location)", len(rules), name))
			continue
		}
		var with, without *rast.Rule
		for _, rl := range rules {
			neg := false
			for _, e := range rl.Body {
				if e.Negated && e.IsCall() && e.Operator().String() == "location" {
					neg = true
				}
			}
			if neg {
				without = rl
			} else {
				with = rl
			}
		}
		if with == nil || without == nil {
			r.Bad(rid, name+"()", "", "the two variants of "+name+"() are not guarded by location(x) / not location(x)")
			continue
		}
		// same guard argument: the focus node parameter in both
		guardArg := func(rl *rast.Rule) string {
			out := ""
			rast.WalkTerms(rl.Body, func(t *rast.Term) bool {
				if n, args := callName(t); n == "location" && len(args) == 1 {
					out = refHeadName(args[0])
				}
				return false
			})
			for _, e := range rl.Body {
				if e.IsCall() && e.Operator().String() == "location" && len(e.Operands()) >= 1 {
					out = refHeadName(e.Operands()[0])
				}
			}
			return out
		}
		ga, gb := guardArg(with), guardArg(without)
		focusIdx := func(rl *rast.Rule, v string) int {
			for i, a := range rl.Head.Args {
				if refHeadName(a) == v {
					return i
				}
			}
			return -1
		}
		sameArg := ga != "" && gb != "" && focusIdx(with, ga) == focusIdx(without, gb) && focusIdx(with, ga) >= 0
		r.Check(sameArg, rid, name+"#guard", "", "both variants test location() of the same parameter: exactly one fires", fmt.Sprintf("the variants of %s() test location() of different arguments (%q / %q): both or neither may fire", name, ga, gb))
		objOf := func(rl *rast.Rule) *rast.Term {
			v := refHeadName(rl.Head.Value)
			for _, a := range bodyAssignments(rl.Body) {
				if a.Var == v {
					return a.Term
				}
			}
			return nil
		}
		ow, on := objOf(with), objOf(without)
		if ow == nil || on == nil {
			r.Unknown(rid, name+"#objects", "", "the constructed objects were not found")
			continue
		}
		kw, kn := objectKeys(ow), objectKeys(on)
		hasLoc := false
		var rest []string
		for _, k := range kw {
			if k == "location" {
				hasLoc = true
			} else {
				rest = append(rest, k)
			}
		}
		okKeys := hasLoc && joinSorted(rest) == joinSorted(kn)
		// the location value is the one computed by location(<focus>)
		locTerm := objectGet(ow, "location")
		locOK := false
		if locTerm != nil {
			lv := refHeadName(locTerm)
			for _, a := range bodyAssignments(with.Body) {
				if a.Var == lv {
					if n, args := callName(a.Term); n == "location" && len(args) == 1 && refHeadName(args[0]) == ga {
						locOK = true
					}
				}
			}
		}
		r.Check(okKeys && locOK, rid, name+"#variants", "", "the located variant adds exactly the computed location; all other keys agree", fmt.Sprintf("the two variants of %s() differ in more than the location key, or the location is not the one computed for the same node (with: %v, without: %v)", name, kw, kn))
	}
}

// jsonNodeIndex: the (definition of the) expression indexes a map whose element type is an interface (a JSON node).
func jsonNodeIndex(info *types.Info, pk *packages.Package, e ast.Expr) bool {
	e = ast.Unparen(e)
	if id, ok := e.(*ast.Ident); ok {
		if fd := enclosingDecl(pk, e.Pos()); fd != nil {
			if def := localDef(info, fd.Body, info.Uses[id]); def != nil {
				e = ast.Unparen(def)
			}
		}
	}
	if ta, ok := e.(*ast.TypeAssertExpr); ok {
		e = ast.Unparen(ta.X)
	}
	ix, ok := e.(*ast.IndexExpr)
	if !ok {
		return false
	}
	tv, ok := info.Types[ix.X]
	if !ok {
		return false
	}
	m, ok := tv.Type.Underlying().(*types.Map)
	if !ok {
		return false
	}
	_, isIface := m.Elem().Underlying().(*types.Interface)
	return isIface
}
