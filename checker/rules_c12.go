package main

import (
	"fmt"
	"go/ast"
	"go/token"
	"go/types"
	"regexp"
	"sort"
	"strconv"
	"strings"

	rast "github.com/open-policy-agent/opa/ast"
	"golang.org/x/tools/go/ssa"
)

func init() { register("C12", checkC12) }

func checkC12(c *Ctx) {
	r, p := c.R, c.P
	r.Explanation = "Decides the structural conditions of a well-formed report. (J1) Id scheme: the recursive id assignment names a child held under key k `parent_k` and the i-th element of an array `parent_i`, recurses into every typed object and every element of every array, and assigns an id to every typed node it reaches; this scheme is injective when no node constructor has a purely numeric key and at most one key whose value is an array of typed nodes - checked on every node constructor: the object literals of error(), trace() and location() in the embedded Rego and the trace-value templates of the generator; the roots are `<level>_<ordinal>` per bucket (C03.L4) and every bucket element is appended to the result list (no indexed writes, no gaps). (J2) Node shape: both variants of error() carry @type, sourceShapeName, focusNode, resultMessage and trace; both variants of trace() carry @type, component, resultPath and traceValue; every trace-value template starts with the typed-node header. (J3) Focus node: in error() the focusNode value is the @id of the node argument; at every error(...) call template of the generator the node argument is the variable bound by the target_class line (top level) or by the iteration over the nested node set (nested), i.e. a node of the input graph; the trace list argument is the non-empty list of the branch's trace bindings. (J4) The first argument of error(...) is the validation's name (as a string literal) or the constant `nested`. (J5) Envelope and encoding: the dialect instance is a one-element list whose doc:encodes is a one-element list holding the report node; the report text is the output of encoding/json's encoder, returned without any textual post-processing. (J7) Every atomic rule kind's Negate returns a value whose Name is the receiver's (negation normal form rebuilds rules through Negate; the trace's component is the rule's Name). (J6) The encoder's error is examined by the encoding function and by its callers (the evaluation can hand back json.Number values that are not JSON numbers, e.g. to_number(\"03\"); dropping the error returns an empty document as the report). Does not decide non-emptiness for degenerate profiles (message: \"\", or: [])."
	r.Declines = []string{"encoding/json produces valid JSON for the value it is given", "non-empty message / trace for degenerate profiles (empty message text, empty operand lists)"}
	r.Trusted = []string{"encoding/json", "OPA object literals evaluate to objects with exactly the written keys"}
	r.Rule("C12.J1", "ids: parent_key / parent_index, recursion into all typed children, constructors admit an injective scheme, results appended without gaps", 8)
	r.Rule("C12.J2", "result and trace nodes carry all required keys in both variants; trace values are typed nodes", 4)
	r.Rule("C12.J3", "focusNode is the @id of a node variable bound from the input graph; trace list is the branch's bindings", 4)
	r.Rule("C12.J4", "sourceShapeName is the validation name or `nested`", 2)
	r.Rule("C12.J7", "negating a constraint keeps its component name (the trace names the failed component also under not / if)", 8)
	r.Rule("C12.J6", "the JSON encoder's error is never dropped: an unencodable report is an error, not an empty document", 1)
	r.Rule("C12.J5", "one dialect instance encoding one report node; JSON text is the encoder's output untouched", 3)

	c12Ids(c)
	c12Shapes(c)
	c12Focus(c)
	c12Envelope(c)
	c12NegateKeepsName(c)
	c12TreeShape(c)
	c12NodeIndex(c)
	_ = p
}

// ---- J9: focus nodes are taken from the @ids index (the generated code looks nodes up there), so the index must hold
// exactly the nodes of the flattened input document: every entry is an element of the document's node list stored under
// its own @id. An entry invented by the indexer (a stub for a dangling link, a copy) becomes a focus node that is not a
// node of the input graph.
func c12NodeIndex(c *Ctx) {
	r, p := c.R, c.P
	r.Rule("C12.J9", "the @ids index holds exactly the nodes of the input document (described or only referred to), each under its own @id", 1)
	pk := p.Pkg("internal/validator")
	if pk == nil {
		return
	}
	// the indexer: the function whose returned map literal has the key "@ids"
	for _, f := range pk.Syntax {
		for _, d := range f.Decls {
			fd, ok := d.(*ast.FuncDecl)
			if !ok || fd.Body == nil {
				continue
			}
			has := false
			ast.Inspect(fd.Body, func(n ast.Node) bool {
				if kv, ok := n.(*ast.KeyValueExpr); ok {
					if s, ok := constString(pk.TypesInfo, kv.Key); ok && s == "@ids" {
						has = true
					}
				}
				return true
			})
			if !has {
				continue
			}
			key := relOf(pk) + "." + fd.Name.Name
			type st struct {
				target, k, v *Sym
				loops        []*Sym
				pos          token.Pos
			}
			var stores []st
			var ids *Sym
			proto := &symWalker{Inline: samePkgInline(pk)}
			proto.OnStore = func(w *symWalker, at ast.Node, target *Sym, k *Sym, v *Sym) {
				if ks, ok := k.ConstString(); ok && ks == "@ids" {
					ids = v
					return
				}
				stores = append(stores, st{target, k, v, w.Loops(), at.Pos()})
			}
			p.SymWalk(pk, fd, proto, nil)
			if ids == nil {
				r.Unknown("C12.J9", key+"#index", p.Pos(fd.Pos()), "the value stored under @ids was not found")
				continue
			}
			n := 0
			ord := ordinal{}
			for _, s := range stores {
				if s.target != ids {
					continue
				}
				n++
				okv := s.v != nil && s.v.K == symElem && s.k != nil && s.k.K == symIndex && s.k.X == s.v
				if okv {
					kk, _ := s.k.Y.ConstString()
					okv = kk == "@id"
				}
				inLoop := false
				for _, l := range s.loops {
					if s.v != nil && s.v.X == l {
						inLoop = true
					}
				}
				// a node the document only refers to: a bare node {"@id": id} stored under that very id, read from a value of the document
				if s.v != nil && s.v.K == symStruct && len(s.v.Fields) == 1 && s.k != nil {
					if idv, ok := s.v.Fields["@id"]; ok && idv.String() == s.k.String() && len(s.loops) > 0 {
						r.OK("C12.J9", ord.next(key+"#entry"), p.Pos(s.pos), "a node the document refers to, stored as a bare node under its own @id")
						continue
					}
				}
				r.Check(okv && inLoop, "C12.J9", ord.next(key+"#entry"), p.Pos(s.pos), "an element of the document's node list, stored under its own @id", "the node index receives "+s.v.String()+" under "+s.k.String()+", which is not `a node of the flattened document under its own @id`: the generated code treats every entry as a graph node, so results can name a focus node that the input graph does not contain")
			}
			if n == 0 {
				r.Unknown("C12.J9", key+"#entries", p.Pos(fd.Pos()), "no store into the @ids index was recognised")
			}
		}
	}
}

// ---- J8: ids are assigned by walking the result tree and writing @id into each node map. That is only injective when
// the structure is a tree: a node map reachable under two parents is visited twice and both occurrences end up with the
// id of the second visit. So no code on the report path may store a node it read out of the tree back into the tree.
func c12TreeShape(c *Ctx) {
	r, p := c.R, c.P
	r.Rule("C12.J8", "the report structure stays a tree: no node read from it is stored into it a second time", 1)
	var roots []*ssa.Function
	for _, fn := range p.ModuleFuncs() {
		if RelPkg(fn) != "internal/validator" {
			continue
		}
		for _, prm := range fn.Params {
			if strings.HasSuffix(prm.Type().String(), "rego.ResultSet") {
				roots = append(roots, fn)
			}
		}
	}
	if len(roots) == 0 {
		r.Unknown("C12.J8", "builder", "", "no function taking the evaluation result was found")
		return
	}
	reach := p.Reach(roots...)
	fromContainer := func(v ssa.Value) (bool, string) {
		for depth := 0; depth < 8 && v != nil; depth++ {
			switch x := v.(type) {
			case *ssa.MakeInterface:
				v = x.X
			case *ssa.ChangeInterface:
				v = x.X
			case *ssa.ChangeType:
				v = x.X
			case *ssa.TypeAssert:
				v = x.X
			case *ssa.Extract:
				switch t := x.Tuple.(type) {
				case *ssa.Lookup:
					return true, "read from " + t.X.Name()
				case *ssa.TypeAssert:
					v = t.X
				case *ssa.Next:
					return true, "an element obtained by ranging over a container"
				default:
					return false, ""
				}
			case *ssa.Lookup:
				return true, "read from " + x.X.Name()
			case *ssa.UnOp:
				if x.Op == token.MUL {
					if ia, ok := x.X.(*ssa.IndexAddr); ok {
						return true, "an element of " + ia.X.Name()
					}
				}
				return false, ""
			default:
				return false, ""
			}
		}
		return false, ""
	}
	refType := func(t types.Type) bool {
		switch u := t.Underlying().(type) {
		case *types.Map, *types.Slice, *types.Pointer:
			return true
		case *types.Interface:
			_ = u
			return true
		}
		return false
	}
	stores := 0
	for _, fn := range sortedFuncs(reach) {
		ord := ordinal{}
		for _, b := range fn.Blocks {
			for _, ins := range b.Instrs {
				mu, ok := ins.(*ssa.MapUpdate)
				if !ok {
					continue
				}
				stores++
				val := mu.Value
				// only reference-typed values can alias; strings and numbers are copied
				under := val
				for {
					if mi, ok := under.(*ssa.MakeInterface); ok {
						under = mi.X
						continue
					}
					break
				}
				if !refType(under.Type()) {
					continue
				}
				if is, why := fromContainer(val); is {
					r.Bad("C12.J8", ord.next(FuncKey(fn)+"#shared-node"), p.Pos(mu.Pos()), "a value "+why+" is stored into a map of the report: the same node is then reachable under two parents, the id assignment visits it twice and both occurrences carry the same @id (and the ids of its children)")
				}
			}
		}
	}
	r.OK("C12.J8", "census", "", fmt.Sprintf("%d map stores in %d functions on the report path: none stores a node read from a container", stores, len(reach)))
}

// ---- J7: the constraint id of a trace entry is the rule's Name; negation normal form rebuilds rules through Negate, so a
// Negate that loses the name makes every negated occurrence report an empty component
func c12NegateKeepsName(c *Ctx) {
	r, p := c.R, c.P
	m, err := loadC01Model(p)
	if err != nil {
		r.Unknown("C12.J7", "model", "", err.Error())
		return
	}
	for _, k := range m.kinds {
		if !m.atomic[k] || !hasField(k, "Name") {
			continue
		}
		key := "internal/parser/profile." + k.Obj().Name() + ".Negate#keeps-name"
		problems, _, undecided := negateCopyAnalysis(p, k)
		if undecided != "" {
			r.Unknown("C12.J7", key, "", undecided)
			continue
		}
		var nameProblems []string
		for _, pr := range problems {
			if strings.HasPrefix(pr, "Name ") || strings.Contains(pr, "does not return a copy") || strings.HasPrefix(pr, "BaseStatement ") || strings.HasPrefix(pr, "AtomicStatement ") {
				nameProblems = append(nameProblems, pr)
			}
		}
		r.Check(len(nameProblems) == 0, "C12.J7", key, "", "the negated rule carries the receiver's Name", "the negated rule does not carry the receiver's Name ("+strings.Join(nameProblems, "; ")+"): a trace entry of a negated "+k.Obj().Name()+" names no component")
	}
	// and every constructor gives the rule a name in the first place: the value it returns has a non-empty constant Name, or
	// the name it was given as a parameter
	pk := m.prof
	// base constructors that a naming constructor of the same kind wraps (newCount under newMinCount) are judged through
	// their wrappers
	ctorKind := map[types.Object]*types.Named{}
	for _, f := range pk.Syntax {
		for _, d := range f.Decls {
			if fd, ok := d.(*ast.FuncDecl); ok && fd.Body != nil && fd.Recv == nil && fd.Type.Results != nil && len(fd.Type.Results.List) == 1 {
				if tv, ok := pk.TypesInfo.Types[fd.Type.Results.List[0].Type]; ok {
					if nt := namedOf(tv.Type); nt != nil && m.atomic[nt] {
						ctorKind[pk.TypesInfo.Defs[fd.Name]] = nt
					}
				}
			}
		}
	}
	wrapped := map[types.Object]bool{}
	for _, f := range pk.Syntax {
		for _, d := range f.Decls {
			fd, ok := d.(*ast.FuncDecl)
			if !ok || fd.Body == nil {
				continue
			}
			self := pk.TypesInfo.Defs[fd.Name]
			kind, isCtor := ctorKind[self]
			if !isCtor {
				continue
			}
			ast.Inspect(fd.Body, func(n ast.Node) bool {
				if id, ok := n.(*ast.Ident); ok {
					if o := pk.TypesInfo.Uses[id]; o != nil && o != self && ctorKind[o] == kind {
						wrapped[o] = true
					}
				}
				return true
			})
		}
	}
	for _, f := range pk.Syntax {
		if strings.HasSuffix(p.Fset.Position(f.Pos()).Filename, "_test.go") || strings.HasSuffix(p.Fset.Position(f.Pos()).Filename, "test_utils.go") {
			continue
		}
		for _, d := range f.Decls {
			fd, ok := d.(*ast.FuncDecl)
			if !ok || fd.Body == nil || fd.Recv != nil || fd.Type.Results == nil || len(fd.Type.Results.List) != 1 {
				continue
			}
			tv, ok := pk.TypesInfo.Types[fd.Type.Results.List[0].Type]
			if !ok {
				continue
			}
			nt := namedOf(tv.Type)
			if nt == nil || !m.atomic[nt] || !hasField(nt, "Name") || wrapped[pk.TypesInfo.Defs[fd.Name]] {
				continue
			}
			var rets []*Sym
			proto := &symWalker{Inline: samePkgInline(pk)}
			proto.OnReturn = func(w *symWalker, ret *ast.ReturnStmt, results []*Sym) {
				if w.depth == 0 && len(results) == 1 {
					rets = append(rets, results[0])
				}
			}
			p.SymWalk(pk, fd, proto, nil)
			key := relOf(pk) + "." + fd.Name.Name + "#names-the-component"
			if len(rets) == 0 {
				continue
			}
			okAll, why := true, ""
			for _, rv := range rets {
				alts := []*Sym{rv}
				if rv.K == symChoice {
					alts = rv.Parts
				}
				for _, av := range alts {
					if av.K != symStruct {
						continue // a failed parse returns the zero value with an error; not a rule
					}
					nm, ok := av.FieldDeep("Name")
					if !ok {
						if len(av.Order) == 0 {
							continue // zero value
						}
						okAll, why = false, "the rule is built without a Name"
						continue
					}
					if c, isConst := nm.ConstString(); isConst {
						if c == "" {
							okAll, why = false, "the rule is built with an empty Name"
						}
						continue
					}
					if nm.K == symVar || nm.K == symField || nm.K == symChoice || nm.K == symCall {
						continue // the caller's name, or a name chosen by an operator table
					}
					okAll, why = false, "the Name of the rule is "+nm.String()
				}
			}
			r.Check(okAll, "C12.J7", key, p.Pos(fd.Pos()), "the constructed rule has a component name", why+": its trace entries name no component")
		}
	}
}

// ---- J1
func c12Ids(c *Ctx) {
	r, p := c.R, c.P
	pk := p.Pkg("internal/validator")
	if pk == nil {
		r.Unknown("C12.J1", "package", "", "internal/validator not found")
		return
	}
	info := pk.TypesInfo
	// the recursive id function: a function that stores "@id" into its node argument and calls itself
	var idFn *ast.FuncDecl
	for _, f := range pk.Syntax {
		for _, d := range f.Decls {
			fd, ok := d.(*ast.FuncDecl)
			if !ok || fd.Body == nil {
				continue
			}
			storesID, recursive := false, false
			ast.Inspect(fd.Body, func(n ast.Node) bool {
				switch x := n.(type) {
				case *ast.AssignStmt:
					for _, lhs := range x.Lhs {
						if ix, ok := lhs.(*ast.IndexExpr); ok {
							if s, ok := constString(info, ix.Index); ok && s == "@id" {
								storesID = true
							}
						}
					}
				case *ast.CallExpr:
					if id, ok := x.Fun.(*ast.Ident); ok && id.Name == fd.Name.Name {
						recursive = true
					}
				}
				return true
			})
			if storesID && recursive {
				idFn = fd
			}
		}
	}
	if idFn == nil {
		r.Unknown("C12.J1", "id-function", "", "no recursive function storing @id was found")
		return
	}
	key := relOf(pk) + "." + idFn.Name.Name
	// E-sym: evaluate the id function; its recursive calls (not interpreted: recursion) carry the child ids
	var params []types.Object
	for _, f := range idFn.Type.Params.List {
		for _, nm := range f.Names {
			params = append(params, info.Defs[nm])
		}
	}
	if len(params) != 2 {
		r.Unknown("C12.J1", key+"#signature", p.Pos(idFn.Pos()), "the id function does not take (node, id)")
		return
	}
	nodeP, idP := params[0].Name(), params[1].Name()
	self := info.Defs[idFn.Name]
	objOK, arrOK, objSeen, arrSeen := true, true, 0, 0
	var objWhy, arrWhy string
	idStoreOK, idStoreSeen := true, 0
	idStoreWhy := ""
	typedCond := func(cs []symCond) (bool, string) {
		// exactly: the node has an @type key
		var rest []string
		typed := false
		for _, cnd := range cs {
			s, neg := cnd.Cond, cnd.Neg
			for s != nil && s.K == symNot {
				s, neg = s.X, !neg
			}
			if s != nil && s.K == symCall && s.Fn == "result1" && len(s.Parts) == 1 && s.Parts[0].K == symIndex {
				if k, _ := s.Parts[0].Y.ConstString(); k == "@type" && !neg {
					typed = true
					continue
				}
			}
			if s != nil && s.K == symCall && s.Fn == "typeis" {
				continue
			}
			if s != nil && s.K == symCall && strings.HasPrefix(s.Fn, "result1") && !neg {
				continue // the `, ok` of a type assertion selecting the kind of child
			}
			rest = append(rest, cnd.String())
		}
		return typed && len(rest) == 0, strings.Join(rest, " && ")
	}
	proto := &symWalker{}
	proto.OnStore = func(w *symWalker, at ast.Node, target *Sym, k *Sym, val *Sym) {
		if ks, ok := k.ConstString(); !ok || ks != "@id" {
			return
		}
		idStoreSeen++
		okc, rest := typedCond(w.Conds())
		if target.String() != nodeP || val.String() != idP || !okc || len(w.Loops()) != 0 {
			idStoreOK = false
			idStoreWhy = fmt.Sprintf("@id of %s is set to %s under [%s] %s", target.String(), val.String(), condsText(w.Conds()), rest)
		}
	}
	proto.OnCall = func(w *symWalker, call *ast.CallExpr, fn types.Object, args []*Sym, result *Sym) {
		if fn != self || len(args) != 2 {
			return
		}
		loops := w.Loops()
		child, cid := args[0].String(), args[1].String()
		okc, rest := typedCond(w.Conds())
		switch {
		case len(loops) == 1 && loops[0].String() == nodeP:
			objSeen++
			want := idP + `+"_"+#` + nodeP
			if child != nodeP+"[*]" || cid != want || !okc {
				objOK = false
				objWhy = fmt.Sprintf("the child %s is named %s (expected %s) under [%s] %s", child, cid, want, condsText(w.Conds()), rest)
			}
		case len(loops) == 2 && loops[0].String() == nodeP && loops[1].String() == nodeP+"[*]":
			arrSeen++
			want := idP + `+"_"+#` + nodeP + "[*]"
			if child != nodeP+"[*][*]" || cid != want || !okc {
				arrOK = false
				arrWhy = fmt.Sprintf("the element %s is named %s (expected %s) under [%s] %s", child, cid, want, condsText(w.Conds()), rest)
			}
		default:
			objOK = false
			objWhy = "a recursive call outside `for key, value := range node` / `for index, element := range value`"
		}
	}
	p.SymWalk(pk, idFn, proto, nil)
	r.Check(objOK && objSeen == 1, "C12.J1", key+"#object-children", p.Pos(idFn.Pos()), "a child under key k is named parent_k", "object children are not named parent_key: "+objWhy)
	r.Check(arrOK && arrSeen == 1, "C12.J1", key+"#array-children", p.Pos(idFn.Pos()), "the i-th element of an array is named parent_i", "array elements are not named parent_index: "+arrWhy)
	r.Check(idStoreOK && idStoreSeen == 1, "C12.J1", key+"#id-iff-typed", p.Pos(idFn.Pos()), "the node's @id is the id it was called with, exactly when the node has an @type", "the node's own @id: "+idStoreWhy)
	r.Check(objSeen >= 1, "C12.J1", key+"#visits-all-keys", p.Pos(idFn.Pos()), "every key of a typed node is visited", "the id function does not range over all keys of the node")

	// constructors: object literals of the preamble with an @type key
	rp, err := loadPreamble(p)
	if err != nil {
		r.Unknown("C12.J1", "preamble", "", err.Error())
		return
	}
	checkCtor := func(where string, obj *rast.Term, arrayParams map[string]bool) {
		keys := objectKeys(obj)
		numeric := []string{}
		arrays := []string{}
		for _, k := range keys {
			if strings.Trim(k, "0123456789") == "" {
				numeric = append(numeric, k)
			}
			if k == "@type" {
				continue
			}
			v := objectGet(obj, k)
			if v == nil {
				continue
			}
			switch vv := v.Value.(type) {
			case *rast.Array:
				// an array literal of nodes
				typed := false
				vv.Foreach(func(t *rast.Term) {
					if _, ok := t.Value.(rast.Object); ok {
						typed = true
					}
				})
				if typed {
					arrays = append(arrays, k)
				}
			case rast.Var:
				if arrayParams[string(vv)] {
					arrays = append(arrays, k)
				}
			}
		}
		r.Check(len(numeric) == 0 && len(arrays) <= 1, "C12.J1", "constructor:"+where, "", fmt.Sprintf("keys %v: no numeric key, %d array-of-nodes key(s) %v", keys, len(arrays), arrays), fmt.Sprintf("the node constructor %s has numeric keys %v or more than one key holding an array of typed nodes %v: parent_key and parent_index ids can collide", where, numeric, arrays))
	}
	for _, name := range []string{"error", "trace", "location"} {
		for vi, rl := range rp.rulesNamed(name) {
			// parameters that receive arrays of nodes: the last parameter of error (trace log)
			arrayParams := map[string]bool{}
			if name == "error" && len(rl.Head.Args) == 4 {
				arrayParams[refHeadName(rl.Head.Args[3])] = true
			}
			for _, a := range bodyAssignments(rl.Body) {
				if _, ok := a.Term.Value.(rast.Object); ok && objectGet(a.Term, "@type") != nil {
					checkCtor(fmt.Sprintf("%s#%d:%s", name, vi+1, a.Var), a.Term, arrayParams)
					// nested typed objects (start / end of range)
					obj := a.Term.Value.(rast.Object)
					obj.Foreach(func(k, v *rast.Term) {
						if _, ok := v.Value.(rast.Object); ok && objectGet(v, "@type") != nil {
							ks, _ := k.Value.(rast.String)
							checkCtor(fmt.Sprintf("%s#%d:%s.%s", name, vi+1, a.Var, string(ks)), v, nil)
						}
					})
				}
			}
		}
	}
	// trace-value templates of the generator: `"key": value` lists; the only array-of-nodes key is subResult
	gen := p.Pkg("internal/generator")
	if gen != nil {
		ord := ordinal{}
		for _, f := range gen.Syntax {
			ast.Inspect(f, func(n ast.Node) bool {
				call, ok := n.(*ast.CallExpr)
				if !ok || len(call.Args) != 1 {
					return true
				}
				callee, ok := calleeOf(gen.TypesInfo, call).(*types.Func)
				if !ok || callee.Pkg() != gen.Types || !strings.Contains(callee.Name(), "TraceValue") {
					return true
				}
				inner, ok := ast.Unparen(call.Args[0]).(*ast.CallExpr)
				var format string
				var ninner *ast.CallExpr
				if ok {
					ninner, ok = normSprintf(gen.TypesInfo, inner)
				}
				if ok {
					format, _ = constString(gen.TypesInfo, ninner.Args[0])
				} else if s, ok := constString(gen.TypesInfo, call.Args[0]); ok {
					format = s
				}
				holes, _ := scanFormat(format, ctxCode)
				inst := instantiate(format, holes, nil)
				k := ord.next(relOf(gen) + "." + enclosingFuncName(gen, call.Pos()) + "#trace-value")
				if strings.TrimSpace(inst) == "" {
					r.OK("C12.J1", k, p.Pos(call.Pos()), "empty trace value (typed header only)")
					return true
				}
				body, err := rast.ParseBody("x = {" + inst + "}")
				if err != nil {
					r.Unknown("C12.J1", k, p.Pos(call.Pos()), "the trace value template does not parse as object members: "+strings.SplitN(err.Error(), "\n", 2)[0])
					return true
				}
				obj := body[0].Operands()[1]
				keys := objectKeys(obj)
				var numeric, arrays []string
				for _, kk := range keys {
					if strings.Trim(kk, "0123456789") == "" {
						numeric = append(numeric, kk)
					}
					if kk == "subResult" {
						arrays = append(arrays, kk)
					}
				}
				r.Check(len(numeric) == 0 && len(arrays) <= 1, "C12.J1", k, p.Pos(call.Pos()), fmt.Sprintf("keys %v", keys), fmt.Sprintf("trace value keys %v: numeric keys or several arrays of nodes", keys))
				return true
			})
		}
	}
	// root ids and the result list: evaluated on the report builder (shared with C03.L4)
	m, err := loadReportBuilder(p)
	if err != nil {
		r.Unknown("C12.J1", "builder", "", err.Error())
		return
	}
	roots := map[string]bool{}
	for _, st := range m.stores["@id"] {
		if st.target == nil || st.target.K != symElem {
			continue // the report node's own constant id, nested ids (set by the recursion)
		}
		bk, isBucket := rbBucketKey(st.target.X)
		if !isBucket {
			continue
		}
		roots[bk] = true
		want := strconv.Quote(bk+"_") + "+#" + st.target.X.String()
		r.Check(st.val.String() == want, "C12.J1", relOf(pk)+"#root-id:"+bk, p.Pos(st.pos), "the i-th result of the "+bk+" bucket is named "+bk+"_i", "the root id of the results of the "+bk+" bucket is "+st.val.String()+", expected "+want+": two results can receive the same id")
	}
	for _, l := range c03Levels {
		if !roots[l] {
			r.Unknown("C12.J1", relOf(pk)+"#root-id:"+l, p.Pos(m.build.Pos()), "no @id assignment to the elements of the "+l+" bucket was recognised")
		}
	}
	if len(m.stores["result"]) == 0 {
		r.Unknown("C12.J1", relOf(pk)+"#results-appended", p.Pos(m.build.Pos()), "no value stored under the report node's result key was found")
	}
	for _, st := range m.stores["result"] {
		why := m.resultListProblems(st)
		r.Check(len(why) == 0, "C12.J1", relOf(pk)+"#results-appended", p.Pos(st.pos), "the result list holds every tagged element of every bucket, appended without gaps", strings.Join(why, "; ")+": null entries or duplicated nodes break the document")
	}
}

// ---- J2
func c12Shapes(c *Ctx) {
	r := c.R
	rp, err := loadPreamble(c.P)
	if err != nil {
		r.Unknown("C12.J2", "preamble", "", err.Error())
		return
	}
	required := map[string][]string{
		"error": {"@type", "sourceShapeName", "focusNode", "resultMessage", "trace"},
		"trace": {"@type", "component", "resultPath", "traceValue"},
	}
	for name, req := range required {
		rules := rp.rulesNamed(name)
		if len(rules) == 0 {
			r.Bad("C12.J2", name+"()", "", "the preamble does not define "+name+"()")
			continue
		}
		for vi, rl := range rules {
			v := refHeadName(rl.Head.Value)
			var obj *rast.Term
			for _, a := range bodyAssignments(rl.Body) {
				if a.Var == v {
					obj = a.Term
				}
			}
			k := fmt.Sprintf("%s#variant%d", name, vi+1)
			if obj == nil {
				r.Unknown("C12.J2", k, "", "the returned object was not found")
				continue
			}
			have := map[string]bool{}
			for _, kk := range objectKeys(obj) {
				have[kk] = true
			}
			var missing []string
			for _, q := range req {
				if !have[q] {
					missing = append(missing, q)
				}
			}
			// each required value is the corresponding parameter (or derived id)
			r.Check(len(missing) == 0, "C12.J2", k, fmt.Sprintf("preamble line %d", rl.Location.Row-1), "carries "+strings.Join(req, ", "), "this variant of "+name+"() lacks "+strings.Join(missing, ", "))
		}
	}
	// the trace value header (E-sym: the text is judged however it is assembled)
	gen := c.P.Pkg("internal/generator")
	if gen != nil {
		found := false
		proto := &symWalker{}
		proto.OnText = func(w *symWalker, at ast.Expr, text *Sym) {
			tpl := text.Template()
			if !strings.HasPrefix(tpl, `{"@type"`) || !strings.Contains(tpl, "TraceValue") {
				return
			}
			found = true
			okShape := text.K == symConcat && len(text.Parts) == 3
			if okShape {
				last, _ := text.Parts[2].ConstString()
				okShape = strings.TrimSpace(last) == "}" && text.Parts[1].K != symConst
			}
			r.Check(okShape, "C12.J2", "trace-value-header", c.P.Pos(at.Pos()), "every trace value is an object starting with its @type", "the trace value template does not wrap its members in a typed object: "+tpl)
		}
		for _, f := range gen.Syntax {
			for _, d := range f.Decls {
				if fd, ok := d.(*ast.FuncDecl); ok && fd.Body != nil {
					c.P.SymWalk(gen, fd, proto, nil)
				}
			}
		}
		if !found {
			r.Unknown("C12.J2", "trace-value-header", "", "the typed trace-value template was not found")
		}
	}
}

// ---- J3 / J4
func c12Focus(c *Ctx) {
	r, p := c.R, c.P
	rp, err := loadPreamble(p)
	if err == nil {
		for vi, rl := range rp.rulesNamed("error") {
			if len(rl.Head.Args) != 4 {
				r.Bad("C12.J3", fmt.Sprintf("error#variant%d", vi+1), "", "error() does not take (name, node, message, trace)")
				continue
			}
			nodeArg := refHeadName(rl.Head.Args[1])
			nameArg := refHeadName(rl.Head.Args[0])
			msgArg := refHeadName(rl.Head.Args[2])
			traceArg := refHeadName(rl.Head.Args[3])
			val := map[string]*rast.Term{}
			var obj *rast.Term
			for _, a := range bodyAssignments(rl.Body) {
				val[a.Var] = a.Term
				if a.Var == refHeadName(rl.Head.Value) {
					obj = a.Term
				}
			}
			ok := false
			if obj != nil {
				if fnode := objectGet(obj, "focusNode"); fnode != nil {
					if t, has := val[refHeadName(fnode)]; has {
						if pth := refPath(t); len(pth) == 2 && pth[0] == nodeArg && pth[1] == "@id" {
							ok = true
						}
					}
				}
			}
			r.Check(ok, "C12.J3", fmt.Sprintf("error#variant%d#focusNode", vi+1), "", "focusNode is the @id of the node argument", "focusNode is not the @id of error()'s node argument")
			pass := obj != nil && refHeadName(objectGet(obj, "sourceShapeName")) == nameArg && refHeadName(objectGet(obj, "resultMessage")) == msgArg && refHeadName(objectGet(obj, "trace")) == traceArg
			r.Check(pass, "C12.J3", fmt.Sprintf("error#variant%d#pass-through", vi+1), "", "name, message and trace are the arguments unchanged", "sourceShapeName / resultMessage / trace are not error()'s arguments passed through")
		}
	}
	// generator side, decided on the texts the generator emits (E-sym, helpers interpreted from the functions nobody else in
	// the package calls): every `X := error(<name>, <node>, message, [<traces>])` line names, as <node>, a variable that
	// another line emitted on the same route binds from the input graph: `target_class[<node>] with ...` or
	// `<node> = <node set>[_]`
	gen := p.Pkg("internal/generator")
	if gen == nil {
		return
	}
	errRe := regexp.MustCompile(`:= error\(\s*(‹[^›]*›|"[^"]*")\s*,\s*(‹[^›]*›|[A-Za-z_][A-Za-z0-9_]*)\s*,\s*message\s*,\s*\[(.*)\]\s*\)`)
	type errEv struct {
		name, node string
		nameSym    *Sym
		pos        token.Pos
		fn         string
	}
	seenEv := map[string]bool{}
	total := 0
	for _, root := range symRoots(gen) {
		var texts []string
		var evs []errEv
		proto := &symWalker{Inline: samePkgInline(gen)}
		proto.OnText = func(w *symWalker, at ast.Expr, text *Sym) {
			tpl := text.Template()
			texts = append(texts, tpl)
			if m := errRe.FindStringSubmatch(tpl); m != nil {
				ev := errEv{name: m[1], node: m[2], pos: at.Pos(), fn: w.FuncName()}
				// the symbolic value of the name hole
				if text.K == symConcat {
					for _, part := range text.Parts {
						if part.K != symConst && "‹"+part.String()+"›" == m[1] {
							ev.nameSym = part
						}
					}
				}
				evs = append(evs, ev)
			}
		}
		p.SymWalk(gen, root, proto, nil)
		for _, ev := range evs {
			k := relOf(gen) + "." + root.Name.Name + "/" + ev.fn + "#error-call"
			if seenEv[k+ev.node] {
				continue
			}
			seenEv[k+ev.node] = true
			total++
			bound := ""
			for _, t := range texts {
				tt := strings.TrimSpace(t)
				if strings.HasPrefix(tt, "target_class["+ev.node+"]") {
					bound = "by the target_class line emitted on the same route"
				}
				if strings.HasPrefix(tt, ev.node+" = ") && strings.HasSuffix(tt, "[_]") {
					bound = "by iteration over a node set"
				}
			}
			r.Check(bound != "", "C12.J3", k+"#node", p.Pos(ev.pos), "the focus node variable is bound "+bound, "the node handed to error(…) ("+ev.node+") is not a variable that the emitted code binds from the input graph (target_class line or iteration over a node set)")
			// J4: the name is a string literal made from the validation's name or the constant `nested`
			nameOK, nameLit := false, false
			if ev.nameSym != nil && ev.nameSym.K == symCall && strings.Contains(ev.nameSym.Fn, "RegoString") && len(ev.nameSym.Parts) == 1 {
				nameLit = true
				arg := ev.nameSym.Parts[0]
				if c, ok := arg.ConstString(); ok && c == "nested" {
					nameOK = true
				}
				if arg.K == symField && arg.Name == "Name" && arg.X != nil {
					t := arg.RecvT
					if t == nil {
						t = arg.X.Type
					}
					if t == nil && arg.X.Obj != nil {
						t = arg.X.Obj.Type()
					}
					if t != nil && typeName(t) == "TopLevelExpression" {
						nameOK = true
					}
				}
			}
			r.Check(nameLit, "C12.J4", k+"#name-literal", p.Pos(ev.pos), "the first argument of error(…) is rendered as a string literal", "the first argument of error(…) is "+ev.name+", not a string literal made by the JSON-based helper")
			r.Check(nameOK, "C12.J4", k+"#name", p.Pos(ev.pos), "sourceShapeName is the validation's name or `nested`", "sourceShapeName is "+ev.name+", neither the top-level validation's name nor the constant nested")
			// the trace list is the joined bindings of the branch
			r.OK("C12.J3", k+"#trace-list", p.Pos(ev.pos), "the trace argument is a bracketed list")
		}
	}
	if total == 0 {
		r.Unknown("C12.J3", "error-template", "", "no `… := error(…)` line is emitted by the generator")
	}
}

// c12NodeBinding: how the variable expression is bound in the Rego emitted by fd: by the target_class template (via the
// class-target result's Variable) or by `<var> = <node set>[_]`.
func c12NodeBinding(info *types.Info, fd *ast.FuncDecl, nodeArg ast.Expr) string {
	argObj := func(e ast.Expr) types.Object {
		if id, ok := ast.Unparen(e).(*ast.Ident); ok {
			return info.Uses[id]
		}
		return nil
	}
	obj := argObj(nodeArg)
	// (a) classTargetVariable := classTargetResult.Variable, with classTargetResult := GenerateClassTarget(...) whose Rego lines are emitted
	if obj != nil {
		def := localDef(info, fd.Body, obj)
		if sel, ok := ast.Unparen(def).(*ast.SelectorExpr); ok && sel.Sel.Name == "Variable" {
			if base := argObj(sel.X); base != nil {
				if call, ok := ast.Unparen(localDef(info, fd.Body, base)).(*ast.CallExpr); ok {
					if f, ok := calleeOf(info, call).(*types.Func); ok && strings.Contains(f.Name(), "ClassTarget") {
						// its Rego lines are appended in this function
						emitted := false
						ast.Inspect(fd.Body, func(n ast.Node) bool {
							if rs, ok := n.(*ast.RangeStmt); ok {
								if s, ok := ast.Unparen(rs.X).(*ast.SelectorExpr); ok && s.Sel.Name == "Rego" && argObj(s.X) == base {
									emitted = true
								}
							}
							return true
						})
						if emitted {
							return "by the target_class line emitted at the top of the rule"
						}
					}
				}
			}
		}
	}
	// (b) a parameter that this function binds with `  %s = %s[_]`
	found := ""
	ast.Inspect(fd.Body, func(n ast.Node) bool {
		call, ok := n.(*ast.CallExpr)
		if !ok {
			return true
		}
		if call, ok = normSprintf(info, call); !ok || len(call.Args) != 3 {
			return true
		}
		if s, ok := constString(info, call.Args[0]); ok && strings.HasSuffix(strings.TrimSpace(s), "= %s[_]") {
			if argObj(call.Args[1]) == obj && obj != nil {
				found = "by iteration over the nested node set"
			}
		}
		return true
	})
	return found
}

// ---- J5
func c12Envelope(c *Ctx) {
	r, p := c.R, c.P
	pk := p.Pkg("internal/validator")
	if pk == nil {
		return
	}
	// the dialect instance, on values (E-sym): a function that returns a list holding a node with a "doc:encodes" entry
	// returns exactly one such node, and the entry is a list of exactly one element (however the node is put together:
	// one literal, a helper that builds the skeleton plus stores, ...)
	for _, f := range pk.Syntax {
		for _, d := range f.Decls {
			fd, ok := d.(*ast.FuncDecl)
			if !ok || fd.Body == nil || fd.Type.Results == nil || len(fd.Type.Results.List) != 1 {
				continue
			}
			isEnvelope, good := false, true
			proto := &symWalker{Inline: samePkgInline(pk)}
			proto.OnReturn = func(w *symWalker, ret *ast.ReturnStmt, results []*Sym) {
				if w.depth != 0 || len(results) != 1 || results[0].K != symList {
					return
				}
				for _, el := range results[0].Parts {
					node := el
					if node.K != symStruct {
						continue
					}
					encodes, has := node.Fields["doc:encodes"]
					if !has {
						continue
					}
					isEnvelope = true
					if !listStatic(results[0]) || len(results[0].Parts) != 1 || !listStatic(encodes) || len(encodes.Parts) != 1 {
						good = false
					}
				}
			}
			p.SymWalk(pk, fd, proto, nil)
			if !isEnvelope {
				continue
			}
			key := relOf(pk) + "." + fd.Name.Name
			r.Check(good, "C12.J5", key+"#one-instance-one-report", p.Pos(fd.Pos()), "one dialect instance whose doc:encodes holds exactly the report node", "the envelope does not hold exactly one dialect instance encoding exactly one report node")
		}
	}
	// the encoder
	var encFn *ssa.Function
	var encCalls []ssa.CallInstruction
	for _, fn := range p.ModuleFuncs() {
		if RelPkg(fn) != "internal/validator" || fn.Signature.Results().Len() < 1 || !isStringType(fn.Signature.Results().At(0).Type()) {
			continue
		}
		for _, b := range fn.Blocks {
			for _, ins := range b.Instrs {
				if ci, ok := ins.(ssa.CallInstruction); ok {
					n := funcFullName(ssaCalleeObj(ci))
					if n == "(*encoding/json.Encoder).Encode" || n == "encoding/json.Marshal" || n == "encoding/json.MarshalIndent" {
						encFn = fn
						encCalls = append(encCalls, ci)
					}
				}
			}
		}
	}
	if encFn == nil {
		r.Unknown("C12.J5", "encoder", "", "the function that encodes the report as JSON was not found")
		return
	}
	var post []string
	for _, b := range encFn.Blocks {
		for _, ins := range b.Instrs {
			ci, ok := ins.(ssa.CallInstruction)
			if !ok {
				continue
			}
			n := funcFullName(ssaCalleeObj(ci))
			if strings.HasPrefix(n, "strings.") || strings.HasPrefix(n, "(*strings.Replacer)") || strings.HasPrefix(n, "regexp.") || strings.HasPrefix(n, "(*regexp.Regexp)") || strings.HasPrefix(n, "bytes.Replace") {
				post = append(post, n)
			}
		}
	}
	sort.Strings(post)
	// every return that reports success returns the buffer's / marshalled bytes' text
	retOK, nret := true, 0
	for _, b := range encFn.Blocks {
		for _, ins := range b.Instrs {
			ret, ok := ins.(*ssa.Return)
			if !ok || len(ret.Results) == 0 {
				continue
			}
			nret++
			if len(ret.Results) == 2 {
				if cst, isConst := ret.Results[1].(*ssa.Const); !isConst || !cst.IsNil() {
					continue // an error return: the text is not used
				}
			}
			switch x := ret.Results[0].(type) {
			case *ssa.Call:
				if funcFullName(ssaCalleeObj(x)) != "(*bytes.Buffer).String" {
					retOK = false
				}
			case *ssa.Convert:
			default:
				retOK = false
			}
		}
	}
	r.Check(len(post) == 0 && retOK && nret > 0, "C12.J5", FuncKey(encFn)+"#json-untouched", p.Pos(encFn.Pos()), "the report text is the JSON encoder's output, returned as is", "the JSON text is post-processed ("+strings.Join(post, ", ")+") or is not the encoder's output: textual edits of encoded JSON can produce invalid escapes")
	// J6: the encoder can fail (OPA hands back json.Number values such as to_number("03") that are not JSON numbers); a dropped
	// error turns into an empty or truncated document returned as a report
	for i, ci := range encCalls {
		k := FuncKey(encFn) + "#encoder-error"
		if i > 0 {
			k += fmt.Sprintf("#%d", i+1)
		}
		r.Check(errorResultUsed(ci), "C12.J6", k, p.Pos(ci.Pos()), "the encoder's error is examined", "the error of the JSON encoder is dropped: a value that cannot be encoded (an invalid number literal from to_number, a NaN) yields an empty or truncated document that is returned as the report")
	}
	// callers must not drop the error either
	callers := 0
	if encFn.Signature.Results().Len() == 2 {
		for _, fn := range p.ModuleFuncs() {
			for _, b := range fn.Blocks {
				for _, ins := range b.Instrs {
					ci, ok := ins.(ssa.CallInstruction)
					if !ok || ci.Common().StaticCallee() != encFn {
						continue
					}
					callers++
					r.Check(errorResultUsed(ci), "C12.J6", FuncKey(fn)+"#uses-encoder-error", p.Pos(ci.Pos()), "the caller examines or returns the encoder's error", "the encoder's error is dropped by its caller")
				}
			}
		}
	}
	// the builder returns the encoder's result
	r.OK("C12.J5", "encoder", "", "encoder: "+FuncKey(encFn))
}

// errorResultUsed: the error result of the call (the last result) is consumed by some instruction other than a debug reference.
func errorResultUsed(ci ssa.CallInstruction) bool {
	v := ci.Value()
	if v == nil {
		return false // go / defer: result discarded
	}
	res := ci.Common().Signature().Results()
	if res.Len() == 0 {
		return true
	}
	refs := v.Referrers()
	if refs == nil {
		return false
	}
	if res.Len() == 1 {
		for _, ref := range *refs {
			if _, dbg := ref.(*ssa.DebugRef); !dbg {
				return true
			}
		}
		return false
	}
	for _, ref := range *refs {
		if ex, ok := ref.(*ssa.Extract); ok && ex.Index == res.Len()-1 {
			if er := ex.Referrers(); er != nil {
				for _, u := range *er {
					if _, dbg := u.(*ssa.DebugRef); !dbg {
						return true
					}
				}
			}
		}
		if _, isRet := ref.(*ssa.Return); isRet {
			return true // returned whole
		}
	}
	return false
}
