// acvlint: repository-specific static analysis deciding the properties in /verif/properties.jsonl for
// aml-org/amf-custom-validator.  It never executes the validator: every verdict comes from the type-checked syntax
// trees, the SSA form, control-flow paths and the Rego / PEG text embedded in the source as constants.
package main

import (
	"encoding/json"
	"flag"
	"fmt"
	"go/ast"
	"os"
	"path/filepath"
	"runtime/debug"
	"sort"
	"strconv"
	"strings"
)

// Ctx is what a property check receives.
type Ctx struct {
	P        *Prog
	R        *Report
	Tier     string
	VerifDir string
	RepoDir  string
}

func (c *Ctx) Thorough() bool { return c.Tier == "thorough" }

var borrowedReports = map[string]*Report{}

// Borrow decides a clause of this property with a rule that belongs to another property's rule set: that rule set is run
// on the same loaded program into a scratch report, and the obligations of its rule `from` that pass keep (nil: all) are
// recorded here under the rule id `as`.  (One defect often breaks several properties; each check must see it by itself.)
func (c *Ctx) Borrow(prop, from, as, doc string, floor int, keep func(o Obligation) bool) {
	c.R.Rule(as, doc+" (rule "+from+" of "+prop+"'s rule set, decided here on the same program)", floor)
	sub, ok := borrowedReports[prop]
	if !ok {
		run := registry[prop]
		if run == nil {
			c.R.Unknown(as, "borrowed:"+from, "", "rule set "+prop+" is not registered")
			return
		}
		sub = NewReport(prop, c.Tier, 0)
		sc := &Ctx{P: c.P, R: sub, Tier: c.Tier, VerifDir: c.VerifDir, RepoDir: c.RepoDir}
		func() {
			defer func() {
				if rec := recover(); rec != nil {
					sub.Unknown(from, "analyser", "", fmt.Sprintf("analyser panic in the borrowed rule set: %v", rec))
				}
			}()
			run(sc)
		}()
		borrowedReports[prop] = sub
	}
	for _, o := range sub.Obls {
		if o.Rule != from || (keep != nil && !keep(o)) {
			continue
		}
		c.R.Add(as, o.Construct, o.Verdict, o.Pos, o.Detail)
	}
}

type propertyCheck struct {
	id  string
	run func(*Ctx)
}

var registry = map[string]func(*Ctx){}

func register(id string, f func(*Ctx)) { registry[id] = f }

// extras: clauses a property shares with another property's rule set (see Ctx.Borrow); run after the property's own rules.
// They are kept apart from registry so that borrowing never recurses.
var extras = map[string]func(*Ctx){}

func main() {
	if len(os.Args) < 2 {
		usage()
	}
	switch os.Args[1] {
	case "check":
		os.Exit(cmdCheck(os.Args[2:]))
	case "explain":
		os.Exit(cmdExplain(os.Args[2:]))
	case "sym":
		os.Exit(cmdSym(os.Args[2:]))
	case "s2c":
		os.Exit(cmdS2C(os.Args[2:]))
	case "rnl":
		os.Exit(cmdRNL(os.Args[2:]))
	case "r2i":
		os.Exit(cmdR2I(os.Args[2:]))
	case "e2r":
		os.Exit(cmdE2R(os.Args[2:]))
	case "list":
		ids := []string{}
		for id := range registry {
			ids = append(ids, id)
		}
		sort.Strings(ids)
		fmt.Println(strings.Join(ids, " "))
	default:
		usage()
	}
}

func usage() {
	fmt.Fprintln(os.Stderr, "usage: acvlint check -property C11 [-tier quick|thorough] [-repo /repo] [-verif /verif]\n       acvlint explain <replay.json>\n       acvlint list")
	os.Exit(2)
}

func cmdCheck(args []string) int {
	fs := flag.NewFlagSet("check", flag.ExitOnError)
	prop := fs.String("property", "", "property id (C01..C18)")
	tier := fs.String("tier", "", "quick or thorough (default: $VERIF_TIER or quick)")
	repo := fs.String("repo", "/repo", "repository working tree to analyse")
	verif := fs.String("verif", "", "verification directory (evidence/, known_findings.txt); default: parent of the binary's directory")
	fs.Parse(args)
	if *tier == "" {
		*tier = os.Getenv("VERIF_TIER")
	}
	if *tier != "thorough" {
		*tier = "quick"
	}
	if *verif == "" {
		exe, err := os.Executable()
		if err == nil {
			*verif = filepath.Dir(filepath.Dir(exe))
		} else {
			*verif = "/verif"
		}
	}
	seed, _ := strconv.Atoi(os.Getenv("VERIF_SEED"))
	run, ok := registry[*prop]
	if !ok {
		fmt.Fprintf(os.Stderr, "unknown property %q\n", *prop)
		return 2
	}
	rep := NewReport(*prop, *tier, seed)
	p, err := Load(*repo, "", "")
	if err != nil {
		rep.Explanation = "the repository could not be loaded; nothing was analysed"
		rep.Unknown(*prop+".load", "go/packages", "", err.Error())
		return rep.Finish(*verif)
	}
	ctx := &Ctx{P: p, R: rep, Tier: *tier, VerifDir: *verif, RepoDir: *repo}
	rep.Analysed["packages_loaded"] = len(p.All)
	rep.Analysed["module_packages"] = len(p.Mod)
	rep.Analysed["module_functions"] = len(p.ModuleFuncs())
	func() {
		defer func() {
			if r := recover(); r != nil {
				rep.Unknown(*prop+".analyser", "panic", "", fmt.Sprintf("analyser panic (treated as undecided): %v\n%s", r, debug.Stack()))
			}
		}()
		run(ctx)
		if ex := extras[*prop]; ex != nil {
			ex(ctx)
		}
	}()
	return rep.Finish(*verif)
}

func cmdExplain(args []string) int {
	if len(args) != 1 {
		usage()
	}
	b, err := os.ReadFile(args[0])
	if err != nil {
		fmt.Fprintln(os.Stderr, err)
		return 2
	}
	var v struct {
		Property   string     `json:"property"`
		Tier       string     `json:"tier"`
		Obligation Obligation `json:"obligation"`
		RuleDoc    string     `json:"rule_doc"`
	}
	if err := json.Unmarshal(b, &v); err != nil {
		fmt.Fprintln(os.Stderr, err)
		return 2
	}
	fmt.Printf("property   %s (%s tier)\nrule       %s\n           %s\nconstruct  %s\nposition   %s\nverdict    %s\ndetail     %s\n", v.Property, v.Tier, v.Obligation.Rule, v.RuleDoc, v.Obligation.Construct, v.Obligation.Pos, v.Obligation.Verdict, v.Obligation.Detail)
	fmt.Printf("re-decide  bin/acvlint check -property %s -tier %s\n", v.Property, v.Tier)
	return 0
}

// cmdSym (debugging aid): prints what E-sym computes for one function: acvlint sym [-repo dir] [-noinline] <pkg> <func>
func cmdSym(args []string) int {
	fs := flag.NewFlagSet("sym", flag.ExitOnError)
	repo := fs.String("repo", "/repo", "repository working tree")
	noinline := fs.Bool("noinline", false, "do not interpret same-package callees")
	fs.Parse(args)
	if fs.NArg() != 2 {
		usage()
	}
	p, err := Load(*repo, "", "")
	if err != nil {
		fmt.Fprintln(os.Stderr, err)
		return 2
	}
	fd, pk := p.FuncDecl(fs.Arg(0), fs.Arg(1))
	if fd == nil {
		fmt.Fprintln(os.Stderr, "function not found")
		return 2
	}
	proto := &symWalker{}
	if !*noinline {
		proto.Inline = samePkgInline(pk)
	}
	proto.OnReturn = func(w *symWalker, ret *ast.ReturnStmt, results []*Sym) {
		if w.depth != 0 {
			return
		}
		var parts []string
		for _, s := range results {
			parts = append(parts, s.String())
		}
		fmt.Printf("RETURN [%s] => %s\n", condsText(w.Conds()), strings.Join(parts, " , "))
	}
	p.SymWalk(pk, fd, proto, nil)
	return 0
}
