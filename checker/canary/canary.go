// Package canary holds one instance of each construct that a rule of the checker expects to find ZERO times in the
// repository.  It is loaded and analysed on every run by the same detector functions the rules use; a detector that no
// longer recognises its construct here (a renamed standard-library function, a change in the SSA form) would otherwise
// pass vacuously for ever.  Nothing here is ever executed.
package canary

import (
	"context"
	"encoding/json"
	"fmt"
	"log"
	"math/rand"
	"net/url"
	"os"
	"reflect"
	"time"
)

func Select(a, b chan int) int {
	select {
	case x := <-a:
		return x
	case y := <-b:
		return y
	}
}

func Go() { go func() {}() }

func Clock() time.Time { return time.Now() }

func Random() int { return rand.Int() }

func Env() string { return os.Getenv("X") }

func Deadline() {
	ctx, cancel := context.WithTimeout(context.Background(), time.Second)
	defer cancel()
	_ = ctx
}

func Timer() { <-time.After(time.Second) }

func ReflectRange(v reflect.Value) int { return len(v.MapKeys()) }

func UntypedJSON(b []byte) any {
	var v any
	_ = json.Unmarshal(b, &v)
	return v
}

func UntypedDecoder(f *os.File) any {
	var v map[string]any
	_ = json.NewDecoder(f).Decode(&v)
	return v
}

func Stdout() { fmt.Println("x") }

func Stderr() { fmt.Fprintln(os.Stderr, "x") }

func Logger() { log.Printf("x") }

func NumberConversion(n json.Number) float64 {
	f, _ := n.Float64()
	return f
}

func URLRoundTrip(s string) string {
	u, err := url.Parse(s)
	if err != nil {
		return s
	}
	return u.String()
}
