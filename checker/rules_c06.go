package main

import (
	"fmt"
	"go/ast"
	"go/token"
	"go/types"
	"sort"
	"strings"

	"golang.org/x/tools/go/packages"
	"golang.org/x/tools/go/ssa"
)

func init() { register("C06", checkC06) }

// mapRange is one `range` statement over a map in module code.
type mapRange struct {
	pk   *packages.Package
	fd   *ast.FuncDecl
	body *ast.BlockStmt
	rs   *ast.RangeStmt
	key  string
}

// allMapRanges lists every range-over-map statement of the module's non-test code.
func allMapRanges(p *Prog) []mapRange {
	var out []mapRange
	for _, pk := range p.modPkgsSorted() {
		for _, file := range pk.Syntax {
			for _, d := range file.Decls {
				fd, ok := d.(*ast.FuncDecl)
				if !ok || fd.Body == nil {
					continue
				}
				ord := ordinal{}
				ast.Inspect(fd.Body, func(n ast.Node) bool {
					rs, ok := n.(*ast.RangeStmt)
					if !ok {
						return true
					}
					tv, ok := pk.TypesInfo.Types[rs.X]
					if !ok {
						return true
					}
					if _, isMap := tv.Type.Underlying().(*types.Map); !isMap {
						return true
					}
					name := enclosingFuncName(pk, rs.Pos())
					out = append(out, mapRange{pk, fd, fd.Body, rs, ord.next(relOf(pk) + "." + name + "#range:" + types.ExprString(rs.X))})
					return true
				})
			}
		}
	}
	return out
}

func checkC06(c *Ctx) {
	r, p := c.R, c.P
	r.Explanation = "Decides that nothing the Go runtime randomises or that differs between runs can reach the generated Rego or the report through the module's own code. (D1) Every range over a map in the module is analysed: its body's effects must be confined to the current key/value, to other maps indexed by the current key, to commutative accumulation, or to a slice that is sorted after the loop before any other use; otherwise the iteration order escapes. (D2) Census, over the functions reachable from the library's entry points, of every other nondeterminism source: time.Now (allowed only in the event constructor and in the default validation configuration's clock), math/rand, crypto/rand, os.Getenv/Environ, deadlines and timers (context.WithTimeout/WithDeadline, time.After/AfterFunc/NewTimer/Tick), select, goroutines, reflect map iteration, and pointer-typed operands of formatting calls (an address in generated text); a pointer operand is accepted only when it is dead: guarded by `*p > 0` while every store to a cell of that type in the package writes the constant 0. (D4) No package-level variable is written in reach of the entry points (plain, through an alias, under a lock, sync.Map, atomic store/swap; monotone atomic increments excepted), so nothing an earlier call computed can reach a later call's output. (D3) Shared mutable state is excluded by C10's rules, re-checked here for the one shared counter: it is monotone (no reset in reach of the entry points). Ordering inside OPA (sets are serialised sorted) and encoding/json (map keys sorted) is the documented, trusted base."
	r.Declines = []string{"OPA's serialisation order of sets and encoding/json's key order (documented sorted; trusted)", "json-gold's node order and blank-node labels"}
	r.Trusted = []string{"sort.Strings/sort.Sort are deterministic", "encoding/json sorts map keys", "OPA serialises sets in sorted order"}
	r.Rule("C06.D1", "map iteration order never escapes a loop", 5)
	r.Rule("C06.D2", "no clock, randomness, environment, scheduling or address reaches generated text or the report", 3)
	r.Rule("C06.D3", "the shared name counter is monotone in reach of the entry points", 1)

	ms := newMutationSummary(p)
	oa := &orderAnalysis{p: p, ms: ms}
	ranges := allMapRanges(p)
	r.Analysed["map_ranges_in_module"] = len(ranges)
	for _, mr := range ranges {
		esc, notes := oa.analyseRange(mr.pk, mr.fd, mr.body, mr.rs)
		if len(esc) == 0 {
			d := "the loop body's effects are confined to the current key/value, maps indexed by the key, or commutative accumulation"
			if len(notes) > 0 {
				d += "; " + strings.Join(notes, "; ")
			}
			r.OK("C06.D1", mr.key, p.Pos(mr.rs.Pos()), d)
		} else {
			sort.Strings(esc)
			r.Bad("C06.D1", mr.key, p.Pos(mr.rs.Pos()), "map iteration order escapes the loop: "+strings.Join(esc, "; "))
		}
	}

	// ---- D2
	entries := libraryEntries(p)
	reach := p.Reach(entries...)
	var funcs []*ssa.Function
	for f := range reach {
		funcs = append(funcs, f)
	}
	sort.Slice(funcs, func(i, j int) bool { return FuncKey(funcs[i]) < FuncKey(funcs[j]) })
	r.Analysed["functions_in_reach"] = len(funcs)
	sources := 0
	for _, fn := range funcs {
		ord := ordinal{}
		rel := RelPkg(fn)
		for _, b := range fn.Blocks {
			for _, ins := range b.Instrs {
				switch x := ins.(type) {
				case *ssa.Select:
					sources++
					r.Bad("C06.D2", ord.next(FuncKey(fn)+"#select"), p.Pos(ins.Pos()), "select: the chosen case depends on scheduling")
				case *ssa.Go:
					sources++
					r.Bad("C06.D2", ord.next(FuncKey(fn)+"#go"), p.Pos(ins.Pos()), "goroutine: results may be produced in scheduling order")
				case ssa.CallInstruction:
					name := funcFullName(ssaCalleeObj(x))
					switch kind := nondetSource(name); {
					case kind == "clock":
						sources++
						k := ord.next(FuncKey(fn) + "#" + name)
						if rel == "pkg/events" || (rel == "pkg/config" && fn.Signature.Recv() != nil) {
							r.OK("C06.D2", k, p.Pos(ins.Pos()), "the clock is read by the event constructor / the default validation configuration only (the property fixes configuration and clock)")
						} else {
							r.Bad("C06.D2", k, p.Pos(ins.Pos()), "the wall clock is read in "+FuncKey(fn)+", outside the event constructor and the configured clock: its value can reach the output")
						}
					case kind == "timer":
						sources++
						r.Bad("C06.D2", ord.next(FuncKey(fn)+"#"+name), p.Pos(ins.Pos()), name+": a deadline or timer in reach of the entry points makes the outcome depend on how long the work takes on this machine under this load (a report in one run, a cancellation error in another)")
					case kind == "random":
						sources++
						r.Bad("C06.D2", ord.next(FuncKey(fn)+"#"+name), p.Pos(ins.Pos()), "random numbers in reach of the entry points")
					case kind == "env":
						sources++
						r.Bad("C06.D2", ord.next(FuncKey(fn)+"#"+name), p.Pos(ins.Pos()), "process environment in reach of the entry points")
					case kind == "reflect-range":
						sources++
						if !isGeneratedParserFunc(p, fn) {
							r.Bad("C06.D2", ord.next(FuncKey(fn)+"#"+name), p.Pos(ins.Pos()), "reflective map iteration (random order)")
						}
					case strings.HasPrefix(name, "fmt.Sprint") || strings.HasPrefix(name, "fmt.Fprint") || strings.HasPrefix(name, "fmt.Errorf") || strings.HasPrefix(name, "fmt.Print") || strings.HasPrefix(name, "fmt.Append"):
						if isGeneratedParserFunc(p, fn) {
							continue
						}
						for _, ptrArg := range pointerFormatOperands(x) {
							sources++
							k := ord.next(FuncKey(fn) + "#address-in-text")
							if ok, why := deadPointerFormat(fn, x, ptrArg); ok {
								r.OK("C06.D2", k, p.Pos(ins.Pos()), "a pointer is formatted here, but the call is dead: "+why)
							} else {
								r.Bad("C06.D2", k, p.Pos(ins.Pos()), "a pointer-typed operand ("+ptrArg.Type().String()+") is formatted into text: the address differs between runs ("+why+")")
							}
						}
					}
				}
			}
		}
	}
	r.Analysed["nondeterminism_sources_found"] = sources
	// the classifier must find one of each kind in the positive examples
	canaryCheck(c, "C06.D2", []string{"select", "go", "clock", "timer", "random", "env", "reflect-range"}, func(ins ssa.Instruction) string {
		k, _ := nondetKind(ins)
		return k
	})
	r.OK("C06.D2", "census", "", fmt.Sprintf("%d functions scanned; %d potential sources classified above", len(funcs), sources))

	// ---- D3
	found := false
	for _, g := range moduleGlobals(p) {
		acc := accessesOf(p, ms, g, funcs)
		atom, reset := 0, 0
		for _, a := range acc {
			if a.Kind == "atomic" {
				atom++
				if strings.Contains(a.Detail, ".Store") || strings.Contains(a.Detail, ".Swap") {
					reset++
				}
			}
		}
		if atom == 0 {
			continue
		}
		found = true
		r.Check(reset == 0, "C06.D3", globalKey(g), p.Pos(g.Pos()), "only incremented in reach of the entry points: names are unique per process and start from the same value in a fresh process", "the counter is reset in reach of the entry points: generated names repeat within a module when calls overlap")
	}
	if !found {
		// no shared counter at all is fine as long as C10 holds; record the absence
		r.OK("C06.D3", "no-shared-counter", "", "no atomically accessed package-level variable in reach of the entry points")
	}

	// ---- D4: the output of a run is a function of its inputs only if no earlier run can leave anything behind
	r.Rule("C06.D4", "no state survives a call in a package-level variable (memo tables and caches make the output depend on earlier calls)", 1)
	stateful := 0
	for _, g := range moduleGlobals(p) {
		if w := crossCallWrites(p, ms, g, funcs); len(w) > 0 {
			stateful++
			if len(w) > 4 {
				w = append(w[:4], fmt.Sprintf("... %d more", len(w)-4))
			}
			r.Bad("C06.D4", globalKey(g), p.Pos(g.Pos()), "state written here survives the call and is read by later calls, so the same inputs need not produce the same output: "+strings.Join(w, "; "))
		}
	}
	r.OK("C06.D4", "census", "", fmt.Sprintf("%d package-level variables examined: %d written in reach of the entry points (monotone atomic counters excepted)", len(moduleGlobals(p)), stateful))
}

// pointerFormatOperands returns the operands of a formatting call whose static type is a pointer, channel, function or
// unsafe.Pointer (printed as an address by %v / %d / %p).
func pointerFormatOperands(call ssa.CallInstruction) []ssa.Value {
	var out []ssa.Value
	for _, a := range call.Common().Args {
		sl, ok := a.(*ssa.Slice)
		if !ok {
			continue
		}
		alloc, ok := sl.X.(*ssa.Alloc)
		if !ok {
			continue
		}
		for _, ref := range nonDebugRefs(alloc) {
			ia, ok := ref.(*ssa.IndexAddr)
			if !ok {
				continue
			}
			for _, r2 := range nonDebugRefs(ia) {
				st, ok := r2.(*ssa.Store)
				if !ok {
					continue
				}
				v := st.Val
				if mi, ok := v.(*ssa.MakeInterface); ok {
					v = mi.X
				}
				switch t := v.Type().Underlying().(type) {
				case *types.Pointer:
					// pointers to structs implementing Stringer/error print through their method; flag raw pointers to basics
					if _, isBasic := t.Elem().Underlying().(*types.Basic); isBasic {
						out = append(out, v)
					}
				case *types.Chan, *types.Signature:
					out = append(out, v)
				case *types.Basic:
					if t.Kind() == types.UnsafePointer || t.Kind() == types.Uintptr {
						out = append(out, v)
					}
				}
			}
		}
	}
	return out
}

// deadPointerFormat: the call is control-dependent on `*p > 0` (or != 0) for the same pointer p, and every store to a
// cell of p's pointee type in the package writes the constant zero, so the guard can never hold.
func deadPointerFormat(fn *ssa.Function, call ssa.CallInstruction, ptr ssa.Value) (bool, string) {
	blk := call.Block()
	guarded := false
	for d := blk; d != nil; d = d.Idom() {
		if len(d.Preds) != 1 {
			continue
		}
		pred := d.Preds[0]
		iff, ok := pred.Instrs[len(pred.Instrs)-1].(*ssa.If)
		if !ok || pred.Succs[0] != d {
			continue
		}
		bo, ok := iff.Cond.(*ssa.BinOp)
		if !ok || (bo.Op != token.GTR && bo.Op != token.NEQ) {
			continue
		}
		ld, ok := bo.X.(*ssa.UnOp)
		if !ok || ld.Op != token.MUL {
			continue
		}
		if c, ok := bo.Y.(*ssa.Const); !ok || c.Value == nil || c.Int64() != 0 {
			continue
		}
		if samePointerSource(ld.X, ptr) {
			guarded = true
		}
	}
	if !guarded {
		return false, "not guarded by a test of the pointee"
	}
	// every store to a cell of that pointee type in the package writes constant 0
	pt, ok := ptr.Type().Underlying().(*types.Pointer)
	if !ok {
		return false, "not a pointer"
	}
	pkg := fn.Pkg
	if pkg == nil && fn.Parent() != nil {
		pkg = fn.Parent().Pkg
	}
	if pkg == nil {
		return false, "package unknown"
	}
	nonZero := 0
	stores := 0
	for _, m := range pkg.Members {
		mf, ok := m.(*ssa.Function)
		if !ok {
			continue
		}
		fs := append([]*ssa.Function{mf}, mf.AnonFuncs...)
		for _, f := range fs {
			for _, b := range f.Blocks {
				for _, ins := range b.Instrs {
					st, ok := ins.(*ssa.Store)
					if !ok {
						continue
					}
					at, ok := st.Addr.Type().Underlying().(*types.Pointer)
					if !ok || !types.Identical(at.Elem(), pt.Elem()) {
						continue
					}
					stores++
					if c, ok := st.Val.(*ssa.Const); !ok || c.Value == nil || c.Int64() != 0 {
						nonZero++
					}
				}
			}
		}
	}
	// methods of the package too
	if nonZero > 0 {
		return false, fmt.Sprintf("%d store(s) of a non-zero value to a %s cell exist in the package", nonZero, pt.Elem())
	}
	return true, fmt.Sprintf("guarded by a test that the pointee is non-zero, and all %d stores to %s cells in the package write 0", stores, pt.Elem())
}

func samePointerSource(a, b ssa.Value) bool {
	if a == b {
		return true
	}
	// two loads of the same field of the same base
	fa, ok1 := a.(*ssa.Field)
	fb, ok2 := b.(*ssa.Field)
	if ok1 && ok2 && fa.Field == fb.Field && fa.X == fb.X {
		return true
	}
	la, ok1 := a.(*ssa.UnOp)
	lb, ok2 := b.(*ssa.UnOp)
	if ok1 && ok2 && la.Op == token.MUL && lb.Op == token.MUL {
		xa, ok1 := la.X.(*ssa.FieldAddr)
		xb, ok2 := lb.X.(*ssa.FieldAddr)
		if ok1 && ok2 && xa.Field == xb.Field && xa.X == xb.X {
			return true
		}
	}
	return false
}
