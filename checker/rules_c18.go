package main

import (
	"fmt"
	"go/constant"
	"go/token"
	"go/types"
	"sort"
	"strings"
	"syscall"

	"golang.org/x/tools/go/ssa"
)

func init() { register("C18", checkC18) }

func isCmdPkg(rel string) bool { return rel == "cmd" || strings.HasPrefix(rel, "cmd/") }

// libValue: v (an SSA value printed by a command) is the library's value: a result of a call to a non-cmd module
// function, a field of such a result, or a library function applied to library values. Anything computed on the cmd
// side (concatenation, formatting, conversion through a cmd helper) is not.
func libValue(v ssa.Value, depth int) (bool, string) {
	if depth > 12 {
		return false, "derivation too deep"
	}
	switch x := v.(type) {
	case *ssa.MakeInterface:
		return libValue(x.X, depth+1)
	case *ssa.ChangeType:
		return libValue(x.X, depth+1)
	case *ssa.Extract:
		return libValue(x.Tuple, depth+1)
	case *ssa.UnOp:
		return libValue(x.X, depth+1)
	case *ssa.FieldAddr:
		return libValue(x.X, depth+1)
	case *ssa.Field:
		return libValue(x.X, depth+1)
	case *ssa.Call:
		f := x.Call.StaticCallee()
		if f != nil && IsModuleFunc(f) && !isCmdPkg(RelPkg(f)) {
			return true, FuncKey(f)
		}
		// a helper of the command that hands one of its arguments back unchanged (a `must` wrapper)
		if through := seeThroughHelper(x); through != ssa.Value(x) {
			return libValue(through, depth+1)
		}
		return false, "result of " + calleeName(x) + " (not a library function)"
	case *ssa.Phi:
		for _, e := range x.Edges {
			if ok, why := libValue(e, depth+1); !ok {
				return false, why
			}
		}
		return true, "phi of library values"
	case *ssa.Parameter:
		return false, "parameter " + x.Name() + " (resolved through the caller)"
	case *ssa.BinOp:
		return false, "computed by " + x.Op.String() + " on the command side"
	}
	return false, fmt.Sprintf("%T on the command side", v)
}

func checkC18(c *Ctx) {
	r, p := c.R, c.P
	r.Explanation = "Enumerates every path of every CLI command (cmd/commands.* and main) with the cmd helpers inlined and library calls kept opaque (they may return an error or panic), abstracted to {lib call, stdout/stderr print, file open/create/write/sync, os.Exit(n), panic}. Decides: (W1) every os.OpenFile that opens for writing truncates (O_TRUNC) or appends/creates exclusively, and every file written on any path was opened that way or by os.Create; (W2) on every successful path the text printed to stdout / written to the file is the library's value itself - same SSA value, a field of it, or a library function of it - passed as an operand of a Print/Println-style call or under a constant format, never as the format string and never after cmd-side computation, and it is emitted exactly once; (W3) on every path on which a library or I/O call returned a non-nil error or panicked nothing is printed to stdout and the process ends by panic or os.Exit(n!=0), and no error result is discarded; (W4) every write is followed by a Sync whose error is checked. Does not decide what the operating system does with the file."
	r.Declines = []string{"operating-system behaviour (permissions, full disks)", "the byte content of the library's value (C03/C12)"}
	r.Trusted = []string{"os.Create truncates; O_TRUNC truncates; fmt.Println writes its operand followed by a newline"}
	r.Rule("C18.W1", "files are opened for writing only with truncation (os.Create or O_TRUNC)", 2)
	r.Rule("C18.W2", "the text emitted on success is the library's value, unchanged, emitted once, never used as a format string", 3)
	r.Rule("C18.W3", "failures print nothing to stdout and end with panic or a non-zero exit; no error result is discarded", 4)
	r.Rule("C18.W4", "a file write is followed by a checked Sync", 1)
	r.Rule("C18.W5", "the texts handed to the library are the contents of the named files, unchanged", 3)
	r.Rule("C18.W7", "a path that reports an error on stderr ends with a non-zero status", 1)
	w5seen := map[string]bool{}

	// ---- W1 static part: flags of every os.OpenFile in cmd
	for _, fn := range p.ModuleFuncs() {
		if !isCmdPkg(RelPkg(fn)) {
			continue
		}
		ord := ordinal{}
		for _, b := range fn.Blocks {
			for _, ins := range b.Instrs {
				call, ok := ins.(ssa.CallInstruction)
				if !ok {
					continue
				}
				if funcFullName(ssaCalleeObj(call)) != "os.OpenFile" {
					continue
				}
				k := ord.next(FuncKey(fn) + "#os.OpenFile")
				fl, ok := call.Common().Args[1].(*ssa.Const)
				if !ok || fl.Value == nil {
					r.Unknown("C18.W1", k, p.Pos(call.Pos()), "the flags of os.OpenFile are not a constant")
					continue
				}
				flags := int(fl.Int64())
				writes := flags&(syscall.O_WRONLY|syscall.O_RDWR) != 0
				safe := flags&syscall.O_TRUNC != 0 || flags&syscall.O_APPEND != 0 || (flags&syscall.O_CREAT != 0 && flags&syscall.O_EXCL != 0)
				switch {
				case !writes:
					r.OK("C18.W1", k, p.Pos(call.Pos()), "opened read-only")
				case safe:
					r.OK("C18.W1", k, p.Pos(call.Pos()), fmt.Sprintf("flags %#x truncate (or append / create exclusively)", flags))
				default:
					r.Bad("C18.W1", k, p.Pos(call.Pos()), fmt.Sprintf("the file is opened for writing with flags %#x, without O_TRUNC: a shorter report over a longer file leaves the old tail", flags))
				}
			}
		}
	}

	// ---- W3 static part: discarded error results in cmd
	for _, fn := range p.ModuleFuncs() {
		if !isCmdPkg(RelPkg(fn)) {
			continue
		}
		ord := ordinal{}
		for _, b := range fn.Blocks {
			for _, ins := range b.Instrs {
				call, ok := ins.(*ssa.Call)
				if !ok {
					continue
				}
				idx := resultHasError(call.Call.Signature())
				if idx < 0 {
					continue
				}
				name := calleeName(call)
				if strings.HasPrefix(name, "fmt.Fp") || strings.HasPrefix(name, "fmt.Print") {
					continue // the byte count / error of a diagnostic print
				}
				k := ord.next(FuncKey(fn) + "#" + name)
				var errVal ssa.Value
				if call.Call.Signature().Results().Len() == 1 {
					errVal = call
				} else {
					for _, ref := range nonDebugRefs(call) {
						if ex, ok := ref.(*ssa.Extract); ok && ex.Index == idx {
							errVal = ex
						}
					}
				}
				if errVal == nil || len(nonDebugRefs(errVal)) == 0 {
					r.Bad("C18.W3", k, p.Pos(call.Pos()), "the error result of "+name+" is discarded: a failure here would go unnoticed and the command would exit 0")
				} else {
					r.OK("C18.W3", k, p.Pos(call.Pos()), "the error result is used")
				}
			}
		}
	}

	// ---- path part
	cfg := PathConfig{
		P:      p,
		Inline: func(fn *ssa.Function) bool { return isCmdPkg(RelPkg(fn)) },
		Classify: func(call ssa.CallInstruction, callee types.Object, args []AV) (*Token, bool) {
			name := funcFullName(callee)
			switch name {
			case "os.Exit":
				lbl := "?"
				if len(args) == 1 && args[0].Kind == avConst {
					lbl = args[0].Const.ExactString()
				}
				return &Token{Kind: "exit", Label: lbl}, true
			case "fmt.Println", "fmt.Print", "fmt.Printf":
				return &Token{Kind: "print", Label: "stdout:" + strings.TrimPrefix(name, "fmt.")}, false
			case "fmt.Fprintln", "fmt.Fprint", "fmt.Fprintf":
				stream := "?"
				if len(args) > 0 {
					a := args[0]
					if a.Global != nil {
						stream = strings.ToLower(strings.TrimPrefix(a.Global.Name(), "Std"))
						if a.Global.Name() == "Stdout" {
							stream = "stdout"
						} else if a.Global.Name() == "Stderr" {
							stream = "stderr"
						}
					} else if ui, ok := a.Origin.(*ssa.UnOp); ok {
						if g, ok := ui.X.(*ssa.Global); ok {
							stream = map[string]string{"Stdout": "stdout", "Stderr": "stderr"}[g.Name()]
						}
					}
				}
				return &Token{Kind: "print", Label: stream + ":" + strings.TrimPrefix(name, "fmt.")}, false
			case "(*os.File).WriteString", "(*os.File).Write", "io.WriteString", "os.WriteFile", "io/ioutil.WriteFile":
				return &Token{Kind: "write", Label: name}, false
			case "(*os.File).Sync":
				return &Token{Kind: "sync"}, false
			case "os.OpenFile":
				return &Token{Kind: "open"}, false
			case "os.Create":
				return &Token{Kind: "create"}, false
			}
			if f := call.Common().StaticCallee(); f != nil && IsModuleFunc(f) && !isCmdPkg(RelPkg(f)) {
				return &Token{Kind: "lib", Label: FuncKey(f)}, false
			}
			if callee != nil && strings.HasPrefix(name, "fmt.S") {
				return nil, false
			}
			return nil, false
		},
		MayPanic: func(call ssa.CallInstruction, callee types.Object) bool {
			if f := call.Common().StaticCallee(); f != nil && IsModuleFunc(f) && !isCmdPkg(RelPkg(f)) {
				return resultHasError(f.Signature) >= 0 // the pipeline functions; pure helpers such as Encode do not fail
			}
			return false
		},
	}
	var entries []*ssa.Function
	entries = append(entries, p.ExportedFuncs("cmd/commands")...)
	if m := p.Func("cmd", "main"); m != nil {
		entries = append(entries, m)
	}
	r.Analysed["commands"] = len(entries)
	total := 0
	for _, en := range entries {
		eng := newPathEngine(cfg)
		outs, _ := eng.Run(en, nil, nil)
		sortOutcomes(outs)
		total += len(outs)
		key := FuncKey(en)
		if eng.over {
			r.Unknown("C18.W2", key, p.Pos(en.Pos()), "path limit exceeded")
			continue
		}
		seen := map[string]bool{}
		bad := func(rule, suffix, pos, msg string) {
			k := key + "#" + suffix
			if !seen[rule+k] {
				seen[rule+k] = true
				r.Bad(rule, k, pos, msg)
			}
		}
		w2ok, w3ok, w4ok, w1ok := true, true, true, true
		w7paths := 0
		libPaths, failPaths, writePaths := 0, 0, 0
		emittingPaths := 0
		for i := range outs {
			o := &outs[i]
			if o.Exit == "cut" {
				continue
			}
			hasLib := false
			failed := ""
			var failPos = en.Pos()
			emitted := 0
			stdoutPrints := 0
			for ti, t := range o.Trace {
				switch t.Kind {
				case "lib":
					hasLib = true
					// W5: the texts handed to the library are the files' contents themselves
					if ci, ok := t.Instr.(ssa.CallInstruction); ok {
						for ai, a := range ci.Common().Args {
							if !isStringType(a.Type()) {
								continue
							}
							k := fmt.Sprintf("lib-input@%s#%s#%d", FuncKey(t.Fn), t.Label, ai)
							if w5seen[key+k] {
								continue
							}
							w5seen[key+k] = true
							okIn, why := fileTextOrigin(a, 0)
							r.Check(okIn, "C18.W5", key+"#"+k, p.Pos(t.Pos), "the text given to the library is the content of the file named on the command line, unchanged", "the text given to "+t.Label+" is not the file's content as read: "+why+" (a command that edits its input before the library sees it gives other results than the library does on the same file)")
						}
					}
				case "err":
					if t.Label == "os.Stat" || t.Label == "os.Lstat" {
						break // the error of an existence probe is an answer, not a failure of the command (W14 judges its use)
					}
					if failed == "" {
						failed = "non-nil error from " + t.Label
						failPos = t.Pos
					}
				case "print":
					if strings.HasPrefix(t.Label, "stdout:") || strings.HasPrefix(t.Label, "?:") {
						stdoutPrints++
						if failed != "" {
							w3ok = false
							bad("C18.W3", "stdout-after-failure", p.Pos(t.Pos), fmt.Sprintf("%s, yet the command prints to stdout afterwards; path [%s]", failed, o.TraceString()))
						}
						// W2: what is printed?
						fn := strings.SplitN(t.Label, ":", 2)[1]
						operands := t.Args
						if strings.HasPrefix(fn, "F") && len(operands) > 0 {
							operands = operands[1:]
							fn = fn[1:]
						}
						isFmt := strings.HasSuffix(fn, "rintf")
						var vals []AV
						if isFmt {
							if len(operands) == 0 || operands[0].Kind != avConst {
								w2ok = false
								why := "a non-constant format string"
								if len(operands) > 0 {
									if operands[0].Origin != nil {
										why = "a format string computed at run time (" + describeOrigin(p, operands[0]) + ")"
									} else if operands[0].Kind == avSym {
										why = "a value received from the caller as the format string"
									}
								}
								bad("C18.W2", "format", p.Pos(t.Pos), "stdout is written through a printf-style call with "+why+": a % in the text is interpreted instead of printed")
								continue
							}
							format := constant.StringVal(operands[0].Const)
							if len(operands) > 1 && operands[1].Kind == avSlice {
								vals = operands[1].Tuple
							}
							if len(vals) > 0 && !(format == "%s" || format == "%s\n" || format == "%v" || format == "%v\n") {
								// a constant format with operands: acceptable only for constant help texts (no library value)
								for _, v := range vals {
									if isLibAV(v) {
										w2ok = false
										bad("C18.W2", "format-wrap", p.Pos(t.Pos), fmt.Sprintf("the library's value is printed under the format %q", format))
									}
								}
								continue
							}
						} else if len(operands) > 0 && operands[0].Kind == avSlice {
							vals = operands[0].Tuple
						}
						for _, v := range vals {
							if v.Kind == avConst || v.Const != nil {
								continue // constant message ("Compile Success!")
							}
							emitted++
							if ok, why := avIsLibValue(v); !ok {
								w2ok = false
								bad("C18.W2", "printed-value@"+FuncKey(t.Fn), p.Pos(t.Pos), "the value printed to stdout is not the library's value: "+why)
							}
						}
					}
				case "write":
					writePaths++
					if failed != "" {
						w3ok = false
						bad("C18.W3", "write-after-failure", p.Pos(t.Pos), fmt.Sprintf("%s, yet the command writes the output file afterwards", failed))
					}
					// written content: last argument
					if len(t.Args) >= 2 {
						emitted++
						if ok, why := avIsLibValue(t.Args[len(t.Args)-1]); !ok {
							w2ok = false
							bad("C18.W2", "written-value@"+FuncKey(t.Fn), p.Pos(t.Pos), "the text written to the file is not the library's value: "+why)
						}
						// W1: the receiver was opened with truncation
						recv := t.Args[0]
						okOpen := false
						if ci, ok := recv.Origin.(ssa.CallInstruction); ok {
							switch funcFullName(ssaCalleeObj(ci)) {
							case "os.Create":
								okOpen = true
							case "os.OpenFile":
								if fl, ok := ci.Common().Args[1].(*ssa.Const); ok && fl.Value != nil {
									flags := int(fl.Int64())
									okOpen = flags&syscall.O_TRUNC != 0 || flags&syscall.O_APPEND != 0 || (flags&syscall.O_CREAT != 0 && flags&syscall.O_EXCL != 0)
								}
							}
						}
						if !okOpen {
							w1ok = false
							bad("C18.W1", "written-file", p.Pos(t.Pos), "the file written here was not opened by os.Create or by os.OpenFile with O_TRUNC on this path: "+describeOrigin(p, recv))
						}
					}
					// W4: a sync follows
					synced := false
					for _, t2 := range o.Trace[ti+1:] {
						if t2.Kind == "sync" {
							synced = true
						}
					}
					if !synced && o.Exit != "panic" && failedAfter(o.Trace[ti+1:]) == "" {
						w4ok = false
						bad("C18.W4", "no-sync", p.Pos(t.Pos), "the write is not followed by a Sync on a path that ends normally")
					}
				case "recovered":
					w3ok = false
					bad("C18.W3", "recover", p.Pos(t.Pos), "a panic is recovered in a command: the failure may end with exit status 0")
				}
			}
			if hasLib {
				libPaths++
			}
			// W7: a path that complains on stderr (wrong usage, unknown command) is a failure: non-zero status
			stderrPrints := 0
			for _, t := range o.Trace {
				if t.Kind == "print" && strings.HasPrefix(t.Label, "stderr:") {
					stderrPrints++
				}
			}
			if stderrPrints > 0 && failed == "" {
				w7paths++
				okExit := o.Exit == "panic" || (o.Exit == "exit" && o.ExitCode.Kind == avConst && o.ExitCode.Const.ExactString() != "0")
				if !okExit {
					code := ""
					if o.Exit == "exit" && o.ExitCode.Kind == avConst {
						code = "(" + o.ExitCode.Const.ExactString() + ")"
					}
					bad("C18.W7", "exit-after-usage-error", p.Pos(en.Pos()), fmt.Sprintf("the command reports a usage error on stderr and then ends with %s%s: scripts see success; path [%s]", o.Exit, code, o.TraceString()))
				}
			}
			if failed == "" && o.Exit == "panic" && o.PanicAt != nil {
				// the library panicked: nothing must have been printed before
				if stdoutPrints > 0 {
					w3ok = false
					bad("C18.W3", "stdout-before-panic", p.Pos(o.PanicAt.Pos()), "stdout was written before a later step of the command panicked")
				}
				failPaths++
				continue
			}
			if failed != "" {
				failPaths++
				okExit := o.Exit == "panic" || (o.Exit == "exit" && o.ExitCode.Kind == avConst && o.ExitCode.Const.ExactString() != "0")
				if !okExit {
					w3ok = false
					code := ""
					if o.Exit == "exit" && o.ExitCode.Kind == avConst {
						code = "(" + o.ExitCode.Const.ExactString() + ")"
					}
					bad("C18.W3", "exit-after-failure", p.Pos(failPos), fmt.Sprintf("%s, yet the command ends with %s%s instead of a non-zero status; path [%s]; decisions: %s", failed, o.Exit, code, o.TraceString(), strings.Join(o.Decisions, "; ")))
				}
				continue
			}
			// success path of a command that produced a library value: emitted exactly once
			if hasLib && (o.Exit == "exit" || o.Exit == "return") && producesText(en) {
				// (a path that emits nothing cannot be told apart from the infeasible "neither 4 nor 5 arguments" path, so
				// zero emissions are not reported; at least one emitting path per command is required below)
				if emitted > 1 {
					w2ok = false
					bad("C18.W2", fmt.Sprintf("emitted=%d", emitted), p.Pos(en.Pos()), fmt.Sprintf("a successful path emits the result %d times; path [%s]; decisions: %s", emitted, o.TraceString(), strings.Join(o.Decisions, "; ")))
				}
				if emitted == 1 {
					emittingPaths++
				}
			}
		}
		if w7paths > 0 && !seen["C18.W7"+key+"#exit-after-usage-error"] {
			r.OK("C18.W7", key+"#usage-errors", p.Pos(en.Pos()), fmt.Sprintf("%d path(s) write to stderr: all end with a non-zero status or a panic", w7paths))
		}
		if libPaths > 0 {
			if w2ok && producesText(en) && emittingPaths == 0 && en.Name() != "main" {
				w2ok = false
				r.Bad("C18.W2", key+"#never-emitted", p.Pos(en.Pos()), "the command obtains a result from the library but no successful path prints or writes it")
			}
			if w2ok {
				r.OK("C18.W2", key, p.Pos(en.Pos()), fmt.Sprintf("%d paths (%d emitting): the emitted text is the library's value, at most once per path", len(outs), emittingPaths))
			}
			if w3ok {
				if failPaths == 0 {
					r.Unknown("C18.W3", key, p.Pos(en.Pos()), "no failing path was found for a command that calls the library")
				} else {
					r.OK("C18.W3", key, p.Pos(en.Pos()), fmt.Sprintf("%d failing paths: nothing on stdout, panic or non-zero exit", failPaths))
				}
			}
		}
		if writePaths > 0 {
			if w4ok {
				r.OK("C18.W4", key, p.Pos(en.Pos()), fmt.Sprintf("%d writing paths: each write is followed by Sync", writePaths))
			}
			if w1ok {
				r.OK("C18.W1", key+"#written-file", p.Pos(en.Pos()), "every written file was created or opened with truncation on the same path")
			}
		}
	}
	r.Analysed["paths_enumerated"] = total
	_ = sort.Strings
}

func failedAfter(ts []Token) string {
	for _, t := range ts {
		if t.Kind == "err" {
			return t.Label
		}
	}
	return ""
}

// producesText: the command's library call returns something besides an error that the command is meant to emit.
func producesText(fn *ssa.Function) bool {
	// Compile only reports success; commands whose library call result (other than the error) is unused emit nothing
	for _, b := range fn.Blocks {
		for _, ins := range b.Instrs {
			if call, ok := ins.(*ssa.Call); ok {
				if f := call.Call.StaticCallee(); f != nil && IsModuleFunc(f) && !isCmdPkg(RelPkg(f)) && resultHasError(f.Signature) >= 0 {
					for _, ref := range nonDebugRefs(call) {
						if ex, ok := ref.(*ssa.Extract); ok && !isErrorType(ex.Type()) && reallyUsed(ex, 0) {
							return true
						}
					}
				}
			}
		}
	}
	return false
}

func isLibAV(v AV) bool {
	ok, _ := avIsLibValue(v)
	return ok
}

// avIsLibValue: the abstract value's producing instruction is a library value in the sense of libValue.
func avIsLibValue(v AV) (bool, string) {
	if v.Kind == avConst {
		return false, "a constant"
	}
	if v.Origin == nil {
		if v.Param != nil {
			return false, "an entry parameter"
		}
		return false, "a value of unknown origin"
	}
	if val, ok := v.Origin.(ssa.Value); ok {
		if call, isCall := val.(*ssa.Call); isCall && v.Index >= 0 {
			f := call.Call.StaticCallee()
			if f != nil && IsModuleFunc(f) && !isCmdPkg(RelPkg(f)) {
				return true, FuncKey(f)
			}
			return false, "the result of " + calleeName(call) + ", computed on the command side"
		}
		return libValue(val, 0)
	}
	return false, fmt.Sprintf("produced by %T", v.Origin)
}

func describeOrigin(p *Prog, v AV) string {
	if v.Origin == nil {
		return "unknown origin"
	}
	if val, ok := v.Origin.(ssa.Value); ok {
		return fmt.Sprintf("%s at %s", describeValue(p, val), p.Pos(v.Origin.Pos()))
	}
	return fmt.Sprintf("%T at %s", v.Origin, p.Pos(v.Origin.Pos()))
}

// fileTextOrigin: v is the content of a file as read (os.ReadFile / ioutil.ReadFile / io.ReadAll), possibly converted
// between []byte and string and passed through helpers of the command package that return it as is; constants and
// command-line arguments themselves are accepted too.
func fileTextOrigin(v ssa.Value, depth int) (bool, string) {
	if depth > 6 {
		return false, "origin too deep to follow"
	}
	switch x := v.(type) {
	case *ssa.Const:
		return true, ""
	case *ssa.Convert:
		return fileTextOrigin(x.X, depth+1)
	case *ssa.ChangeType:
		return fileTextOrigin(x.X, depth+1)
	case *ssa.Extract:
		if call, ok := x.Tuple.(*ssa.Call); ok {
			return fileTextCall(call, x.Index, depth)
		}
	case *ssa.Call:
		return fileTextCall(x, 0, depth)
	case *ssa.Phi:
		for _, e := range x.Edges {
			if ok, why := fileTextOrigin(e, depth+1); !ok {
				return false, why
			}
		}
		return true, ""
	case *ssa.UnOp:
		if x.Op == token.MUL {
			switch a := x.X.(type) {
			case *ssa.Alloc:
				okAll, why := true, ""
				n := 0
				if refs := a.Referrers(); refs != nil {
					for _, ref := range *refs {
						if st, ok := ref.(*ssa.Store); ok && st.Addr == a {
							n++
							if ok, w := fileTextOrigin(st.Val, depth+1); !ok {
								okAll, why = false, w
							}
						}
					}
				}
				if n > 0 {
					return okAll, why
				}
			case *ssa.IndexAddr:
				if ld, ok := a.X.(*ssa.UnOp); ok {
					if g, ok := ld.X.(*ssa.Global); ok && g.Pkg != nil && g.Pkg.Pkg.Path() == "os" && g.Name() == "Args" {
						return true, ""
					}
				}
			}
		}
	}
	return false, "it is " + v.String() + " (" + fmt.Sprintf("%T", v) + ")"
}

func fileTextCall(call *ssa.Call, index int, depth int) (bool, string) {
	name := funcFullName(ssaCalleeObj(call))
	switch name {
	case "os.ReadFile", "io/ioutil.ReadFile", "io.ReadAll", "io/ioutil.ReadAll":
		return index == 0, ""
	}
	f := call.Call.StaticCallee()
	if f != nil && IsModuleFunc(f) && isCmdPkg(RelPkg(f)) && f.Blocks != nil {
		// a helper that hands one of its arguments back unchanged: follow that argument at this call site
		var asValue ssa.Value = call
		if call.Call.Signature().Results().Len() > 1 {
			asValue = nil
			if refs := call.Referrers(); refs != nil {
				for _, ref := range *refs {
					if ex, ok := ref.(*ssa.Extract); ok && ex.Index == index {
						asValue = ex
					}
				}
			}
		}
		if asValue != nil {
			if through := seeThroughHelper(asValue); through != asValue {
				return fileTextOrigin(through, depth+1)
			}
		}
		n := 0
		for _, b := range f.Blocks {
			for _, ins := range b.Instrs {
				if ret, ok := ins.(*ssa.Return); ok && index < len(ret.Results) {
					n++
					if ok, why := fileTextOrigin(ret.Results[index], depth+1); !ok {
						return false, why
					}
				}
			}
		}
		if n > 0 {
			return true, ""
		}
	}
	return false, "it is the result of " + name
}

// reallyUsed: the value is used for something else than being handed to a helper that gives it back unchanged and whose
// own result is not used (helpers.Must(lib(...)) as a statement only checks the error).
func reallyUsed(v ssa.Value, depth int) bool {
	if depth > 4 {
		return true
	}
	for _, ref := range nonDebugRefs(v) {
		call, ok := ref.(*ssa.Call)
		if !ok {
			return true
		}
		f := call.Call.StaticCallee()
		if f == nil || !IsModuleFunc(f) || !isCmdPkg(RelPkg(f)) {
			return true
		}
		if call.Call.Signature().Results().Len() == 1 && seeThroughHelper(call) == v {
			if reallyUsed(call, depth+1) {
				return true
			}
			continue
		}
		return true
	}
	return false
}
