package main

import (
	"fmt"
	"go/ast"
	"go/token"
	"go/types"
	"strings"

	"golang.org/x/tools/go/packages"
	"golang.org/x/tools/go/ssa"
)

// E-order: for every `range` over a map, decide whether the iteration order can escape the loop.
// The loop is order-insensitive when every effect of its body is confined to
//   - variables declared inside the loop,
//   - the value of the current iteration and what it refers to (v, &v, projections of v),
//   - other maps indexed by (an expression of) the current key,
//   - commutative integer accumulation (n++, n += x), assignment of a loop-invariant constant (found = true),
//   - a slice that is sorted, in the same function, after the loop and before any other use.
// Anything else - appending to an outer slice that is not sorted afterwards, building a string, calling a function that
// mutates an outer object, writing through an outer pointer, returning/breaking with a value picked in the loop - lets
// the order escape.

type orderFinding struct {
	Pos    token.Pos
	Why    string
	Sorted []string // accumulators proven sorted
}

type orderAnalysis struct {
	p  *Prog
	ms *mutationSummary
}

func (oa *orderAnalysis) analyseRange(pk *packages.Package, fd *ast.FuncDecl, funcBody *ast.BlockStmt, rs *ast.RangeStmt) (escapes []string, notes []string) {
	info := pk.TypesInfo
	inLoop := func(obj types.Object) bool {
		return obj != nil && obj.Pos() >= rs.Pos() && obj.Pos() <= rs.End()
	}
	var keyObj, valObj types.Object
	if id, ok := rs.Key.(*ast.Ident); ok && id.Name != "_" {
		keyObj = info.Defs[id]
		if keyObj == nil {
			keyObj = info.Uses[id]
		}
	}
	if rs.Value != nil {
		if id, ok := rs.Value.(*ast.Ident); ok && id.Name != "_" {
			valObj = info.Defs[id]
			if valObj == nil {
				valObj = info.Uses[id]
			}
		}
	}
	// rootObj: the variable an lvalue / argument expression is rooted in
	var rootObj func(e ast.Expr) types.Object
	rootObj = func(e ast.Expr) types.Object {
		switch x := ast.Unparen(e).(type) {
		case *ast.Ident:
			if o := info.Uses[x]; o != nil {
				return o
			}
			return info.Defs[x]
		case *ast.SelectorExpr:
			if _, isPkg := info.Uses[identOf(x.X)].(*types.PkgName); isPkg {
				return info.Uses[x.Sel]
			}
			return rootObj(x.X)
		case *ast.IndexExpr:
			return rootObj(x.X)
		case *ast.StarExpr:
			return rootObj(x.X)
		case *ast.UnaryExpr:
			return rootObj(x.X)
		case *ast.SliceExpr:
			return rootObj(x.X)
		case *ast.TypeAssertExpr:
			return rootObj(x.X)
		case *ast.CallExpr:
			return nil
		}
		return nil
	}
	// locals bound inside the loop to (projections of) the iteration value count as iteration-local
	usesKey := func(e ast.Expr) bool {
		found := false
		ast.Inspect(e, func(n ast.Node) bool {
			if id, ok := n.(*ast.Ident); ok && keyObj != nil && (info.Uses[id] == keyObj) {
				found = true
			}
			return true
		})
		return found
	}
	var accumulators []types.Object // outer slices appended to
	addEscape := func(pos token.Pos, msg string) {
		escapes = append(escapes, fmt.Sprintf("%s at %s", msg, oa.p.Pos(pos)))
	}
	isLocalOrIter := func(o types.Object) bool {
		return o == nil || inLoop(o) || o == valObj || o == keyObj
	}
	ast.Inspect(rs.Body, func(n ast.Node) bool {
		switch x := n.(type) {
		case *ast.FuncLit:
			return true
		case *ast.AssignStmt:
			for i, lhs := range x.Lhs {
				if id, ok := lhs.(*ast.Ident); ok && id.Name == "_" {
					continue
				}
				o := rootObj(lhs)
				if x.Tok == token.DEFINE && isLocalOrIter(o) {
					continue
				}
				if isLocalOrIter(o) {
					continue
				}
				// outer variable
				switch l := ast.Unparen(lhs).(type) {
				case *ast.IndexExpr:
					if _, isMap := info.Types[l.X].Type.Underlying().(*types.Map); isMap {
						if usesKey(l.Index) {
							continue // other map indexed by the current key
						}
						// indexed by something else: when two iterations collide the last writer wins - unless every writer
						// stores the same thing, a value built from the index alone (m[id] = T{"@id": id}) or a constant
						if i < len(x.Rhs) && x.Tok == token.ASSIGN && determinedByIndex(info, x.Rhs[i], l.Index) {
							continue
						}
						addEscape(l.Pos(), "an outer map is written under a key that is not the iteration key")
						continue
					}
					addEscape(l.Pos(), "an outer slice/array element is assigned")
				default:
					// x = append(x, ...)
					if i < len(x.Rhs) {
						if call, ok := ast.Unparen(x.Rhs[i]).(*ast.CallExpr); ok {
							if fid, ok := call.Fun.(*ast.Ident); ok && fid.Name == "append" && info.Uses[fid] == types.Universe.Lookup("append") && len(call.Args) > 0 && rootObj(call.Args[0]) == o {
								accumulators = append(accumulators, o)
								continue
							}
						}
						if x.Tok == token.ADD_ASSIGN || x.Tok == token.SUB_ASSIGN || x.Tok == token.OR_ASSIGN || x.Tok == token.AND_ASSIGN {
							if bt, ok := info.Types[lhs].Type.Underlying().(*types.Basic); ok && bt.Info()&types.IsInteger != 0 {
								continue // commutative accumulation
							}
						}
						if tv, ok := info.Types[x.Rhs[i]]; ok && tv.Value != nil && x.Tok == token.ASSIGN {
							continue // loop-invariant constant (found = true)
						}
					}
					addEscape(lhs.Pos(), fmt.Sprintf("the outer variable %s is assigned a value that depends on the iteration", types.ExprString(lhs)))
				}
			}
		case *ast.IncDecStmt:
			// commutative
		case *ast.ReturnStmt:
			for _, res := range x.Results {
				if tv, ok := info.Types[res]; ok && tv.Value != nil {
					continue
				}
				if id, ok := ast.Unparen(res).(*ast.Ident); ok && (id.Name == "nil" || id.Name == "true" || id.Name == "false") {
					continue
				}
				// returning from inside the loop with an iteration-dependent value picks "the first" element
				dep := false
				ast.Inspect(res, func(m ast.Node) bool {
					if id, ok := m.(*ast.Ident); ok {
						if o := info.Uses[id]; o != nil && (o == keyObj || o == valObj || inLoop(o)) {
							dep = true
						}
					}
					return true
				})
				if dep {
					addEscape(x.Pos(), "the function returns from inside the loop with a value of the current iteration (the first one in iteration order)")
				}
			}
		case *ast.SendStmt:
			addEscape(x.Pos(), "a value is sent on a channel inside the loop")
		case *ast.CallExpr:
			if fid, ok := x.Fun.(*ast.Ident); ok {
				if b, isB := info.Uses[fid].(*types.Builtin); isB {
					switch b.Name() {
					case "append", "len", "cap", "make", "new", "panic", "print", "println", "min", "max":
						return true
					case "delete":
						if len(x.Args) == 2 && !isLocalOrIter(rootObj(x.Args[0])) && !usesKey(x.Args[1]) {
							addEscape(x.Pos(), "delete on an outer map under a key that is not the iteration key")
						}
						return true
					case "copy", "clear":
						if len(x.Args) > 0 && !isLocalOrIter(rootObj(x.Args[0])) {
							addEscape(x.Pos(), b.Name()+" into an outer slice")
						}
						return true
					}
				}
			}
			if tv, ok := info.Types[x.Fun]; ok && tv.IsType() {
				return true // conversion
			}
			callee := calleeOf(info, x)
			var args []ast.Expr
			if sel, ok := ast.Unparen(x.Fun).(*ast.SelectorExpr); ok {
				if s := info.Selections[sel]; s != nil && s.Kind() == types.MethodVal {
					args = append(args, sel.X) // receiver as argument 0
				}
			}
			args = append(args, x.Args...)
			var ssaFn *ssa.Function
			if f, ok := callee.(*types.Func); ok {
				ssaFn = oa.p.SSA.FuncValue(f)
			}
			for i, a := range args {
				o := rootObj(a)
				if isLocalOrIter(o) {
					continue
				}
				tv, ok := info.Types[a]
				if !ok || !refTypeDeep(tv.Type) {
					if _, isAddr := ast.Unparen(a).(*ast.UnaryExpr); !isAddr {
						continue // passed by value, no references inside
					}
				}
				// an outer reference is handed to a call
				if ssaFn != nil && IsModuleFunc(ssaFn) {
					if why := oa.ms.mutates[ssaFn][i]; why != "" {
						addEscape(x.Pos(), fmt.Sprintf("the outer object %s is passed to %s, which mutates it (%s)", types.ExprString(a), FuncKey(ssaFn), why))
					}
					continue
				}
				name := funcFullName(callee)
				if readOnlyExternal(name) || pureExternal[name] {
					continue
				}
				if callee == nil {
					addEscape(x.Pos(), fmt.Sprintf("the outer object %s is passed to a dynamic call", types.ExprString(a)))
					continue
				}
				if f, ok := callee.(*types.Func); ok && f.Type().(*types.Signature).Recv() != nil && i == 0 {
					// method on an outer object of a dependency type (strings.Builder.WriteString, bytes.Buffer.Write, ...)
					if mutatingMethodName(f.Name()) {
						addEscape(x.Pos(), fmt.Sprintf("%s is called on the outer object %s inside the loop", name, types.ExprString(a)))
					}
					continue
				}
				if strings.HasPrefix(name, "sort.") {
					continue
				}
				addEscape(x.Pos(), fmt.Sprintf("the outer object %s is passed to %s, which is not known to leave it unchanged", types.ExprString(a), name))
			}
		}
		return true
	})
	// accumulators must be sorted after the loop, before any other use, in the same function
	for _, acc := range accumulators {
		if sortedAfter(info, funcBody, rs, acc) {
			notes = append(notes, acc.Name()+" is sorted after the loop")
		} else {
			addEscape(rs.Pos(), fmt.Sprintf("elements are appended to the outer slice %s in iteration order and it is not sorted before use", acc.Name()))
		}
	}
	return escapes, notes
}

func mutatingMethodName(n string) bool {
	for _, p := range []string{"Write", "Add", "Set", "Push", "Append", "Insert", "Put", "Store", "Encode", "Print", "Reset", "Grow", "Delete", "Remove"} {
		if strings.HasPrefix(n, p) {
			return true
		}
	}
	return false
}

func identOf(e ast.Expr) *ast.Ident {
	id, _ := ast.Unparen(e).(*ast.Ident)
	return id
}

// sortedAfter: the first statement after the loop (in source order, same function) that mentions acc is a call to
// sort.Strings / sort.Slice / sort.Sort / sort.Stable / slices.Sort* with acc as (part of) its first argument.
func sortedAfter(info *types.Info, body *ast.BlockStmt, rs *ast.RangeStmt, acc types.Object) bool {
	var first ast.Node
	ast.Inspect(body, func(n ast.Node) bool {
		if first != nil || n == nil {
			return false
		}
		if n.Pos() >= rs.Pos() && n.End() <= rs.End() {
			return false // inside the loop
		}
		if id, ok := n.(*ast.Ident); ok && id.Pos() > rs.End() && info.Uses[id] == acc {
			first = id
			return false
		}
		return true
	})
	if first == nil {
		return false
	}
	// the enclosing call of that first mention
	ok := false
	ast.Inspect(body, func(n ast.Node) bool {
		call, isCall := n.(*ast.CallExpr)
		if !isCall || !(call.Pos() <= first.Pos() && first.End() <= call.End()) {
			return true
		}
		name := funcFullName(calleeOf(info, call))
		switch name {
		case "sort.Strings", "sort.Ints", "sort.Float64s", "sort.Slice", "sort.SliceStable", "sort.Sort", "sort.Stable", "slices.Sort", "slices.SortFunc", "slices.SortStableFunc":
			if len(call.Args) > 0 && call.Args[0].Pos() <= first.Pos() && first.End() <= call.Args[0].End() {
				ok = true
			}
		}
		return true
	})
	return ok
}

// determinedByIndex: the stored value is a function of the index expression alone: it contains no call and every
// variable it mentions is mentioned by the index (m[id] = T{"@id": id}; m[k] = true).
func determinedByIndex(info *types.Info, val, idx ast.Expr) bool {
	inIdx := map[types.Object]bool{}
	ast.Inspect(idx, func(n ast.Node) bool {
		if id, ok := n.(*ast.Ident); ok {
			if v, ok := info.Uses[id].(*types.Var); ok {
				inIdx[v] = true
			}
		}
		return true
	})
	ok := true
	ast.Inspect(val, func(n ast.Node) bool {
		switch x := n.(type) {
		case *ast.CallExpr:
			if tv, isT := info.Types[x.Fun]; !(isT && tv.IsType()) {
				ok = false
			}
		case *ast.Ident:
			if v, isVar := info.Uses[x].(*types.Var); isVar && !inIdx[v] {
				ok = false
			}
		case *ast.FuncLit:
			ok = false
		}
		return ok
	})
	return ok
}
