package main

import (
	_ "embed"
	"fmt"
	"go/token"
	"go/types"
	"os"
	"path/filepath"
	"sort"
	"strings"

	"golang.org/x/tools/go/packages"
	"golang.org/x/tools/go/ssa"
	"golang.org/x/tools/go/ssa/ssautil"
)

// Detectors of constructs that rules expect to find zero times in the repository, and the canary that keeps them honest:
// checker/canary/canary.go holds one instance of each construct; it is loaded on every run and handed to the very same
// detector functions; a detector that finds nothing there makes the rule undecided instead of vacuously true.

// nondetSource classifies a callee by name: "clock", "timer", "random", "env", "reflect-range" or "".
func nondetSource(name string) string {
	switch {
	case name == "time.Now" || name == "time.Since" || name == "time.Until":
		return "clock"
	case name == "context.WithTimeout" || name == "context.WithDeadline" || name == "context.WithTimeoutCause" || name == "context.WithDeadlineCause" ||
		name == "time.After" || name == "time.AfterFunc" || name == "time.NewTimer" || name == "time.Tick" || name == "time.NewTicker":
		return "timer"
	case strings.HasPrefix(name, "math/rand.") || strings.HasPrefix(name, "(*math/rand.") || strings.HasPrefix(name, "crypto/rand.") || strings.HasPrefix(name, "math/rand/v2."):
		return "random"
	case name == "os.Getenv" || name == "os.Environ" || name == "os.LookupEnv" || name == "os.Getpid" || name == "os.Hostname":
		return "env"
	case name == "(reflect.Value).MapKeys" || name == "(reflect.Value).MapRange":
		return "reflect-range"
	}
	return ""
}

// nondetKind classifies one instruction for C06.D2: "select", "go", one of nondetSource's classes, or "".
func nondetKind(ins ssa.Instruction) (kind, name string) {
	switch x := ins.(type) {
	case *ssa.Select:
		return "select", "select"
	case *ssa.Go:
		return "go", "go"
	case ssa.CallInstruction:
		name = funcFullName(ssaCalleeObj(x))
		return nondetSource(name), name
	}
	return "", ""
}

// stdStreamWrite: the instruction prints to standard output or standard error (C18.W8); what names the means.
func stdStreamWrite(ins ssa.Instruction) (what string) {
	if x, ok := ins.(ssa.CallInstruction); ok {
		name := funcFullName(ssaCalleeObj(x))
		switch {
		case name == "fmt.Print" || name == "fmt.Printf" || name == "fmt.Println":
			what = name
		case strings.HasPrefix(name, "log.") || strings.HasPrefix(name, "(*log.Logger)."):
			what = name
		}
		if bi, ok := x.Common().Value.(*ssa.Builtin); ok && (bi.Name() == "print" || bi.Name() == "println") {
			what = bi.Name()
		}
	}
	for _, op := range ins.Operands(nil) {
		if g, ok := (*op).(*ssa.Global); ok && g.Pkg != nil && g.Pkg.Pkg.Path() == "os" && (g.Name() == "Stdout" || g.Name() == "Stderr") {
			what = "os." + g.Name()
		}
	}
	return what
}

// untypedJSONTarget: the instruction decodes JSON into an untyped target (any, map[string]any, []any); kind is
// "json.Unmarshal" or "Decoder.Decode" (then dec is the decoder value), "" otherwise.
func untypedJSONTarget(ins ssa.Instruction) (kind string, dec ssa.Value) {
	ci, ok := ins.(ssa.CallInstruction)
	if !ok {
		return "", nil
	}
	untyped := func(t types.Type) bool {
		if pt, ok := t.Underlying().(*types.Pointer); ok {
			t = pt.Elem()
		}
		var has func(t types.Type, d int) bool
		has = func(t types.Type, d int) bool {
			if d > 4 {
				return false
			}
			switch u := t.Underlying().(type) {
			case *types.Interface:
				return true
			case *types.Map:
				return has(u.Elem(), d+1)
			case *types.Slice:
				return has(u.Elem(), d+1)
			case *types.Pointer:
				return has(u.Elem(), d+1)
			}
			return false
		}
		return has(t, 0)
	}
	args := ci.Common().Args
	switch funcFullName(ssaCalleeObj(ci)) {
	case "encoding/json.Unmarshal":
		if len(args) == 2 {
			tgt := args[1]
			if mi, ok := tgt.(*ssa.MakeInterface); ok {
				tgt = mi.X
			}
			if untyped(tgt.Type()) {
				return "json.Unmarshal", nil
			}
		}
	case "(*encoding/json.Decoder).Decode":
		if len(args) == 2 {
			tgt := args[1]
			if mi, ok := tgt.(*ssa.MakeInterface); ok {
				tgt = mi.X
			}
			if untyped(tgt.Type()) {
				return "Decoder.Decode", args[0]
			}
		}
	}
	return "", nil
}

//go:embed canary/canary.go
var canarySource string

var canaryFuncs []*ssa.Function
var canaryErr error
var canaryLoaded bool

// canary returns the functions of checker/canary/canary.go (embedded in the binary), type-checked and in SSA form.
func canary(c *Ctx) ([]*ssa.Function, error) {
	if canaryLoaded {
		return canaryFuncs, canaryErr
	}
	canaryLoaded = true
	// the source is part of the binary; it is written to a scratch directory for the loader and removed again
	dir, err := os.MkdirTemp("", "acvlint-canary-")
	if err != nil {
		canaryErr = fmt.Errorf("no scratch directory for the canary package: %v", err)
		return nil, canaryErr
	}
	defer os.RemoveAll(dir)
	if err := os.WriteFile(filepath.Join(dir, "go.mod"), []byte("module canary\n\ngo 1.19\n"), 0o644); err != nil {
		canaryErr = err
		return nil, canaryErr
	}
	if err := os.WriteFile(filepath.Join(dir, "canary.go"), []byte(canarySource), 0o644); err != nil {
		canaryErr = err
		return nil, canaryErr
	}
	cfg := &packages.Config{Mode: packages.LoadAllSyntax, Dir: dir, Fset: token.NewFileSet(), Env: loadEnv("", "")}
	roots, err := packages.Load(cfg, ".")
	if err != nil || len(roots) != 1 {
		canaryErr = fmt.Errorf("the canary package in %s could not be loaded: %v", dir, err)
		return nil, canaryErr
	}
	for _, e := range roots[0].Errors {
		canaryErr = fmt.Errorf("the canary package does not type-check: %v", e)
		return nil, canaryErr
	}
	prog, pkgs := ssautil.Packages(roots, ssa.InstantiateGenerics)
	prog.Build()
	if len(pkgs) != 1 || pkgs[0] == nil {
		canaryErr = fmt.Errorf("no SSA form for the canary package")
		return nil, canaryErr
	}
	for _, m := range pkgs[0].Members {
		if f, ok := m.(*ssa.Function); ok && len(f.Blocks) > 0 {
			canaryFuncs = append(canaryFuncs, f)
			canaryFuncs = append(canaryFuncs, f.AnonFuncs...)
		}
	}
	sort.Slice(canaryFuncs, func(i, j int) bool { return canaryFuncs[i].Name() < canaryFuncs[j].Name() })
	return canaryFuncs, nil
}

// canaryCheck requires that the detector reports each of the wanted kinds somewhere in the canary package.
func canaryCheck(c *Ctx, rid string, want []string, detect func(ins ssa.Instruction) string) {
	fns, err := canary(c)
	if err != nil {
		c.R.Unknown(rid, "canary", "", err.Error())
		return
	}
	seen := map[string]bool{}
	for _, f := range fns {
		for _, b := range f.Blocks {
			for _, ins := range b.Instrs {
				if k := detect(ins); k != "" {
					seen[k] = true
				}
			}
		}
	}
	var missing []string
	for _, k := range want {
		if !seen[k] {
			missing = append(missing, k)
		}
	}
	c.R.Check(len(missing) == 0, rid, "canary", "checker/canary/canary.go", fmt.Sprintf("the detector finds all %d kinds of construct in the positive examples", len(want)), "the detector no longer finds "+strings.Join(missing, ", ")+" in the positive examples of checker/canary: the zero count in the repository would be vacuous")
}
