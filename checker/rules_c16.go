package main

import (
	"fmt"
	"go/ast"
	"go/types"
	"os"
	"path/filepath"
	"regexp"
	"sort"
	"strings"

	"golang.org/x/tools/go/ssa"
)

func init() { register("C16", checkC16) }

// the documented path alphabet: IRI characters, operators, modifiers, '@' of @type, whitespace
func inPathAlphabet(r rune) bool {
	switch {
	case r >= 'a' && r <= 'z', r >= 'A' && r <= 'Z', r >= '0' && r <= '9':
		return true
	}
	return strings.ContainsRune("_-./\\()|^*@ \n\t\r", r)
}

func checkC16(c *Ctx) {
	r, p := c.R, c.P
	r.Explanation = "Reads the PEG table the generated parser interprets (the grammar literal in peg.go) into a model and decides: (X1) the entry rule - the first rule, because the only call of Parse in the module passes no entry-point option - is a sequence that ends, after optional whitespace, in the end-of-input predicate `!.` and starts with optional whitespace, so no prefix of the string can be accepted; (X2) every literal and every character class of the grammar is contained in the documented path alphabet and no class is inverted or unbounded, so no stray character is ever consumed; (X3) the parser's error is returned as a non-nil error by the function that calls the parser and by each of its callers up to the profile parser (never dropped, never turned into nil); (X4) the grammar has no left recursion and no repetition of a nullable expression (termination), the grouping alternative returns the inner expression unchanged and operators are surrounded by the optional-whitespace rule (redundant parentheses and whitespace do not change the tree); (X5) the grammar source under third_party/ and the table agree on rule names, literals and character classes. Does not decide equality of the accepted language with the documented grammar beyond these facts."
	r.Declines = []string{"equality of the accepted language with the documented grammar beyond the structural facts above", "backtracking time of the PEG interpreter"}
	r.Trusted = []string{"the pigeon runtime embedded in peg.go interprets the table as PEG semantics prescribe"}
	r.Rule("C16.X1", "the entry rule consumes the whole input: _ Expression _ !.", 2)
	r.Rule("C16.X2", "all terminals lie inside the documented path alphabet", 6)
	r.Rule("C16.X3", "a syntax error is returned as a non-nil error up to the profile parser", 2)
	r.Rule("C16.X4", "no left recursion, no repetition of a nullable expression; grouping is transparent; operators admit whitespace", 4)
	r.Rule("C16.X5", "third_party/propertyparser.peg and the generated table agree", 3)

	g, err := loadPegGrammar(p, "internal/parser/path")
	if err != nil {
		r.Unknown("C16.X1", "grammar", "", err.Error())
		return
	}
	r.Analysed["peg_rules"] = len(g.Rules)
	null := g.nullableRules()

	// ---- X1
	pk := p.Pkg("internal/parser/path")
	// calls of the generated Parse function in non-generated module code: must pass no options
	parseCalls := 0
	for _, mp := range p.modPkgsSorted() {
		for _, file := range mp.Syntax {
			if strings.HasSuffix(p.Fset.Position(file.Pos()).Filename, "peg.go") {
				continue
			}
			ast.Inspect(file, func(n ast.Node) bool {
				call, ok := n.(*ast.CallExpr)
				if !ok {
					return true
				}
				callee := calleeOf(mp.TypesInfo, call)
				if !isFunc(callee, pk.PkgPath, "Parse") && !isFunc(callee, pk.PkgPath, "ParseReader") && !isFunc(callee, pk.PkgPath, "ParseFile") {
					return true
				}
				parseCalls++
				k := relOf(mp) + "." + enclosingFuncName(mp, call.Pos()) + "#Parse"
				r.Check(len(call.Args) <= 2 && !call.Ellipsis.IsValid(), "C16.X1", k, p.Pos(call.Pos()), "the parser is started at the grammar's first rule (no options)", "the parser is called with options: the entry rule or the expression budget may differ from the grammar's first rule")
				return true
			})
		}
	}
	entry := g.Rules[0]
	seq := entry.Expr.strip()
	okEntry, why := false, ""
	switch {
	case seq.Kind != "seq" || len(seq.Kids) < 2:
		why = "the entry rule " + entry.Name + " is not a sequence ending in the end-of-input predicate"
	default:
		last := seq.Kids[len(seq.Kids)-1].strip()
		if last.Kind != "not" || last.Kids[0].strip().Kind != "any" {
			why = "the entry rule " + entry.Name + " does not end in `!.`: the parser accepts the longest valid prefix and ignores the rest of the string"
		} else {
			okEntry = true
			first := seq.Kids[0].strip()
			beforeLast := seq.Kids[len(seq.Kids)-2].strip()
			isWS := func(e *pegExpr) bool { return e.Kind == "ref" && null[e.Val] && g.wsRule(e.Val) }
			if !isWS(first) || !isWS(beforeLast) {
				okEntry = false
				why = "the entry rule does not allow optional whitespace at both ends of the path"
			}
		}
	}
	r.Check(okEntry, "C16.X1", "grammar#entry:"+entry.Name, p.Pos(entry.Pos), "entry rule "+entry.Name+" = _ … _ !.", why)
	// the entry rule must not be reachable from itself or referenced by another rule (else `!.` would be required inside parentheses)
	refd := false
	for _, rl := range g.Rules {
		rl.Expr.walk(func(e *pegExpr) {
			if e.Kind == "ref" && e.Val == entry.Name {
				refd = true
			}
		})
	}
	if refd {
		r.Bad("C16.X1", "grammar#entry-referenced", p.Pos(entry.Pos), "the entry rule is referenced from inside the grammar: a parenthesised sub-expression would have to be followed by the end of input")
	}

	// ---- X2
	lits, classes := g.terminals()
	for _, l := range lits {
		bad := []rune{}
		for _, ch := range l {
			if !inPathAlphabet(ch) {
				bad = append(bad, ch)
			}
		}
		r.Check(len(bad) == 0, "C16.X2", "literal:"+fmt.Sprintf("%q", l), "", "inside the path alphabet", "the literal contains characters outside the documented path alphabet: "+quoteRunes(bad))
	}
	ordc := ordinal{}
	for _, cls := range classes {
		k := ordc.next("class:" + cls.Val)
		rs, ok := classRunes(cls)
		if !ok {
			r.Bad("C16.X2", k, p.Pos(cls.Pos), "the character class is inverted or unbounded: it admits characters outside the documented path alphabet")
			continue
		}
		var bad []rune
		for _, ch := range rs {
			if !inPathAlphabet(ch) {
				bad = append(bad, ch)
			}
		}
		r.Check(len(bad) == 0, "C16.X2", k, p.Pos(cls.Pos), fmt.Sprintf("%d characters, all inside the path alphabet", len(rs)), "the class admits characters outside the documented path alphabet: "+quoteRunes(bad))
	}

	// ---- X3: error discipline from the generated Parse up to the profile parser
	parseFn := p.Func("internal/parser/path", "Parse")
	if parseFn == nil {
		r.Unknown("C16.X3", "Parse", "", "generated Parse function not found")
	} else {
		// callers chain: functions (outside peg.go) that call Parse, and the callers of those, up to two levels
		level := map[*ssa.Function]bool{parseFn: true}
		checked := 0
		for depth := 0; depth < 3; depth++ {
			next := map[*ssa.Function]bool{}
			for _, fn := range p.ModuleFuncs() {
				if isGeneratedParserFunc(p, fn) || strings.HasSuffix(p.Fset.Position(fn.Pos()).Filename, "_test.go") {
					continue
				}
				var calls []ssa.CallInstruction
				for _, b := range fn.Blocks {
					for _, ins := range b.Instrs {
						if ci, ok := ins.(ssa.CallInstruction); ok {
							if callee := ci.Common().StaticCallee(); callee != nil && level[callee] && resultHasError(callee.Signature) >= 0 {
								calls = append(calls, ci)
							}
						}
					}
				}
				if len(calls) == 0 {
					continue
				}
				if resultHasError(fn.Signature) >= 0 {
					next[fn] = true
				}
				checked++
				localErrorDiscipline(c, "C16.X3", fn, calls)
			}
			if depth == 0 && len(next) == 0 {
				break
			}
			level = next
			if depth >= 1 {
				break
			}
		}
		r.Analysed["functions_on_the_path_error_chain"] = checked
	}

	// ---- X4
	leftRec := []string{}
	for _, rl := range g.Rules {
		// DFS over left calls
		seen := map[string]bool{}
		var visit func(name string) bool
		visit = func(name string) bool {
			rr := g.Rule(name)
			if rr == nil {
				return false
			}
			lc := map[string]bool{}
			g.leftCalls(rr.Expr, null, lc)
			for n := range lc {
				if n == rl.Name {
					return true
				}
				if !seen[n] {
					seen[n] = true
					if visit(n) {
						return true
					}
				}
			}
			return false
		}
		if visit(rl.Name) {
			leftRec = append(leftRec, rl.Name)
		}
	}
	sort.Strings(leftRec)
	r.Check(len(leftRec) == 0, "C16.X4", "grammar#left-recursion", "", fmt.Sprintf("%d rules, none left-recursive", len(g.Rules)), "left-recursive rules (the parser would not terminate): "+strings.Join(leftRec, ", "))
	var nullRep []string
	undefinedRefs := []string{}
	for _, rl := range g.Rules {
		rl.Expr.walk(func(e *pegExpr) {
			if (e.Kind == "star" || e.Kind == "plus") && g.nullable(e.Kids[0], null) {
				nullRep = append(nullRep, rl.Name)
			}
			if e.Kind == "ref" && g.Rule(e.Val) == nil {
				undefinedRefs = append(undefinedRefs, rl.Name+"->"+e.Val)
			}
		})
	}
	r.Check(len(nullRep) == 0 && len(undefinedRefs) == 0, "C16.X4", "grammar#nullable-repetition", "", "no repetition of an expression that can match the empty string; all rule references resolve", "repetition of a nullable expression in "+strings.Join(nullRep, ", ")+" / undefined references "+strings.Join(undefinedRefs, ", "))
	// grouping transparency and whitespace around operators
	for _, rl := range g.Rules {
		rl.Expr.walk(func(e *pegExpr) {
			if e.Kind != "action" {
				return
			}
			body := e.Kids[0].strip()
			if body.Kind != "seq" || len(body.Kids) < 3 {
				return
			}
			first, last := body.Kids[0].strip(), body.Kids[len(body.Kids)-1].strip()
			if first.Kind == "lit" && first.Val == "(" && last.Kind == "lit" && last.Val == ")" {
				fd := g.actionDecl(e.Val)
				transparent := false
				if fd != nil && len(fd.Body.List) == 1 {
					if ret, ok := fd.Body.List[0].(*ast.ReturnStmt); ok && len(ret.Results) == 2 {
						if id, ok := ret.Results[0].(*ast.Ident); ok && fd.Type.Params != nil {
							for _, prm := range fd.Type.Params.List {
								for _, n := range prm.Names {
									if n.Name == id.Name {
										transparent = true
									}
								}
							}
						}
					}
				}
				// whitespace allowed after "(" and before ")"
				ws := len(body.Kids) >= 5 && body.Kids[1].strip().Kind == "ref" && g.wsRule(body.Kids[1].strip().Val) && body.Kids[len(body.Kids)-2].strip().Kind == "ref" && g.wsRule(body.Kids[len(body.Kids)-2].strip().Val)
				r.Check(transparent && ws, "C16.X4", "grammar#grouping:"+rl.Name, p.Pos(e.Pos), "the parenthesised alternative returns the inner expression unchanged and admits whitespace inside the parentheses", fmt.Sprintf("grouping is not transparent (returns inner unchanged: %v, whitespace inside parentheses: %v)", transparent, ws))
			}
		})
	}
	for _, rl := range g.Rules {
		rl.Expr.walk(func(e *pegExpr) {
			if e.Kind != "seq" {
				return
			}
			for i, k := range e.Kids {
				ks := k.strip()
				if ks.Kind == "lit" && (ks.Val == "/" || ks.Val == "|") {
					before := i > 0 && e.Kids[i-1].strip().Kind == "ref" && g.wsRule(e.Kids[i-1].strip().Val)
					after := i+1 < len(e.Kids) && e.Kids[i+1].strip().Kind == "ref" && g.wsRule(e.Kids[i+1].strip().Val)
					r.Check(before && after, "C16.X4", "grammar#whitespace-around:"+ks.Val, p.Pos(ks.Pos), "optional whitespace is admitted on both sides of the operator", "the operator does not admit optional whitespace on both sides")
				}
			}
		})
	}

	// modifiers (^ inverse, * transitive) are single optional suffixes: a class that contains them may only occur under `?`
	for _, rl := range g.Rules {
		var visit func(e *pegExpr, under string)
		visit = func(e *pegExpr, under string) {
			if e.Kind == "class" && (containsRune(e.Chars, '^') || containsRune(e.Chars, '*')) {
				r.Check(under == "opt", "C16.X4", "grammar#modifier-multiplicity:"+rl.Name, p.Pos(e.Pos), "the modifier class occurs under `?`: at most one modifier per step", "the modifier class occurs under `"+map[string]string{"star": "*", "plus": "+", "": "(none)"}[under]+"`: repeated or mandatory modifiers such as a.b^^ are accepted or required, which the documented grammar does not allow")
			}
			u := under
			switch e.Kind {
			case "opt", "star", "plus":
				u = e.Kind
			case "seq", "choice":
				u = ""
			}
			for _, k := range e.Kids {
				visit(k, u)
			}
		}
		visit(rl.Expr, "")
	}

	// ---- X6: the path parser is a function of its argument: no package-level state is written in its reach
	r.Rule("C16.X6", "the result of parsing a path depends only on the string: no package-level state is written in reach of the path parser (outside the generated parser's pool)", 1)
	var pathEntry *ssa.Function
	for _, fn := range p.ExportedFuncs("internal/parser/path") {
		if isGeneratedParserFunc(p, fn) {
			continue
		}
		// the function that calls the generated Parse
		for _, b := range fn.Blocks {
			for _, ins := range b.Instrs {
				if ci, ok := ins.(ssa.CallInstruction); ok && ci.Common().StaticCallee() == parseFn && parseFn != nil {
					pathEntry = fn
				}
			}
		}
	}
	if pathEntry == nil {
		r.Unknown("C16.X6", "path-entry", "", "the function that calls the generated parser was not found")
	} else {
		preach := p.Reach(pathEntry)
		var pfuncs []*ssa.Function
		for f := range preach {
			if !isGeneratedParserFunc(p, f) {
				pfuncs = append(pfuncs, f)
			}
		}
		sort.Slice(pfuncs, func(i, j int) bool { return FuncKey(pfuncs[i]) < FuncKey(pfuncs[j]) })
		ms := newMutationSummary(p)
		var stateful []string
		for _, gl := range moduleGlobals(p) {
			for _, a := range accessesOf(p, ms, gl, pfuncs) {
				switch a.Kind {
				case "write", "alias-mutation", "sync-write", "address-escapes":
					stateful = append(stateful, fmt.Sprintf("%s: %s (%s) at %s", globalKey(gl), FuncKey(a.Fn), a.Detail, p.Pos(a.Instr.Pos())))
				case "atomic":
					if !strings.Contains(a.Detail, ".Load") {
						stateful = append(stateful, fmt.Sprintf("%s: %s (%s) at %s", globalKey(gl), FuncKey(a.Fn), a.Detail, p.Pos(a.Instr.Pos())))
					}
				}
			}
		}
		sort.Strings(stateful)
		r.Check(len(stateful) == 0, "C16.X6", FuncKey(pathEntry), p.Pos(pathEntry.Pos()), fmt.Sprintf("%d hand-written functions in reach: none writes package-level state", len(pfuncs)), "package-level state is written while parsing a path, so whether and how a string is accepted can depend on earlier calls: "+strings.Join(stateful, "; "))
	}

	// ---- X7: the generated parser sees the caller's text itself. Any rewriting of the text before it is parsed changes the
	// accepted language (strings.Fields / TrimSpace also remove U+0085, U+00A0 and the other Unicode spaces the grammar's
	// whitespace rule does not admit; a replacement can turn a rejected operator into an accepted one).
	r.Rule("C16.X7", "the text handed to the generated parser is the function's parameter, converted but not rewritten", 1)
	if parseFn != nil {
		sites := 0
		for _, fn := range p.ModuleFuncs() {
			if isGeneratedParserFunc(p, fn) || strings.HasSuffix(p.Fset.Position(fn.Pos()).Filename, "_test.go") {
				continue
			}
			for _, b := range fn.Blocks {
				for _, ins := range b.Instrs {
					ci, ok := ins.(ssa.CallInstruction)
					if !ok || ci.Common().StaticCallee() != parseFn {
						continue
					}
					sites++
					var textArg ssa.Value
					for _, a := range ci.Common().Args {
						if sl, ok := a.Type().Underlying().(*types.Slice); ok {
							if bt, ok := sl.Elem().Underlying().(*types.Basic); ok && bt.Kind() == types.Uint8 {
								textArg = a
							}
						}
					}
					origin := textArg
					for origin != nil {
						switch x := origin.(type) {
						case *ssa.Convert:
							origin = x.X
							continue
						case *ssa.ChangeType:
							origin = x.X
							continue
						}
						break
					}
					_, isParam := origin.(*ssa.Parameter)
					what := "?"
					if origin != nil {
						what = origin.String()
					}
					r.Check(isParam, "C16.X7", FuncKey(fn)+"#parsed-text", p.Pos(ins.Pos()), "the parser is given the caller's string, converted to bytes", "the text handed to the generated parser is "+what+", not the caller's string: rewriting it first (collapsing, trimming, replacing) makes the parser accept strings the grammar rejects")
				}
			}
		}
		if sites == 0 {
			r.Unknown("C16.X7", "parse-sites", "", "no call of the generated parser outside the generated file")
		}
	}

	// ---- X8: the structure handed on is the one the grammar assigned: the tree builder keeps every operand of every
	// sequence and alternative, in order, and copies the inverse flag (same analysis as C02.P2)
	r.Rule("C16.X8", "the path value built from the parse result keeps every operand, in order, and the inverse flag", 4)
	pathTreeBuilder(c, g, "C16.X8")

	// ---- X9: whether a string is accepted is decided by parsing THAT string: no cache or memo table may stand between the
	// profile text and the parser (a key that normalises the text maps rejected strings onto accepted ones)
	noCrossCallState(c, "C16.X9", "no parse result survives a call in a package-level variable (caches keyed by a normalised text accept what the grammar rejects)", "a string the grammar rejects can be answered with the remembered parse of a look-alike that was accepted earlier")

	// ---- X5
	c16SourceAgreement(c, g)
}

// wsRule: the rule is `[ \n\t\r]*`-like: a star over a class of whitespace characters only.
func (g *pegGrammar) wsRule(name string) bool {
	r := g.Rule(name)
	if r == nil {
		return false
	}
	e := r.Expr.strip()
	if e.Kind != "star" {
		return false
	}
	cls := e.Kids[0].strip()
	if cls.Kind != "class" {
		return false
	}
	rs, ok := classRunes(cls)
	if !ok {
		return false
	}
	for _, ch := range rs {
		if !strings.ContainsRune(" \n\t\r", ch) {
			return false
		}
	}
	return len(rs) > 0
}

func c16SourceAgreement(c *Ctx, g *pegGrammar) {
	r := c.R
	srcPath := filepath.Join(c.RepoDir, "third_party", "propertyparser.peg")
	b, err := os.ReadFile(srcPath)
	if err != nil {
		r.Unknown("C16.X5", "third_party/propertyparser.peg", "", "grammar source not readable: "+err.Error())
		return
	}
	src := string(b)
	// strip the initial code block { ... } (balanced) so that Go code is not mistaken for rules
	if i := strings.Index(src, "{"); i >= 0 && strings.TrimSpace(src[:i]) == "" {
		depth := 0
		for j := i; j < len(src); j++ {
			if src[j] == '{' {
				depth++
			} else if src[j] == '}' {
				depth--
				if depth == 0 {
					src = src[j+1:]
					break
				}
			}
		}
	}
	ruleRe := regexp.MustCompile(`(?m)^([A-Za-z_][A-Za-z0-9_]*)\s*(?:"[^"]*"\s*)?(?:\n\s*)?<-`)
	var srcRules []string
	for _, m := range ruleRe.FindAllStringSubmatch(src, -1) {
		srcRules = append(srcRules, m[1])
	}
	var tabRules []string
	for _, rl := range g.Rules {
		tabRules = append(tabRules, rl.Name)
	}
	r.Check(strings.Join(srcRules, " ") == strings.Join(tabRules, " "), "C16.X5", "rule-names", "third_party/propertyparser.peg", "rules and their order agree: "+strings.Join(tabRules, " "), fmt.Sprintf("the grammar source declares [%s] but the generated table has [%s]: one of the two was edited without the other", strings.Join(srcRules, " "), strings.Join(tabRules, " ")))
	lits, classes := g.terminals()
	var missing []string
	for _, l := range lits {
		if !strings.Contains(src, `"`+l+`"`) {
			missing = append(missing, fmt.Sprintf("%q", l))
		}
	}
	r.Check(len(missing) == 0, "C16.X5", "literals", "third_party/propertyparser.peg", fmt.Sprintf("all %d literals of the table occur in the grammar source", len(lits)), "literals of the table that do not occur in the grammar source: "+strings.Join(missing, ", "))
	missing = nil
	seen := map[string]bool{}
	for _, cls := range classes {
		if seen[cls.Val] {
			continue
		}
		seen[cls.Val] = true
		if !strings.Contains(src, cls.Val) {
			missing = append(missing, cls.Val)
		}
	}
	r.Check(len(missing) == 0, "C16.X5", "classes", "third_party/propertyparser.peg", fmt.Sprintf("all %d character classes of the table occur in the grammar source", len(seen)), "character classes of the table that do not occur in the grammar source: "+strings.Join(missing, ", "))
	// and the other way round: classes in the source that the table lacks
	clsRe := regexp.MustCompile(`\[(?:\\.|[^\]\\])+\]`)
	var extra []string
	for _, m := range clsRe.FindAllString(src, -1) {
		if strings.HasPrefix(m, "[]") || strings.Contains(m, "interface") {
			continue
		}
		if !seen[m] {
			// ignore Go index expressions such as e[3] or []byte inside action code
			if regexp.MustCompile(`^\[[0-9]+\]$`).MatchString(m) {
				continue
			}
			extra = append(extra, m)
		}
	}
	sort.Strings(extra)
	r.Check(len(extra) == 0, "C16.X5", "classes-reverse", "third_party/propertyparser.peg", "every character class of the grammar source is in the table", "character classes in the grammar source that the generated table lacks: "+strings.Join(extra, ", "))
}

func containsRune(rs []rune, r rune) bool {
	for _, x := range rs {
		if x == r {
			return true
		}
	}
	return false
}
