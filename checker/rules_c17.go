package main

import (
	"fmt"
	"go/ast"
	"go/token"
	"go/types"
	"sort"
	"strings"

	"golang.org/x/tools/go/ssa"
)

func init() { register("C17", checkC17) }

// c17Preconditions: potential panic sites in frames that no recover boundary covers and that are excluded by a
// documented precondition of the API rather than by the code. One named construct per line, with the reason.
var c17Preconditions = map[string]string{
	"internal/validator.ValidateCompiledWithConfiguration#nil-deref:param0(*rego.PreparedEvalQuery)": "the compiled profile is the non-nil result of CompileProfile; the property quantifies over profile and data texts, not over this pointer",
}

// publicEntries: the exported functions of package pkg (the library's API).
func publicEntries(p *Prog) []*ssa.Function {
	return p.ExportedFuncs("pkg")
}

// protectedFuncs computes, over the functions reachable from the entries, which ones only ever run below a recover
// boundary: a function is protected when it installs a boundary itself, or when every reachable caller is protected.
func protectedFuncs(p *Prog, entries []*ssa.Function, reach map[*ssa.Function]bool) (map[*ssa.Function]bool, map[*ssa.Function]string) {
	own := map[*ssa.Function]string{}
	for f := range reach {
		if ok, how := hasRecoverBoundary(f); ok {
			own[f] = how
		}
	}
	callers := map[*ssa.Function][]*ssa.Function{}
	for f := range reach {
		for _, c := range p.ModuleCallees(f) {
			if reach[c] {
				callers[c] = append(callers[c], f)
			}
		}
	}
	isEntry := map[*ssa.Function]bool{}
	for _, e := range entries {
		isEntry[e] = true
	}
	prot := map[*ssa.Function]bool{}
	for f := range reach {
		prot[f] = true
	}
	changed := true
	for changed {
		changed = false
		for f := range reach {
			if !prot[f] || own[f] != "" {
				continue
			}
			un := isEntry[f] || len(callers[f]) == 0
			for _, c := range callers[f] {
				if !prot[c] {
					un = true
				}
			}
			if un {
				prot[f] = false
				changed = true
			}
		}
	}
	return prot, own
}

func checkC17(c *Ctx) {
	r, p := c.R, c.P
	r.Explanation = "Decides that no panic can leave a public entry point (exported functions of package pkg) and that the entry points cannot block or diverge through the module's own code. (Z1/Z2) Every function reachable from an entry point either installs a recover boundary (a deferred module function that calls recover() directly and assigns the error result on the recovered branch, deferred in the entry block before any fallible call) or is only ever called from protected functions; in the remaining, unprotected frames every potential panic site (explicit panic, unchecked type assertion, index/slice expression, nil dereference, nil-map write, integer division, close, and every call into a dependency that is not on a short list of pure standard-library functions) must be discharged by a local argument (dominating nil check, address of a local, constant index into a fresh array) or by a named API precondition. (Z3) No goroutine is started in reach of the entry points (a panic there could not be recovered). (Z4) The only blocking operations in reach are plain sends on the caller's event channel; every loop statement outside the generated path parser is a range over a finite container or a counted loop. Recursive cycles are listed in the evidence (census) but their structural descent is not decided. (Z5) The function that indexes the flattened graph handles the empty result (an empty array) without asserting a map. Does not decide panics or non-termination inside OPA, json-gold and yaml.v3 other than by the boundary that catches them."
	r.Declines = []string{"termination and run time of OPA evaluation, JSON-LD flattening and PEG backtracking", "termination of the module's recursive functions (they recurse over the finite YAML / rule / path trees; listed as a census only)", "a listener that never reads the caller-supplied event channel (the send blocks by contract)"}
	r.Trusted = []string{"go/ssa's model of defer/recover", "the pure standard-library functions listed in the checker do not panic"}
	r.Rule("C17.Z1", "every potential panic site in an unprotected frame reachable from a public entry point is discharged", 3)
	r.Rule("C17.Z2", "every pipeline stage reachable from the entry points that can raise a panic runs below a recover boundary that converts it into the returned error", 5)
	r.Rule("C17.Z3", "no goroutine is started in reach of the entry points", 1)
	r.Rule("C17.Z4", "blocking operations are sends on the caller's channel only; loops are ranges or counted loops", 2)
	r.Rule("C17.Z5", "the graph indexer accepts the empty flattened document", 1)

	entries := publicEntries(p)
	if len(entries) < 3 {
		r.Unknown("C17.Z1", "entries", "", fmt.Sprintf("only %d exported functions found in package pkg", len(entries)))
		return
	}
	reach := p.Reach(entries...)
	prot, own := protectedFuncs(p, entries, reach)
	r.Analysed["entry_points"] = len(entries)
	r.Analysed["reachable_module_functions"] = len(reach)
	nProt, nUnprot := 0, 0
	var unprot []*ssa.Function
	for f := range reach {
		if prot[f] {
			nProt++
		} else {
			nUnprot++
			unprot = append(unprot, f)
		}
	}
	sort.Slice(unprot, func(i, j int) bool { return FuncKey(unprot[i]) < FuncKey(unprot[j]) })
	r.Analysed["protected_functions"] = nProt
	r.Analysed["unprotected_functions"] = nUnprot
	names := []string{}
	for _, f := range unprot {
		names = append(names, FuncKey(f))
	}
	r.Analysed["unprotected"] = names

	// Z2: boundaries
	var bfuncs []*ssa.Function
	for f := range own {
		bfuncs = append(bfuncs, f)
	}
	sort.Slice(bfuncs, func(i, j int) bool { return FuncKey(bfuncs[i]) < FuncKey(bfuncs[j]) })
	for _, f := range bfuncs {
		r.OK("C17.Z2", FuncKey(f), p.Pos(f.Pos()), "recover boundary: "+own[f]+"; assigns the error result on the recovered branch")
	}
	// functions that defer something that recovers but do not qualify as a boundary
	for f := range reach {
		if f.Recover == nil {
			continue
		}
		for _, b := range f.Blocks {
			for _, ins := range b.Instrs {
				d, ok := ins.(*ssa.Defer)
				if !ok {
					continue
				}
				callee := d.Call.StaticCallee()
				if callee == nil {
					if mc, ok := d.Call.Value.(*ssa.MakeClosure); ok {
						callee, _ = mc.Fn.(*ssa.Function)
					}
				}
				if callee == nil || callee.Blocks == nil {
					continue
				}
				if callsRecoverDirectly(callee) {
					if !assignsErrorOnRecover(callee) {
						r.Bad("C17.Z2", FuncKey(f)+"#defer:"+callee.Name(), p.Pos(d.Pos()), "a deferred function recovers here without assigning an error on the recovered branch: the panic is swallowed and the function returns its current (possibly nil) error")
					}
				} else if recoversIndirectly(callee) {
					r.Bad("C17.Z2", FuncKey(f)+"#defer:"+callee.Name(), p.Pos(d.Pos()), "the deferred function calls a helper that calls recover(): recover() only stops a panic when called directly by the deferred function, so this boundary is ineffective")
				}
			}
		}
	}

	// Z1: sites in unprotected frames
	pf := NewPanicFree(p)
	sitesTotal, sitesProtected := 0, 0
	for f := range reach {
		ls := localPanicSites(f)
		sitesTotal += len(ls)
		if prot[f] {
			sitesProtected += len(ls)
		}
	}
	r.Analysed["panic_sites_in_reach"] = sitesTotal
	r.Analysed["panic_sites_below_a_boundary"] = sitesProtected
	for _, f := range unprot {
		key := FuncKey(f)
		ord := ordinal{}
		nSites := 0
		for _, s := range localPanicSites(f) {
			nSites++
			what := s.Kind
			if s.Kind == "nil-deref" {
				// a parameter is named by its position and type (names change, contracts do not)
				label := func(v ssa.Value) string {
					if prm, ok := v.(*ssa.Parameter); ok {
						for i, q := range f.Params {
							if q == prm {
								t := prm.Type().String()
								if j := strings.LastIndex(t, "/"); j >= 0 {
									t = "*" + t[j+1:]
								}
								return fmt.Sprintf("param%d(%s)", i, t)
							}
						}
					}
					return v.Name()
				}
				if u, ok := s.Instr.(*ssa.UnOp); ok {
					what += ":" + label(u.X)
				} else if fa, ok := s.Instr.(*ssa.FieldAddr); ok {
					what += ":" + label(fa.X)
				}
			}
			k := ord.next(key + "#" + what)
			if reason, ok := c17Preconditions[k]; ok {
				r.OK("C17.Z1", k, p.Pos(s.Instr.Pos()), "API precondition: "+reason)
				continue
			}
			r.Bad("C17.Z1", k, p.Pos(s.Instr.Pos()), fmt.Sprintf("%s in %s, which runs outside every recover boundary: a panic here leaves the public entry point", s.What, key))
		}
		// calls from unprotected frames
		for _, b := range f.Blocks {
			for _, ins := range b.Instrs {
				call, ok := ins.(ssa.CallInstruction)
				if !ok {
					continue
				}
				if _, isDefer := ins.(*ssa.Defer); isDefer {
					continue
				}
				cc := call.Common()
				if bi, ok := cc.Value.(*ssa.Builtin); ok {
					if bi.Name() == "close" {
						k := ord.next(key + "#close")
						r.OK("C17.Z1", k, p.Pos(ins.Pos()), "close of the caller's channel: guarded against nil; closing twice is excluded by C11.T2 (exactly one close per path)")
					}
					continue
				}
				callee := cc.StaticCallee()
				if callee != nil && IsModuleFunc(callee) {
					continue // its own sites are judged in its own frame (protected or not)
				}
				name := funcFullName(ssaCalleeObj(call))
				if pureExternal[name] {
					continue
				}
				if callee == nil && !cc.IsInvoke() {
					r.Bad("C17.Z1", ord.next(key+"#dynamic-call"), p.Pos(ins.Pos()), "a call through a function value in an unprotected frame")
					continue
				}
				r.Bad("C17.Z1", ord.next(key+"#call:"+name), p.Pos(ins.Pos()), "a dependency call that may panic is made in "+key+", outside every recover boundary")
			}
		}
		if nSites == 0 {
			r.OK("C17.Z1", key, p.Pos(f.Pos()), "unprotected frame without potential panic sites")
		}
	}
	_ = pf

	// Z7: a panic value is never nil. This module is built with `go 1.19` semantics (GODEBUG panicnil=1): panic(nil) makes
	// recover() return nil, so a boundary written `if r := recover(); r != nil { err = ... }` lets the function return (zero, nil).
	r.Rule("C17.Z7", "explicit panics never carry a nil value (a nil panic value defeats every `recover() != nil` boundary)", 3)
	for _, f := range sortedFuncs(reach) {
		ord := ordinal{}
		for _, b := range f.Blocks {
			for _, ins := range b.Instrs {
				pi, ok := ins.(*ssa.Panic)
				if !ok {
					continue
				}
				k := ord.next(FuncKey(f) + "#panic")
				if why, ok := panicValueNonNil(pi.X, pi.Block(), 0); ok {
					r.OK("C17.Z7", k, p.Pos(pi.Pos()), "panic value is not nil: "+why)
				} else {
					r.Bad("C17.Z7", k, p.Pos(pi.Pos()), "the value passed to panic may be nil ("+why+"): with the module's go 1.19 semantics recover() then returns nil, the boundary treats the call as successful and a zero result is returned with a nil error")
				}
			}
		}
	}

	// Z8: closing a closed channel panics, and that panic is raised by the deferred close itself, after every boundary of
	// the function has run. A function that defers the close of the event channel must not close it (directly or through a
	// callee that closes it) anywhere else.
	r.Rule("C17.Z8", "a function that defers the close of the event channel closes it nowhere else", 1)
	if emz, _ := loadEventModel(p); emz != nil {
		closers := map[*ssa.Function]bool{}
		for _, fn := range p.ModuleFuncs() {
			for _, b := range fn.Blocks {
				for _, ins := range b.Instrs {
					if ci, ok := ins.(ssa.CallInstruction); ok {
						if bi, ok := ci.Common().Value.(*ssa.Builtin); ok && bi.Name() == "close" && len(ci.Common().Args) == 1 && emz.isEventChan(ci.Common().Args[0].Type()) {
							closers[fn] = true
						}
					}
				}
			}
		}
		changedZ := true
		for changedZ {
			changedZ = false
			for _, fn := range p.ModuleFuncs() {
				if closers[fn] {
					continue
				}
				for _, cal := range p.ModuleCallees(fn) {
					if closers[cal] {
						closers[fn] = true
						changedZ = true
						break
					}
				}
			}
		}
		deferring := 0
		for _, f := range sortedFuncs(reach) {
			var deferred, plain []ssa.Instruction
			for _, b := range f.Blocks {
				for _, ins := range b.Instrs {
					ci, ok := ins.(ssa.CallInstruction)
					if !ok {
						continue
					}
					isClose := false
					if bi, ok := ci.Common().Value.(*ssa.Builtin); ok && bi.Name() == "close" && len(ci.Common().Args) == 1 && emz.isEventChan(ci.Common().Args[0].Type()) {
						isClose = true
					}
					if cal := ci.Common().StaticCallee(); cal != nil && closers[cal] {
						isClose = true
					}
					if !isClose {
						continue
					}
					if _, isDefer := ins.(*ssa.Defer); isDefer {
						deferred = append(deferred, ins)
					} else {
						plain = append(plain, ins)
					}
				}
			}
			if len(deferred) == 0 {
				continue
			}
			deferring++
			r.Check(len(deferred) == 1 && len(plain) == 0, "C17.Z8", FuncKey(f)+"#deferred-close", p.Pos(deferred[0].Pos()), "the deferred close is the only close", fmt.Sprintf("the function defers the close of the event channel and also closes it %d more time(s) (directly or through a callee): on those paths the deferred close panics with `close of closed channel` after the recover boundary has already run", len(plain)+len(deferred)-1))
		}
		if deferring == 0 {
			r.OK("C17.Z8", "census", "", "no function in reach defers the close of the event channel (closes are explicit, counted per path by C11.T2)")
		}
	}

	// Z3: goroutines
	gos := 0
	for f := range reach {
		for _, b := range f.Blocks {
			for _, ins := range b.Instrs {
				if g, ok := ins.(*ssa.Go); ok {
					gos++
					r.Bad("C17.Z3", FuncKey(f)+"#go", p.Pos(g.Pos()), "a goroutine is started in reach of the entry points: a panic in it cannot be recovered by the caller's boundary and its result is not awaited")
				}
			}
		}
	}
	r.OK("C17.Z3", "census", "", fmt.Sprintf("%d functions in reach scanned, %d go statements", len(reach), gos))

	// Z4a: blocking operations
	em, _ := loadEventModel(p)
	blocking := 0
	for f := range reach {
		ord := ordinal{}
		for _, b := range f.Blocks {
			for _, ins := range b.Instrs {
				switch x := ins.(type) {
				case *ssa.Send:
					blocking++
					k := ord.next(FuncKey(f) + "#send")
					if em != nil && em.isEventChan(x.Chan.Type()) {
						r.OK("C17.Z4", k, p.Pos(ins.Pos()), "send on the caller's event channel (blocks only while the caller does not read, by contract)")
					} else {
						r.Bad("C17.Z4", k, p.Pos(ins.Pos()), "send on a channel other than the caller's event channel")
					}
				case *ssa.Select:
					blocking++
					r.Bad("C17.Z4", ord.next(FuncKey(f)+"#select"), p.Pos(ins.Pos()), "select in reach of the entry points")
				case *ssa.UnOp:
					if x.Op == token.ARROW {
						blocking++
						r.Bad("C17.Z4", ord.next(FuncKey(f)+"#receive"), p.Pos(ins.Pos()), "channel receive in reach of the entry points: the call can block")
					}
				case ssa.CallInstruction:
					n := funcFullName(ssaCalleeObj(x))
					switch n {
					case "(*sync.WaitGroup).Wait", "time.Sleep", "(*sync.Cond).Wait", "(*sync.Mutex).Lock", "(*sync.RWMutex).Lock", "(*sync.RWMutex).RLock":
						blocking++
						if strings.Contains(n, "Mutex") {
							if !unlockDeferredOrFollows(f, x) {
								r.Bad("C17.Z4", ord.next(FuncKey(f)+"#"+n), p.Pos(ins.Pos()), "a lock is taken and its unlock is neither deferred nor the next call: a panic raised while the lock is held is turned into an error by the boundary above, the lock stays held, and every later call blocks forever")
							} else {
								r.OK("C17.Z4", ord.next(FuncKey(f)+"#"+n), p.Pos(ins.Pos()), "lock with matching unlock")
							}
						} else {
							r.Bad("C17.Z4", ord.next(FuncKey(f)+"#"+n), p.Pos(ins.Pos()), n+" in reach of the entry points")
						}
					}
				}
			}
		}
	}
	r.Analysed["blocking_operations"] = blocking

	// Z4b: recursive cycles descend structurally
	c17Recursion(c, reach)

	// Z4c: loops
	c17Loops(c, reach)

	// Z5: the indexer handles the empty graph
	c17EmptyGraph(c)

	// Z6: the YAML tree the profile parser recurses over is finite: the wrapper never follows alias nodes (the only
	// way a yaml.Node graph can contain a cycle), so every recursion over Content descends on a finite tree
	r.Rule("C17.Z6", "the YAML wrapper never dereferences alias nodes (no cyclic node graphs)", 1)
	aliasReads := 0
	for _, pk := range p.modPkgsSorted() {
		for _, file := range pk.Syntax {
			ast.Inspect(file, func(n ast.Node) bool {
				sel, ok := n.(*ast.SelectorExpr)
				if !ok || sel.Sel.Name != "Alias" {
					return true
				}
				s := pk.TypesInfo.Selections[sel]
				if s == nil || s.Kind() != types.FieldVal {
					return true
				}
				nt := namedOf(s.Recv())
				if nt == nil || nt.Obj().Name() != "Node" || objPkgPath(nt.Obj()) != yamlPath {
					return true
				}
				aliasReads++
				r.Bad("C17.Z6", relOf(pk)+"."+enclosingFuncName(pk, sel.Pos())+"#yaml-alias", p.Pos(sel.Pos()), "the Alias pointer of a YAML node is followed: a self-referential anchor (`not: &a {not: *a}`) makes the node graph cyclic and the profile parser recurse until the stack overflows, which no recover can catch")
				return true
			})
		}
	}
	if aliasReads == 0 {
		r.OK("C17.Z6", "yaml-alias-census", "", "yaml.Node.Alias is never read: the parser walks the finite Content tree only")
	}
}

func recoversIndirectly(fn *ssa.Function) bool {
	for _, b := range fn.Blocks {
		for _, ins := range b.Instrs {
			if call, ok := ins.(*ssa.Call); ok {
				if f := call.Call.StaticCallee(); f != nil && f.Blocks != nil && IsModuleFunc(f) && callsRecoverDirectly(f) {
					return true
				}
			}
		}
	}
	return false
}

func unlockDeferredOrFollows(f *ssa.Function, lock ssa.CallInstruction) bool {
	want := strings.Replace(strings.Replace(funcFullName(ssaCalleeObj(lock)), "RLock", "RUnlock", 1), "Lock", "Unlock", 1)
	// (a) the unlock is deferred: it also runs when a call in between panics and the panic is recovered further up
	for _, b := range f.Blocks {
		for _, ins := range b.Instrs {
			if d, ok := ins.(*ssa.Defer); ok && funcFullName(ssaCalleeObj(d)) == want {
				return true
			}
		}
	}
	// (b) the unlock follows in the same block with no call in between (nothing can panic or return while the lock is held)
	li, ok := lock.(ssa.Instruction)
	if !ok {
		return false
	}
	after := false
	for _, ins := range li.Block().Instrs {
		if ins == li {
			after = true
			continue
		}
		if !after {
			continue
		}
		if ci, ok := ins.(ssa.CallInstruction); ok {
			return funcFullName(ssaCalleeObj(ci)) == want
		}
		switch ins.(type) {
		case *ssa.Return, *ssa.If, *ssa.Jump, *ssa.Panic:
			return false
		}
	}
	return false
}

// projectionOfParam: v is obtained from a parameter (or receiver / free variable) of fn by at least one projection
// step (field, element, map value, range element, type assertion) and nothing else.
func projectionOfParam(v ssa.Value, depth int, steps int, seen map[ssa.Value]bool) bool {
	if depth > 30 || seen[v] {
		return false
	}
	seen[v] = true
	switch x := v.(type) {
	case *ssa.Parameter, *ssa.FreeVar:
		return steps > 0
	case *ssa.Field:
		return projectionOfParam(x.X, depth+1, steps+1, seen)
	case *ssa.FieldAddr:
		return projectionOfParam(x.X, depth+1, steps+1, seen)
	case *ssa.Index:
		return projectionOfParam(x.X, depth+1, steps+1, seen)
	case *ssa.IndexAddr:
		return projectionOfParam(x.X, depth+1, steps+1, seen)
	case *ssa.Lookup:
		return projectionOfParam(x.X, depth+1, steps+1, seen)
	case *ssa.Slice:
		// s[1:] of a parameter-derived slice is strictly shorter only when Low > 0
		if c, ok := x.Low.(*ssa.Const); ok && c.Value != nil && c.Int64() > 0 {
			return projectionOfParam(x.X, depth+1, steps+1, seen)
		}
		return projectionOfParam(x.X, depth+1, steps, seen)
	case *ssa.UnOp:
		if x.Op == token.MUL {
			if a, ok := x.X.(*ssa.Alloc); ok {
				// a local: every value stored into it must be a projection
				ok2 := false
				for _, ref := range nonDebugRefs(a) {
					if st, isSt := ref.(*ssa.Store); isSt && st.Addr == a {
						if !projectionOfParam(st.Val, depth+1, steps, seen) {
							return false
						}
						ok2 = true
					}
				}
				return ok2
			}
			return projectionOfParam(x.X, depth+1, steps, seen)
		}
	case *ssa.TypeAssert:
		return projectionOfParam(x.X, depth+1, steps+1, seen)
	case *ssa.Extract:
		return projectionOfParam(x.Tuple, depth+1, steps, seen)
	case *ssa.Next:
		return projectionOfParam(x.Iter, depth+1, steps+1, seen)
	case *ssa.Range:
		return projectionOfParam(x.X, depth+1, steps, seen)
	case *ssa.ChangeType:
		return projectionOfParam(x.X, depth+1, steps, seen)
	case *ssa.MakeInterface:
		return projectionOfParam(x.X, depth+1, steps, seen)
	case *ssa.ChangeInterface:
		return projectionOfParam(x.X, depth+1, steps, seen)
	case *ssa.Alloc:
		okAny := false
		for _, ref := range nonDebugRefs(x) {
			if st, isSt := ref.(*ssa.Store); isSt && st.Addr == x {
				if !projectionOfParam(st.Val, depth+1, steps, seen) {
					return false
				}
				okAny = true
			}
		}
		return okAny
	case *ssa.Phi:
		any := false
		for _, e := range x.Edges {
			if e == v {
				continue
			}
			if !projectionOfParam(e, depth+1, steps, map[ssa.Value]bool{}) {
				return false
			}
			any = true
		}
		return any
	case *ssa.Call:
		// a wrapper constructor around a projection, e.g. path.AndPath{And: remaining} built by a module function, or a
		// method that returns a component of its receiver (IfRule(), ThenRule()): accept accessor methods whose body
		// only projects the receiver
		if f := x.Call.StaticCallee(); f != nil && IsModuleFunc(f) && isAccessor(f) && len(x.Call.Args) > 0 {
			return projectionOfParam(x.Call.Args[0], depth+1, steps+1, seen)
		}
	case *ssa.MakeClosure:
		return false
	}
	return false
}

// isAccessor: the function returns a projection of its first parameter / receiver and does nothing else.
func isAccessor(f *ssa.Function) bool {
	if len(f.Blocks) != 1 {
		return false
	}
	for _, ins := range f.Blocks[0].Instrs {
		if ret, ok := ins.(*ssa.Return); ok && len(ret.Results) == 1 {
			return projectionOfParam(ret.Results[0], 0, 0, map[ssa.Value]bool{})
		}
	}
	return false
}

func c17Recursion(c *Ctx, reach map[*ssa.Function]bool) {
	r, p := c.R, c.P
	// SCCs of the module call graph restricted to reach (Tarjan)
	var funcs []*ssa.Function
	for f := range reach {
		funcs = append(funcs, f)
	}
	sort.Slice(funcs, func(i, j int) bool { return FuncKey(funcs[i]) < FuncKey(funcs[j]) })
	index := map[*ssa.Function]int{}
	low := map[*ssa.Function]int{}
	onStack := map[*ssa.Function]bool{}
	var stack []*ssa.Function
	var sccs [][]*ssa.Function
	n := 0
	var strong func(v *ssa.Function)
	strong = func(v *ssa.Function) {
		n++
		index[v], low[v] = n, n
		stack = append(stack, v)
		onStack[v] = true
		for _, w := range p.ModuleCallees(v) {
			if !reach[w] {
				continue
			}
			if index[w] == 0 {
				strong(w)
				if low[w] < low[v] {
					low[v] = low[w]
				}
			} else if onStack[w] && index[w] < low[v] {
				low[v] = index[w]
			}
		}
		if low[v] == index[v] {
			var comp []*ssa.Function
			for {
				w := stack[len(stack)-1]
				stack = stack[:len(stack)-1]
				onStack[w] = false
				comp = append(comp, w)
				if w == v {
					break
				}
			}
			sccs = append(sccs, comp)
		}
	}
	for _, f := range funcs {
		if index[f] == 0 {
			strong(f)
		}
	}
	cycles := 0
	census := []map[string]any{}
	defer func() { r.Analysed["recursive_cycle_census"] = census }()
	// Z11: a stack overflow is a fatal error that no recover boundary catches.  Whether a recursion terminates cannot be
	// decided in general (census below), but one shape certainly does not descend on a finite structure: a recursive call
	// whose arguments are all either the caller's own parameters handed on unchanged or values of a basic type (a text
	// looked up in a table, say).  Such a recursion ends only if the data happens to end it (`ex: ex.v1/` never does).
	r.Rule("C17.Z11", "every recursive call hands on a part of a structure, a shorter slice or a changed counter - never only unchanged parameters and looked-up texts", 5)
	z11 := 0
	for _, comp := range sccs {
		self := false
		if len(comp) == 1 {
			for _, w := range p.ModuleCallees(comp[0]) {
				if w == comp[0] {
					self = true
				}
			}
			if !self {
				continue
			}
		}
		cycles++
		in := map[*ssa.Function]bool{}
		for _, f := range comp {
			in[f] = true
		}
		sort.Slice(comp, func(i, j int) bool { return FuncKey(comp[i]) < FuncKey(comp[j]) })
		generated := true
		for _, f := range comp {
			if !isGeneratedParserFunc(p, f) {
				generated = false
			}
		}
		name := FuncKey(comp[0])
		if len(comp) > 1 {
			name += fmt.Sprintf("(+%d)", len(comp)-1)
		}
		if generated {
			census = append(census, map[string]any{"cycle": name, "functions": len(comp), "note": "generated PEG parser: termination rests on the grammar (C16.X4)"})
			continue
		}
		var bad []string
		edges := 0
		neutral := map[*ssa.Function][]*ssa.Function{} // recursive calls that hand on nothing that can be smaller
		for _, f := range comp {
			for _, b := range f.Blocks {
				for _, ins := range b.Instrs {
					call, ok := ins.(ssa.CallInstruction)
					if !ok {
						continue
					}
					targets := []*ssa.Function{}
					if callee := call.Common().StaticCallee(); callee != nil {
						targets = append(targets, callee)
					} else if call.Common().IsInvoke() {
						// interface call: may reach any function of the cycle with that method name
						for _, g := range comp {
							if g.Name() == call.Common().Method.Name() && g.Signature.Recv() != nil {
								targets = append(targets, g)
							}
						}
					}
					hit := false
					for _, tg := range targets {
						if in[tg] {
							hit = true
						}
					}
					if !hit {
						continue
					}
					edges++
					desc := false
					args := call.Common().Args
					if call.Common().IsInvoke() {
						args = append([]ssa.Value{call.Common().Value}, args...)
					}
					for _, a := range args {
						if projectionOfParam(a, 0, 0, map[ssa.Value]bool{}) {
							desc = true
						}
					}
					if !desc {
						bad = append(bad, fmt.Sprintf("%s -> %s at %s", FuncKey(f), calleeName(call), p.Pos(ins.Pos())))
					}
					canShrink := false
					for _, a := range args {
						if mayShrink(a, 0) {
							canShrink = true
						}
					}
					if !canShrink {
						for _, tg := range targets {
							if in[tg] {
								neutral[f] = append(neutral[f], tg)
							}
						}
					}
				}
			}
		}
		// Z11: a cycle made of such calls only
		z11++
		var loop []string
		state := map[*ssa.Function]int{}
		var path []*ssa.Function
		var dfs func(f *ssa.Function) bool
		dfs = func(f *ssa.Function) bool {
			state[f] = 1
			path = append(path, f)
			for _, g := range neutral[f] {
				if state[g] == 1 {
					for i := len(path) - 1; i >= 0; i-- {
						loop = append([]string{FuncKey(path[i])}, loop...)
						if path[i] == g {
							break
						}
					}
					return true
				}
				if state[g] == 0 && dfs(g) {
					return true
				}
			}
			path = path[:len(path)-1]
			state[f] = 2
			return false
		}
		found := false
		for _, f := range comp {
			if state[f] == 0 && !found {
				found = dfs(f)
			}
		}
		if found {
			r.Bad("C17.Z11", "cycle:"+strings.Join(loop, ">"), p.Pos(comp[0].Pos()), "the recursion "+strings.Join(loop, " -> ")+" -> "+loop[0]+" passes only unchanged parameters and basic values that are not computed by slicing or arithmetic from one call to the next: nothing gets smaller, so it ends only if the data ends it; a stack overflow is fatal and bypasses every recover boundary")
		} else {
			r.OK("C17.Z11", "cycle:"+name, p.Pos(comp[0].Pos()), fmt.Sprintf("%d recursive call sites: every way around the cycle hands on a structured value, a slice or a computed number at least once", edges))
		}
		sort.Strings(bad)
		// census only: structural descent is recognised for some cycles and not for others (wrappers such as
		// AndPath{And: rest}, child lookups through Yaml.Get); the clause is declined rather than guessed
		census = append(census, map[string]any{"cycle": name, "functions": len(comp), "recursive_call_sites": edges, "sites_not_recognised_as_structural_descent": bad})
	}
	r.Analysed["recursive_cycles"] = cycles
	if z11 == 0 {
		r.Unknown("C17.Z11", "recursive-calls", "", "no recursive call site was found in reach of the entry points")
	}
}

// mayShrink: the argument of a recursive call can be smaller than what the caller was given: it is a value of a
// structured type (a part, a wrapper or a transformation of a structure) that is not simply one of the caller's parameters,
// or a slice / substring of something, or a number that was computed.
func mayShrink(v ssa.Value, depth int) bool {
	if depth > 8 {
		return false
	}
	switch x := v.(type) {
	case *ssa.Parameter, *ssa.FreeVar, *ssa.Const, *ssa.Global, *ssa.Function:
		return false
	case *ssa.MakeInterface:
		return mayShrink(x.X, depth+1)
	case *ssa.ChangeType:
		return mayShrink(x.X, depth+1)
	case *ssa.ChangeInterface:
		return mayShrink(x.X, depth+1)
	case *ssa.Convert:
		return mayShrink(x.X, depth+1)
	case *ssa.UnOp:
		if x.Op == token.MUL {
			// a load: of a parameter's spill slot it is the parameter itself
			if a, ok := x.X.(*ssa.Alloc); ok {
				for _, ref := range nonDebugRefs(a) {
					if st, isSt := ref.(*ssa.Store); isSt && st.Addr == a {
						if mayShrink(st.Val, depth+1) {
							return true
						}
					}
				}
				return false
			}
		}
	case *ssa.Slice:
		return true
	case *ssa.BinOp:
		if b, ok := x.Type().Underlying().(*types.Basic); ok && b.Info()&types.IsNumeric != 0 {
			return true
		}
	case *ssa.Phi:
		for _, e := range x.Edges {
			if e != v && mayShrink(e, depth+1) {
				return true
			}
		}
		return false
	}
	if _, basic := v.Type().Underlying().(*types.Basic); basic {
		return false
	}
	return true
}

func shortCallee(call ssa.CallInstruction) string {
	if f := call.Common().StaticCallee(); f != nil {
		return FuncKey(f)
	}
	if call.Common().IsInvoke() {
		return "(" + types.TypeString(call.Common().Value.Type(), func(p *types.Package) string { return p.Name() }) + ")." + call.Common().Method.Name()
	}
	return "?"
}

func isGeneratedParserFunc(p *Prog, f *ssa.Function) bool {
	if RelPkg(f) != "internal/parser/path" {
		return false
	}
	pos := p.Fset.Position(f.Pos())
	return strings.HasSuffix(pos.Filename, "peg.go")
}

// c17Loops: every loop statement in reach (outside the generated parser) is a range over a finite container or a
// counted loop `for i := a; i < n; i++`; decided on the syntax, which is where the loop form is unambiguous.
func c17Loops(c *Ctx, reach map[*ssa.Function]bool) {
	r, p := c.R, c.P
	loops := 0
	unknown := 0
	var funcs []*ssa.Function
	for f := range reach {
		funcs = append(funcs, f)
	}
	sort.Slice(funcs, func(i, j int) bool { return FuncKey(funcs[i]) < FuncKey(funcs[j]) })
	for _, f := range funcs {
		if isGeneratedParserFunc(p, f) || f.Syntax() == nil {
			continue
		}
		pk := p.Mod[ModulePath+"/"+RelPkg(f)]
		if RelPkg(f) == "" {
			pk = p.Mod[ModulePath]
		}
		var body ast.Node
		switch sx := f.Syntax().(type) {
		case *ast.FuncDecl:
			body = sx.Body
		case *ast.FuncLit:
			body = sx.Body
		}
		if body == nil || pk == nil {
			continue
		}
		ord := ordinal{}
		ast.Inspect(body, func(n ast.Node) bool {
			switch x := n.(type) {
			case *ast.FuncLit:
				return n == f.Syntax() // nested literals are separate SSA functions
			case *ast.RangeStmt:
				loops++
				if tv, ok := pk.TypesInfo.Types[x.X]; ok {
					if _, isChan := tv.Type.Underlying().(*types.Chan); isChan {
						unknown++
						r.Bad("C17.Z4", ord.next(FuncKey(f)+"#range-chan"), p.Pos(x.Pos()), "range over a channel in reach of the entry points: the call blocks until the channel is closed")
					}
				}
			case *ast.ForStmt:
				loops++
				if countedLoop(x) {
					return true
				}
				unknown++
				r.Unknown("C17.Z4", ord.next(FuncKey(f)+"#for"), p.Pos(x.Pos()), "a for loop that is not of the counted form `for i := a; i < n; i++`: termination is not evident")
			}
			return true
		})
	}
	r.Analysed["loops_in_reach"] = loops
	if unknown == 0 {
		r.OK("C17.Z4", "loops", "", fmt.Sprintf("%d loop statements in reach (outside the generated parser): all are ranges over finite containers or counted loops", loops))
	}
}

func countedLoop(x *ast.ForStmt) bool {
	cond, ok := x.Cond.(*ast.BinaryExpr)
	if !ok || x.Post == nil {
		return false
	}
	cx := cond.X
	if be, ok := cx.(*ast.BinaryExpr); ok && be.Op == token.ADD {
		if _, isLit := be.Y.(*ast.BasicLit); isLit {
			cx = be.X // i+1 < n
		}
	}
	id, ok := cx.(*ast.Ident)
	if !ok || (cond.Op != token.LSS && cond.Op != token.LEQ) {
		return false
	}
	switch post := x.Post.(type) {
	case *ast.IncDecStmt:
		pid, ok := post.X.(*ast.Ident)
		if !ok || pid.Name != id.Name || post.Tok != token.INC {
			return false
		}
	case *ast.AssignStmt:
		if post.Tok != token.ADD_ASSIGN || len(post.Lhs) != 1 {
			return false
		}
		pid, ok := post.Lhs[0].(*ast.Ident)
		if !ok || pid.Name != id.Name {
			return false
		}
	default:
		return false
	}
	// the index must not be assigned in the body
	assigned := false
	ast.Inspect(x.Body, func(n ast.Node) bool {
		switch s := n.(type) {
		case *ast.AssignStmt:
			for _, l := range s.Lhs {
				if lid, ok := l.(*ast.Ident); ok && lid.Name == id.Name {
					assigned = true
				}
			}
		case *ast.IncDecStmt:
			if lid, ok := s.X.(*ast.Ident); ok && lid.Name == id.Name {
				assigned = true
			}
		}
		return true
	})
	return !assigned
}

// c17EmptyGraph: the function that builds the @ids/@types index from the flattened document must not assert the
// document's type without a check: it has a type switch (or comma-ok assertion) on its argument that covers []any.
func c17EmptyGraph(c *Ctx) {
	r, p := c.R, c.P
	dm := newDataPathModel(p)
	found := false
	for _, fn := range p.ModuleFuncs() {
		if RelPkg(fn) != "internal/validator" || len(fn.Params) != 1 || fn.Parent() != nil {
			continue
		}
		if _, ok := fn.Params[0].Type().Underlying().(*types.Interface); !ok {
			continue
		}
		// the indexer: called with the result of the function that calls Flatten
		isIndexer := false
		for _, caller := range p.ModuleFuncs() {
			for _, b := range caller.Blocks {
				for _, ins := range b.Instrs {
					call, ok := ins.(*ssa.Call)
					if !ok || call.Call.StaticCallee() != fn || len(call.Call.Args) != 1 {
						continue
					}
					if inner, ok := call.Call.Args[0].(*ssa.Call); ok {
						if g := inner.Call.StaticCallee(); g != nil && dm.reachesFlat[g] {
							isIndexer = true
						}
					}
				}
			}
		}
		if !isIndexer {
			continue
		}
		found = true
		param := fn.Params[0]
		unchecked, sliceCase := 0, false
		for _, ta := range typeAssertsOnForwarded(fn, param, 0) {
			if !ta.CommaOk {
				unchecked++
			}
			if _, isSlice := ta.AssertedType.Underlying().(*types.Slice); isSlice {
				sliceCase = true
			}
		}
		k := FuncKey(fn) + "#document-shape"
		switch {
		case unchecked > 0:
			r.Bad("C17.Z5", k, p.Pos(fn.Pos()), "the flattened document is type-asserted without a check: a document without nodes (flattened to an empty array) panics")
		case !sliceCase:
			r.Bad("C17.Z5", k, p.Pos(fn.Pos()), "the indexer has no case for a flattened document that is an array (the empty graph)")
		default:
			r.OK("C17.Z5", k, p.Pos(fn.Pos()), "the document's shape is inspected with checked assertions, including the array case")
		}
	}
	if !found {
		r.Unknown("C17.Z5", "indexer", "", "the function that indexes the flattened document was not found (expected: a one-argument function of internal/validator applied to the result of the flattening function)")
	}
}

func sortedFuncs(m map[*ssa.Function]bool) []*ssa.Function {
	var out []*ssa.Function
	for f := range m {
		out = append(out, f)
	}
	sort.Slice(out, func(i, j int) bool { return FuncKey(out[i]) < FuncKey(out[j]) })
	return out
}

// panicValueNonNil: the interface value handed to panic cannot be the nil interface.
func panicValueNonNil(v ssa.Value, at *ssa.BasicBlock, depth int) (string, bool) {
	if depth > 4 {
		return "value of unknown origin", false
	}
	switch x := v.(type) {
	case *ssa.MakeInterface:
		// a non-nil interface even when the boxed pointer is nil: recover() returns it and `r != nil` holds
		return "a " + x.X.Type().String() + " boxed into an interface", true
	case *ssa.Const:
		if x.IsNil() {
			return "the nil constant", false
		}
		return "constant", true
	case *ssa.ChangeInterface:
		return panicValueNonNil(x.X, at, depth+1)
	case *ssa.Call:
		n := funcFullName(ssaCalleeObj(x))
		switch n {
		case "errors.New", "fmt.Errorf":
			return n + " never returns nil", true
		}
		if n == "recover" {
			if dominatedByNonNilCheck(x, at) {
				return "re-panic of a recovered value checked against nil", true
			}
		}
	case *ssa.UnOp:
		if g, isGlobal := x.X.(*ssa.Global); isGlobal && x.Op == token.MUL {
			// a package-level variable: every store to it in its package must store a non-nil value
			stores, allOK := 0, true
			for _, m := range g.Pkg.Members {
				fn, isFn := m.(*ssa.Function)
				if !isFn {
					continue
				}
				fns := append([]*ssa.Function{fn}, fn.AnonFuncs...)
				for _, f := range fns {
					for _, b := range f.Blocks {
						for _, ins := range b.Instrs {
							if st, ok := ins.(*ssa.Store); ok && st.Addr == g {
								stores++
								if _, ok := panicValueNonNil(st.Val, st.Block(), depth+1); !ok {
									allOK = false
								}
							}
						}
					}
				}
			}
			if g.Object() != nil && g.Object().Exported() {
				allOK = false // other packages can assign it
			}
			if stores > 0 && allOK {
				return "package variable " + g.Name() + " only ever assigned non-nil values", true
			}
		}
	case *ssa.Phi:
		for _, e := range x.Edges {
			if why, ok := panicValueNonNil(e, at, depth+1); !ok {
				return why, false
			}
		}
		return "every incoming value is non-nil", true
	}
	if dominatedByNonNilCheck(v, at) {
		return "checked against nil on the way to the panic", true
	}
	return "an interface value that is not compared with nil before the panic", false
}

// dominatedByNonNilCheck: block b is only reached through the non-nil branch of `v != nil` / `v == nil`.
func dominatedByNonNilCheck(v ssa.Value, b *ssa.BasicBlock) bool {
	for d := b; d != nil; d = d.Idom() {
		idom := d.Idom()
		if idom == nil {
			break
		}
		iff, ok := idom.Instrs[len(idom.Instrs)-1].(*ssa.If)
		if !ok {
			continue
		}
		bo, ok := iff.Cond.(*ssa.BinOp)
		if !ok {
			continue
		}
		var other ssa.Value
		if bo.X == v {
			other = bo.Y
		} else if bo.Y == v {
			other = bo.X
		} else {
			continue
		}
		cst, ok := other.(*ssa.Const)
		if !ok || !cst.IsNil() {
			continue
		}
		// d must be reached only through the right successor
		if bo.Op == token.NEQ && idom.Succs[0] == d && len(d.Preds) == 1 {
			return true
		}
		if bo.Op == token.EQL && idom.Succs[1] == d && len(d.Preds) == 1 {
			return true
		}
	}
	return false
}
