package main

// E-path: exhaustive enumeration of the control-flow paths of a small set of functions with callees inlined,
// abstracted to a rule-supplied alphabet of tokens.  It is an abstract interpreter over go/ssa, not an executor:
// values are abstracted to {nil, non-nil, symbol, address of a local, constant}, branches on nil tests of symbols
// refine the symbol on each side (so the `if err != nil` of a caller is correlated with the return of the callee),
// every other branch is followed both ways, deferred calls and recover() are modelled, and a call that is not
// inlined returns fresh symbols and - when it may panic - also unwinds.  No input is ever supplied and no solver
// is consulted; infeasible paths are only pruned by the nil-ness facts collected along the path itself.

import (
	"fmt"
	"go/constant"
	"go/token"
	"go/types"
	"sort"
	"strings"

	"golang.org/x/tools/go/ssa"
)

type avKind int

const (
	avUnknown avKind = iota
	avNil
	avNonNil
	avSym
	avAddr
	avTuple
	avConst
	avFunc
	avSlice // slice of a local array (variadic argument pack); Tuple holds the element values when expanded
)

// AV is an abstract value.
type AV struct {
	Kind     avKind
	Sym      int             // avSym
	Origin   ssa.Instruction // instruction that produced the symbol / non-nil value (may be nil)
	Index    int             // result index when Origin is a call with several results
	Alloc    *ssa.Alloc      // avAddr
	Tuple    []AV            // avTuple
	Const    constant.Value  // avConst
	Fn       *ssa.Function   // avFunc (function value or closure)
	Param    *ssa.Parameter  // set when the symbol is an entry parameter
	Global   *ssa.Global     // set when the symbol is a load of a package-level variable
	CallArgs []AV            // set when the symbol is the result of a call that was not interpreted: its argument values
}

type Nilness int

const (
	NilUnknown Nilness = iota
	IsNil
	IsNonNil
)

// Token is one element of the abstracted trace.
type Token struct {
	Kind  string // rule-defined: "emit", "close", "print", ...
	Label string // rule-defined detail (event name, stream, ...)
	Pos   token.Pos
	Fn    *ssa.Function
	Instr ssa.Instruction
	Args  []AV
}

func (t Token) String() string {
	if t.Label == "" {
		return t.Kind
	}
	return t.Kind + "(" + t.Label + ")"
}

// Outcome is one complete path through the entry function.
type Outcome struct {
	Exit      string // "return", "panic", "exit", "cut" (loop bound) or "blocked"
	ExitCode  AV     // for "exit"
	Results   []AV
	Trace     []Token
	Facts     map[int]Nilness
	Recovered int // number of panics recovered on the path
	PanicAt   ssa.Instruction
	PanicIn   *ssa.Function
	Decisions []string // human-readable branch decisions (for diagnostics)
}

func (o *Outcome) NilnessOf(v AV) Nilness {
	switch v.Kind {
	case avNil:
		return IsNil
	case avNonNil, avAddr, avFunc, avSlice:
		return IsNonNil
	case avSym:
		return o.Facts[v.Sym]
	}
	return NilUnknown
}

func (o *Outcome) TraceString() string {
	parts := make([]string, len(o.Trace))
	for i, t := range o.Trace {
		parts[i] = t.String()
	}
	return strings.Join(parts, " ")
}

// PathConfig parameterises the engine for one rule set.
type PathConfig struct {
	P *Prog
	// Inline decides whether a statically resolved module callee is inlined.
	Inline func(fn *ssa.Function) bool
	// Classify turns a call that is not inlined (or a send / close / go) into a token; ok=false means no token.
	// terminate=true ends the path with Exit "exit" (os.Exit).
	Classify func(call ssa.CallInstruction, callee types.Object, args []AV) (tok *Token, terminate bool)
	// MayPanic says whether a call that is not inlined can panic.
	MayPanic func(call ssa.CallInstruction, callee types.Object) bool
	// ResultHint lets the rule set say a call result is known non-nil (errors.New) - index = result position.
	ResultHint func(callee types.Object, index int) Nilness
	// SendToken builds the token for a channel send; nil means sends are ignored.
	SendToken func(send *ssa.Send, ch, val AV) *Token
	// CloseToken builds the token for close(ch).
	CloseToken func(call ssa.CallInstruction, ch AV) *Token
	LoopBound  int // visits per block per frame (default 2)
	MaxPaths   int // default 200000
}

// cellKey addresses a local memory cell: a scalar local (idx -1) or one element of a local array.
type cellKey struct {
	a   *ssa.Alloc
	idx int
}

type pathState struct {
	trace     []Token
	facts     map[int]Nilness
	cells     map[cellKey]AV
	globals   map[*ssa.Global]AV
	recovered int
	decisions []string
	panicAt   ssa.Instruction // origin of the panic currently unwinding (for the "recovered" pseudo-token)
	panicIn   *ssa.Function
	intEq     map[string]int64          // canonical integer expression (len(os.Args)) -> value it is known to equal
	intNeq    map[string]map[int64]bool // ... -> values it is known to differ from
}

func (s *pathState) clone() *pathState {
	n := &pathState{recovered: s.recovered, panicAt: s.panicAt, panicIn: s.panicIn}
	n.trace = append([]Token(nil), s.trace...)
	n.decisions = append([]string(nil), s.decisions...)
	n.facts = make(map[int]Nilness, len(s.facts))
	for k, v := range s.facts {
		n.facts[k] = v
	}
	n.cells = make(map[cellKey]AV, len(s.cells))
	for k, v := range s.cells {
		n.cells[k] = v
	}
	n.globals = make(map[*ssa.Global]AV, len(s.globals))
	for k, v := range s.globals {
		n.globals[k] = v
	}
	n.intEq = make(map[string]int64, len(s.intEq))
	for k, v := range s.intEq {
		n.intEq[k] = v
	}
	n.intNeq = make(map[string]map[int64]bool, len(s.intNeq))
	for k, v := range s.intNeq {
		m := make(map[int64]bool, len(v))
		for a, b := range v {
			m[a] = b
		}
		n.intNeq[k] = m
	}
	return n
}

type deferred struct {
	call *ssa.Defer
	args []AV
	fn   AV // callee value for dynamic defers
}

type frame struct {
	fn     *ssa.Function
	env    map[ssa.Value]AV
	visits map[*ssa.BasicBlock]int
	defers []deferred
	depth  int
	// inPanic: this frame is a deferred function being run while a panic unwinds; its direct recover() stops the panic
	inPanic bool
}

func (f *frame) clone() *frame {
	n := &frame{fn: f.fn, depth: f.depth, inPanic: f.inPanic}
	n.env = make(map[ssa.Value]AV, len(f.env))
	for k, v := range f.env {
		n.env[k] = v
	}
	n.visits = make(map[*ssa.BasicBlock]int, len(f.visits))
	for k, v := range f.visits {
		n.visits[k] = v
	}
	n.defers = append([]deferred(nil), f.defers...)
	return n
}

// result of running a function (or the rest of one): where control goes next, with the state at that point
type funcOutcome struct {
	kind     string // "return", "panic", "exit", "cut", "blocked"
	results  []AV
	st       *pathState
	exitCode AV
	panicAt  ssa.Instruction
	panicIn  *ssa.Function
}

type pathEngine struct {
	cfg     PathConfig
	nextSym int
	paths   int
	over    bool
	stack   []*ssa.Function
	Loops   map[*ssa.Function]bool // functions in which the loop bound was hit
	Inlined map[*ssa.Function]bool
	Opaque  map[string]int
}

func newPathEngine(cfg PathConfig) *pathEngine {
	if cfg.LoopBound == 0 {
		cfg.LoopBound = 2
	}
	if cfg.MaxPaths == 0 {
		cfg.MaxPaths = 200000
	}
	return &pathEngine{cfg: cfg, Loops: map[*ssa.Function]bool{}, Inlined: map[*ssa.Function]bool{}, Opaque: map[string]int{}}
}

func (e *pathEngine) fresh(origin ssa.Instruction, idx int) AV {
	e.nextSym++
	return AV{Kind: avSym, Sym: e.nextSym, Origin: origin, Index: idx}
}

// Run enumerates every path of fn started with the given argument values (nil = fresh symbols, one per parameter).
func (e *pathEngine) Run(fn *ssa.Function, args []AV, presetFacts map[int]Nilness) ([]Outcome, []AV) {
	if args == nil {
		args = make([]AV, len(fn.Params))
		for i, p := range fn.Params {
			a := e.fresh(nil, 0)
			a.Param = p
			args[i] = a
		}
	}
	st := &pathState{facts: map[int]Nilness{}, cells: map[cellKey]AV{}, globals: map[*ssa.Global]AV{}, intEq: map[string]int64{}, intNeq: map[string]map[int64]bool{}}
	for k, v := range presetFacts {
		st.facts[k] = v
	}
	outs := e.runFunc(fn, args, nil, st, 0)
	res := make([]Outcome, 0, len(outs))
	for _, o := range outs {
		res = append(res, Outcome{Exit: o.kind, ExitCode: o.exitCode, Results: o.results, Trace: o.st.trace, Facts: o.st.facts, Recovered: o.st.recovered, PanicAt: o.panicAt, PanicIn: o.panicIn, Decisions: o.st.decisions})
	}
	return res, args
}

// RunFrom enumerates the paths of fn that start at block b (as entered from pred), with the given values preset in
// the frame; values defined before b that are not preset evaluate to fresh symbols.
func (e *pathEngine) RunFrom(fn *ssa.Function, b, pred *ssa.BasicBlock, preset map[ssa.Value]AV) []Outcome {
	return e.RunFromCells(fn, b, pred, preset, nil)
}

// RunFromCells is RunFrom with the contents of local cells (named results, address-taken locals) given as well.
func (e *pathEngine) RunFromCells(fn *ssa.Function, b, pred *ssa.BasicBlock, preset map[ssa.Value]AV, cells map[*ssa.Alloc]AV) []Outcome {
	st := &pathState{facts: map[int]Nilness{}, cells: map[cellKey]AV{}, globals: map[*ssa.Global]AV{}, intEq: map[string]int64{}, intNeq: map[string]map[int64]bool{}}
	fr := &frame{fn: fn, env: map[ssa.Value]AV{}, visits: map[*ssa.BasicBlock]int{}}
	for k, v := range preset {
		fr.env[k] = v
	}
	for a, v := range cells {
		st.cells[cellKey{a, -1}] = v
	}
	e.Inlined[fn] = true
	e.stack = append(e.stack, fn)
	outs := e.execBlock(fr, b, pred, st)
	e.stack = e.stack[:len(e.stack)-1]
	res := make([]Outcome, 0, len(outs))
	for _, o := range outs {
		res = append(res, Outcome{Exit: o.kind, ExitCode: o.exitCode, Results: o.results, Trace: o.st.trace, Facts: o.st.facts, Recovered: o.st.recovered, PanicAt: o.panicAt, PanicIn: o.panicIn, Decisions: o.st.decisions})
	}
	return res
}

func zeroAV(t types.Type) AV {
	switch t.Underlying().(type) {
	case *types.Pointer, *types.Interface, *types.Slice, *types.Map, *types.Chan, *types.Signature:
		return AV{Kind: avNil}
	}
	return AV{Kind: avUnknown}
}

func (e *pathEngine) runFunc(fn *ssa.Function, args []AV, bindings []AV, st *pathState, depth int) []funcOutcome {
	if fn.Blocks == nil {
		return []funcOutcome{{kind: "return", st: st}}
	}
	e.Inlined[fn] = true
	fr := &frame{fn: fn, env: map[ssa.Value]AV{}, visits: map[*ssa.BasicBlock]int{}, depth: depth}
	for i, p := range fn.Params {
		if i < len(args) {
			fr.env[p] = args[i]
		} else {
			fr.env[p] = e.fresh(nil, 0)
		}
	}
	for i, fv := range fn.FreeVars {
		if i < len(bindings) {
			fr.env[fv] = bindings[i]
		} else {
			fr.env[fv] = e.fresh(nil, 0)
		}
	}
	e.stack = append(e.stack, fn)
	outs := e.execBlock(fr, fn.Blocks[0], nil, st)
	e.stack = e.stack[:len(e.stack)-1]
	return outs
}

func (e *pathEngine) onStack(fn *ssa.Function) bool {
	for _, f := range e.stack {
		if f == fn {
			return true
		}
	}
	return false
}

func (e *pathEngine) eval(fr *frame, st *pathState, v ssa.Value) AV {
	if v == nil {
		return AV{Kind: avUnknown}
	}
	if a, ok := fr.env[v]; ok {
		return a
	}
	switch x := v.(type) {
	case *ssa.Const:
		if x.Value == nil {
			switch x.Type().Underlying().(type) {
			case *types.Pointer, *types.Interface, *types.Slice, *types.Map, *types.Chan, *types.Signature:
				return AV{Kind: avNil}
			case *types.Basic:
				if x.Type().Underlying().(*types.Basic).Kind() == types.UntypedNil {
					return AV{Kind: avNil}
				}
			}
			return AV{Kind: avUnknown}
		}
		return AV{Kind: avConst, Const: x.Value}
	case *ssa.Function:
		return AV{Kind: avFunc, Fn: x}
	case *ssa.Global:
		return AV{Kind: avNonNil, Global: x} // address of a global
	case *ssa.Builtin:
		return AV{Kind: avNonNil}
	case *ssa.Alloc:
		// a local cell allocated in a block this exploration did not start from (RunFrom): its address is still known
		a := AV{Kind: avAddr, Alloc: x, Index: -1}
		fr.env[v] = a
		return a
	}
	// a value defined in a block this path did not go through (should not happen) or a free variable
	a := e.fresh(nil, 0)
	fr.env[v] = a
	return a
}

func (e *pathEngine) execBlock(fr *frame, b *ssa.BasicBlock, pred *ssa.BasicBlock, st *pathState) []funcOutcome {
	if e.over {
		return nil
	}
	fr.visits[b]++
	if fr.visits[b] > e.cfg.LoopBound {
		e.Loops[fr.fn] = true
		return []funcOutcome{{kind: "cut", st: st}}
	}
	// phis first
	for _, ins := range b.Instrs {
		phi, ok := ins.(*ssa.Phi)
		if !ok {
			break
		}
		idx := -1
		for i, p := range b.Preds {
			if p == pred {
				idx = i
			}
		}
		if idx >= 0 {
			fr.env[phi] = e.eval(fr, st, phi.Edges[idx])
		} else {
			fr.env[phi] = e.fresh(phi, 0)
		}
	}
	return e.execFrom(fr, b, 0, st)
}

func isNilConst(v ssa.Value) bool {
	c, ok := v.(*ssa.Const)
	return ok && c.Value == nil
}

// nilTest recognises `x == nil` / `x != nil` (possibly under !) and returns the tested value and whether the
// condition being true means "x is nil".
func nilTest(cond ssa.Value) (ssa.Value, bool, bool) {
	neg := false
	for {
		if u, ok := cond.(*ssa.UnOp); ok && u.Op == token.NOT {
			neg = !neg
			cond = u.X
			continue
		}
		break
	}
	b, ok := cond.(*ssa.BinOp)
	if !ok || (b.Op != token.EQL && b.Op != token.NEQ) {
		return nil, false, false
	}
	var x ssa.Value
	switch {
	case isNilConst(b.Y):
		x = b.X
	case isNilConst(b.X):
		x = b.Y
	default:
		return nil, false, false
	}
	trueMeansNil := b.Op == token.EQL
	if neg {
		trueMeansNil = !trueMeansNil
	}
	return x, trueMeansNil, true
}

// intTest recognises `E == k` / `E != k` where E is a canonical integer expression and k a constant.
// It returns the key of E, k, and whether the condition being true means equality.
func intTest(cond ssa.Value) (string, int64, bool, bool) {
	b, ok := cond.(*ssa.BinOp)
	if !ok || (b.Op != token.EQL && b.Op != token.NEQ) {
		return "", 0, false, false
	}
	var ex ssa.Value
	var c *ssa.Const
	if cc, ok := b.Y.(*ssa.Const); ok {
		ex, c = b.X, cc
	} else if cc, ok := b.X.(*ssa.Const); ok {
		ex, c = b.Y, cc
	}
	if c == nil || c.Value == nil || c.Value.Kind() != constant.Int {
		return "", 0, false, false
	}
	key := canonicalInt(ex)
	if key == "" {
		return "", 0, false, false
	}
	return key, c.Int64(), b.Op == token.EQL, true
}

// canonicalInt names integer expressions whose value cannot change between two evaluations on one path as far as
// the analysed code is concerned: len() of a package-level variable of a dependency (os.Args).
func canonicalInt(v ssa.Value) string {
	call, ok := v.(*ssa.Call)
	if !ok {
		return ""
	}
	bi, ok := call.Call.Value.(*ssa.Builtin)
	if !ok || bi.Name() != "len" || len(call.Call.Args) != 1 {
		return ""
	}
	ld, ok := call.Call.Args[0].(*ssa.UnOp)
	if !ok || ld.Op != token.MUL {
		return ""
	}
	g, ok := ld.X.(*ssa.Global)
	if !ok || g.Pkg == nil || strings.HasPrefix(g.Pkg.Pkg.Path(), ModulePath) {
		return ""
	}
	return "len(" + g.Pkg.Pkg.Name() + "." + g.Name() + ")"
}

func (e *pathEngine) execFrom(fr *frame, b *ssa.BasicBlock, start int, st *pathState) []funcOutcome {
	for i := start; i < len(b.Instrs); i++ {
		if e.over {
			return nil
		}
		switch ins := b.Instrs[i].(type) {
		case *ssa.Phi, *ssa.DebugRef:
			continue
		case *ssa.Alloc:
			fr.env[ins] = AV{Kind: avAddr, Alloc: ins, Index: -1}
			st.cells[cellKey{ins, -1}] = zeroAV(ins.Type().(*types.Pointer).Elem())
		case *ssa.Store:
			addr := e.eval(fr, st, ins.Addr)
			if addr.Kind == avAddr {
				st.cells[cellKey{addr.Alloc, addr.Index}] = e.eval(fr, st, ins.Val)
			}
		case *ssa.UnOp:
			switch ins.Op {
			case token.MUL:
				x := e.eval(fr, st, ins.X)
				switch {
				case x.Kind == avAddr:
					if v, ok := st.cells[cellKey{x.Alloc, x.Index}]; ok {
						fr.env[ins] = v
					} else {
						fr.env[ins] = e.fresh(ins, 0)
					}
				case x.Global != nil:
					if v, ok := st.globals[x.Global]; ok {
						fr.env[ins] = v
					} else {
						v := e.fresh(ins, 0)
						v.Global = x.Global
						st.globals[x.Global] = v
						fr.env[ins] = v
					}
				default:
					v := e.fresh(ins, 0)
					fr.env[ins] = v
				}
			default:
				fr.env[ins] = AV{Kind: avUnknown, Origin: ins}
			}
		case *ssa.MakeInterface:
			x := e.eval(fr, st, ins.X)
			switch ins.X.Type().Underlying().(type) {
			case *types.Pointer, *types.Interface:
				// a nil pointer in an interface is a non-nil interface; keep the origin for identity
				fr.env[ins] = AV{Kind: avNonNil, Origin: x.Origin, Index: x.Index}
			default:
				fr.env[ins] = AV{Kind: avNonNil, Origin: x.Origin, Index: x.Index, Const: x.Const}
			}
		case *ssa.ChangeType:
			fr.env[ins] = e.eval(fr, st, ins.X)
		case *ssa.ChangeInterface:
			fr.env[ins] = e.eval(fr, st, ins.X)
		case *ssa.Convert:
			fr.env[ins] = e.eval(fr, st, ins.X)
		case *ssa.MakeMap, *ssa.MakeSlice, *ssa.MakeChan:
			fr.env[ins.(ssa.Value)] = AV{Kind: avNonNil, Origin: ins}
		case *ssa.MakeClosure:
			f, _ := ins.Fn.(*ssa.Function)
			binds := make([]AV, len(ins.Bindings))
			for j, bv := range ins.Bindings {
				binds[j] = e.eval(fr, st, bv)
			}
			fr.env[ins] = AV{Kind: avFunc, Fn: f, Tuple: binds}
		case *ssa.Extract:
			t := e.eval(fr, st, ins.Tuple)
			if t.Kind == avTuple && ins.Index < len(t.Tuple) {
				fr.env[ins] = t.Tuple[ins.Index]
			} else {
				fr.env[ins] = e.fresh(ins, ins.Index)
			}
		case *ssa.IndexAddr:
			base := e.eval(fr, st, ins.X)
			if cidx, ok := ins.Index.(*ssa.Const); ok && base.Kind == avAddr && base.Index == -1 && cidx.Value != nil {
				fr.env[ins] = AV{Kind: avAddr, Alloc: base.Alloc, Index: int(cidx.Int64())}
			} else {
				fr.env[ins] = AV{Kind: avNonNil, Origin: ins}
			}
		case *ssa.FieldAddr:
			fr.env[ins] = AV{Kind: avNonNil, Origin: ins}
		case *ssa.Slice:
			base := e.eval(fr, st, ins.X)
			if base.Kind == avAddr && base.Index == -1 && ins.Low == nil && ins.High == nil {
				fr.env[ins] = AV{Kind: avSlice, Alloc: base.Alloc, Origin: ins}
			} else {
				fr.env[ins] = e.fresh(ins, 0)
			}
		case *ssa.Field, *ssa.Index, *ssa.Lookup, *ssa.BinOp, *ssa.TypeAssert, *ssa.Range, *ssa.Next, *ssa.SliceToArrayPointer:
			v := ins.(ssa.Value)
			if tup, ok := v.Type().(*types.Tuple); ok {
				t := AV{Kind: avTuple}
				for k := 0; k < tup.Len(); k++ {
					t.Tuple = append(t.Tuple, e.fresh(ins, k))
				}
				fr.env[v] = t
			} else {
				fr.env[v] = e.fresh(ins, 0)
			}
		case *ssa.MapUpdate:
			// no effect on the abstraction
		case *ssa.Send:
			if e.cfg.SendToken != nil {
				if tok := e.cfg.SendToken(ins, e.eval(fr, st, ins.Chan), e.eval(fr, st, ins.X)); tok != nil {
					tok.Fn, tok.Instr, tok.Pos = fr.fn, ins, ins.Pos()
					st.trace = append(st.trace, *tok)
				}
			}
		case *ssa.Go:
			st.trace = append(st.trace, Token{Kind: "go", Pos: ins.Pos(), Fn: fr.fn, Instr: ins})
		case *ssa.Select:
			st.trace = append(st.trace, Token{Kind: "select", Pos: ins.Pos(), Fn: fr.fn, Instr: ins})
			fr.env[ins] = e.fresh(ins, 0)
		case *ssa.Defer:
			d := deferred{call: ins}
			for _, a := range ins.Call.Args {
				d.args = append(d.args, e.eval(fr, st, a))
			}
			if !ins.Call.IsInvoke() {
				d.fn = e.eval(fr, st, ins.Call.Value)
			}
			fr.defers = append(fr.defers, d)
		case *ssa.RunDefers:
			// normal-mode execution of the deferred calls, LIFO; forks are followed
			return e.runDefers(fr, st, len(fr.defers)-1, false, func(fr2 *frame, st2 *pathState) []funcOutcome {
				return e.execFrom(fr2, b, i+1, st2)
			}, nil, nil)
		case *ssa.Call:
			return e.execCall(fr, b, i, ins, st)
		case *ssa.Return:
			res := make([]AV, len(ins.Results))
			for k, rv := range ins.Results {
				res[k] = e.eval(fr, st, rv)
			}
			e.paths++
			if e.paths > e.cfg.MaxPaths {
				e.over = true
			}
			return []funcOutcome{{kind: "return", results: res, st: st}}
		case *ssa.Panic:
			return e.unwind(fr, st, ins, fr.fn)
		case *ssa.Jump:
			return e.execBlock(fr, b.Succs[0], b, st)
		case *ssa.If:
			x, trueMeansNil, ok := nilTest(ins.Cond)
			tb, fb := b.Succs[0], b.Succs[1]
			if ok {
				xv := e.eval(fr, st, x)
				var n Nilness
				switch xv.Kind {
				case avNil:
					n = IsNil
				case avNonNil, avAddr, avFunc, avSlice:
					n = IsNonNil
				case avSym:
					n = st.facts[xv.Sym]
				}
				desc := describeValue(e.cfg.P, x)
				errTok := func(s *pathState) {
					if xv.Kind == avSym && xv.Origin != nil && isErrorType(x.Type()) {
						if ci, ok := xv.Origin.(ssa.CallInstruction); ok {
							s.trace = append(s.trace, Token{Kind: "err", Label: calleeName(ci), Pos: ci.Pos(), Fn: ci.Parent(), Instr: xv.Origin})
						}
					}
				}
				takeTrue := func(s *pathState) {
					if xv.Kind == avSym {
						if trueMeansNil {
							s.facts[xv.Sym] = IsNil
						} else {
							s.facts[xv.Sym] = IsNonNil
							errTok(s)
						}
					}
					s.decisions = append(s.decisions, fmt.Sprintf("%s: %s %s", e.cfg.P.Pos(ins.Cond.Pos()), desc, map[bool]string{true: "== nil", false: "!= nil"}[trueMeansNil]))
				}
				takeFalse := func(s *pathState) {
					if xv.Kind == avSym {
						if trueMeansNil {
							s.facts[xv.Sym] = IsNonNil
							errTok(s)
						} else {
							s.facts[xv.Sym] = IsNil
						}
					}
					s.decisions = append(s.decisions, fmt.Sprintf("%s: %s %s", e.cfg.P.Pos(ins.Cond.Pos()), desc, map[bool]string{true: "!= nil", false: "== nil"}[trueMeansNil]))
				}
				if n != NilUnknown {
					condTrue := (n == IsNil) == trueMeansNil
					if condTrue {
						return e.execBlock(fr, tb, b, st)
					}
					return e.execBlock(fr, fb, b, st)
				}
				st2, fr2 := st.clone(), fr.clone()
				takeTrue(st)
				takeFalse(st2)
				outs := e.execBlock(fr, tb, b, st)
				return append(outs, e.execBlock(fr2, fb, b, st2)...)
			}
			// comparison of a canonical integer expression (len of a package-level slice) with a constant: the two
			// branches record == k / != k so that a later comparison of the same expression is decided
			if key, k, eq, ok := intTest(ins.Cond); ok {
				if v, known := st.intEq[key]; known {
					if (v == k) == eq {
						return e.execBlock(fr, tb, b, st)
					}
					return e.execBlock(fr, fb, b, st)
				}
				if st.intNeq[key][k] {
					if eq {
						return e.execBlock(fr, fb, b, st)
					}
					return e.execBlock(fr, tb, b, st)
				}
				st2, fr2 := st.clone(), fr.clone()
				setEq := func(s *pathState) { s.intEq[key] = k }
				setNeq := func(s *pathState) {
					if s.intNeq[key] == nil {
						s.intNeq[key] = map[int64]bool{}
					}
					s.intNeq[key][k] = true
				}
				if eq {
					setEq(st)
					setNeq(st2)
				} else {
					setNeq(st)
					setEq(st2)
				}
				st.decisions = append(st.decisions, fmt.Sprintf("%s: %s %s %d", e.cfg.P.Pos(ins.Cond.Pos()), key, map[bool]string{true: "==", false: "!="}[eq], k))
				st2.decisions = append(st2.decisions, fmt.Sprintf("%s: %s %s %d", e.cfg.P.Pos(ins.Cond.Pos()), key, map[bool]string{true: "!=", false: "=="}[eq], k))
				outs := e.execBlock(fr, tb, b, st)
				return append(outs, e.execBlock(fr2, fb, b, st2)...)
			}
			// constant condition?
			if c := e.eval(fr, st, ins.Cond); c.Kind == avConst && c.Const.Kind() == constant.Bool {
				if constant.BoolVal(c.Const) {
					return e.execBlock(fr, tb, b, st)
				}
				return e.execBlock(fr, fb, b, st)
			}
			st2, fr2 := st.clone(), fr.clone()
			st.decisions = append(st.decisions, fmt.Sprintf("%s: condition true", e.cfg.P.Pos(ins.Cond.Pos())))
			st2.decisions = append(st2.decisions, fmt.Sprintf("%s: condition false", e.cfg.P.Pos(ins.Cond.Pos())))
			outs := e.execBlock(fr, tb, b, st)
			return append(outs, e.execBlock(fr2, fb, b, st2)...)
		default:
			if v, ok := ins.(ssa.Value); ok {
				fr.env[v] = e.fresh(ins, 0)
			}
		}
	}
	// a block always ends in a control instruction; reaching here means an empty/unreachable tail
	return []funcOutcome{{kind: "blocked", st: st}}
}

func describeValue(p *Prog, v ssa.Value) string {
	switch x := v.(type) {
	case *ssa.Parameter:
		return x.Name()
	case *ssa.Extract:
		if c, ok := x.Tuple.(*ssa.Call); ok {
			return fmt.Sprintf("result #%d of %s", x.Index, calleeName(c))
		}
	case *ssa.Call:
		return "result of " + calleeName(x)
	case *ssa.UnOp:
		if x.Op == token.MUL {
			return "*" + describeValue(p, x.X)
		}
	case *ssa.Alloc:
		if x.Comment != "" {
			return x.Comment
		}
	}
	if v.Name() != "" {
		return v.Name()
	}
	return v.String()
}

func calleeName(c ssa.CallInstruction) string {
	cc := c.Common()
	if cc.IsInvoke() {
		return cc.Method.FullName()
	}
	if f := cc.StaticCallee(); f != nil {
		return f.String()
	}
	if b, ok := cc.Value.(*ssa.Builtin); ok {
		return b.Name()
	}
	return cc.Value.Name()
}

// execCall handles one call instruction and continues with the rest of the block for every outcome of the callee.
func (e *pathEngine) execCall(fr *frame, b *ssa.BasicBlock, i int, call *ssa.Call, st *pathState) []funcOutcome {
	cont := func(fr2 *frame, st2 *pathState, results []AV) []funcOutcome {
		switch {
		case call.Type() == nil:
		default:
			if tup, ok := call.Type().(*types.Tuple); ok {
				if tup.Len() > 0 {
					fr2.env[call] = AV{Kind: avTuple, Tuple: results}
				}
			} else if len(results) == 1 {
				fr2.env[call] = results[0]
			} else {
				fr2.env[call] = AV{Kind: avUnknown}
			}
		}
		return e.execFrom(fr2, b, i+1, st2)
	}
	onPanic := func(fr2 *frame, st2 *pathState, at ssa.Instruction, in *ssa.Function) []funcOutcome {
		return e.unwind(fr2, st2, at, in)
	}
	return e.doCall(fr, st, call, &call.Call, cont, onPanic, false)
}

type contFn func(fr *frame, st *pathState, results []AV) []funcOutcome
type panicFn func(fr *frame, st *pathState, at ssa.Instruction, in *ssa.Function) []funcOutcome

// doCall evaluates a call (from a Call or Defer instruction). panicking tells whether the call is a deferred call run
// while a panic is unwinding: an inlined callee then sees its direct recover() calls as non-nil.
func (e *pathEngine) doCall(fr *frame, st *pathState, site ssa.CallInstruction, cc *ssa.CallCommon, cont contFn, onPanic panicFn, panicking bool) []funcOutcome {
	args := make([]AV, len(cc.Args))
	for k, a := range cc.Args {
		args[k] = e.eval(fr, st, a)
	}
	sigResults := cc.Signature().Results()
	freshResults := func(calleeObj types.Object) []AV {
		res := make([]AV, sigResults.Len())
		for k := range res {
			res[k] = e.fresh(site, k)
			res[k].CallArgs = args
			if e.cfg.ResultHint != nil && calleeObj != nil {
				switch e.cfg.ResultHint(calleeObj, k) {
				case IsNonNil:
					res[k] = AV{Kind: avNonNil, Origin: site, Index: k}
				case IsNil:
					res[k] = AV{Kind: avNil}
				}
			}
		}
		return res
	}
	// builtins
	if bi, ok := cc.Value.(*ssa.Builtin); ok {
		switch bi.Name() {
		case "close":
			if e.cfg.CloseToken != nil {
				if tok := e.cfg.CloseToken(site, args[0]); tok != nil {
					tok.Fn, tok.Instr, tok.Pos = fr.fn, site, site.Pos()
					st.trace = append(st.trace, *tok)
				}
			}
			return cont(fr, st, nil)
		case "recover":
			if fr.inPanic {
				fr.inPanic = false
				st.recovered++
				lbl := ""
				if st.panicIn != nil {
					lbl = FuncKey(st.panicIn)
				}
				st.trace = append(st.trace, Token{Kind: "recovered", Label: lbl, Pos: site.Pos(), Fn: st.panicIn, Instr: st.panicAt})
				st.decisions = append(st.decisions, fmt.Sprintf("%s: recover() stops the panic", e.cfg.P.Pos(site.Pos())))
				return cont(fr, st, []AV{{Kind: avNonNil, Origin: site}})
			}
			return cont(fr, st, []AV{{Kind: avNil}})
		default:
			return cont(fr, st, freshResults(nil))
		}
	}
	var callee *ssa.Function
	var binds []AV
	if !cc.IsInvoke() {
		callee = cc.StaticCallee()
		if callee == nil {
			if fv := e.eval(fr, st, cc.Value); fv.Kind == avFunc && fv.Fn != nil {
				callee, binds = fv.Fn, fv.Tuple
			}
		} else if mc, ok := cc.Value.(*ssa.MakeClosure); ok {
			for _, bv := range mc.Bindings {
				binds = append(binds, e.eval(fr, st, bv))
			}
		}
	}
	var calleeObj types.Object
	if cc.IsInvoke() {
		calleeObj = cc.Method
	} else if callee != nil {
		calleeObj = callee.Object()
	}
	_, isDeferred := site.(*ssa.Defer)
	// deferred module functions are always interpreted: whether they recover decides where control goes next
	if callee != nil && callee.Blocks != nil && ((e.cfg.Inline != nil && e.cfg.Inline(callee)) || (isDeferred && IsModuleFunc(callee))) && !e.onStack(callee) && fr.depth < 40 {
		var outs []funcOutcome
		subs := e.runFuncMode(callee, args, binds, st, fr.depth+1, panicking)
		for k, so := range subs {
			f2 := fr
			if k < len(subs)-1 {
				f2 = fr.clone()
			}
			switch so.kind {
			case "return":
				outs = append(outs, cont(f2, so.st, so.results)...)
			case "panic":
				outs = append(outs, onPanic(f2, so.st, so.panicAt, so.panicIn)...)
			default:
				outs = append(outs, so)
			}
		}
		return outs
	}
	if callee != nil && callee.Blocks != nil && e.cfg.Inline != nil && e.cfg.Inline(callee) && !isDeferred {
		// a function the rule wanted interpreted calls itself (or the inlining depth ran out): its effects are not enumerated
		st.trace = append(st.trace, Token{Kind: "recursion", Label: FuncKey(callee), Pos: site.Pos(), Fn: fr.fn, Instr: site})
	}
	// not inlined
	name := "<dynamic>"
	if calleeObj != nil {
		name = calleeObj.Name()
		if f, ok := calleeObj.(*types.Func); ok {
			name = f.FullName()
		}
	}
	e.Opaque[name]++
	for k := range args {
		if args[k].Kind == avSlice && args[k].Alloc != nil {
			if pt, ok := args[k].Alloc.Type().Underlying().(*types.Pointer); ok {
				if at, ok := pt.Elem().Underlying().(*types.Array); ok {
					elems := make([]AV, at.Len())
					for j := range elems {
						elems[j] = st.cells[cellKey{args[k].Alloc, j}]
					}
					args[k].Tuple = elems
				}
			}
		}
	}
	if e.cfg.Classify != nil {
		tok, terminate := e.cfg.Classify(site, calleeObj, args)
		if tok != nil {
			tok.Fn, tok.Instr, tok.Pos, tok.Args = fr.fn, site, site.Pos(), args
			st.trace = append(st.trace, *tok)
		}
		if terminate {
			e.paths++
			var code AV
			if len(args) > 0 {
				code = args[0]
			}
			return []funcOutcome{{kind: "exit", st: st, exitCode: code}}
		}
	}
	var outs []funcOutcome
	if e.cfg.MayPanic == nil || e.cfg.MayPanic(site, calleeObj) {
		st2, fr2 := st.clone(), fr.clone()
		st2.decisions = append(st2.decisions, fmt.Sprintf("%s: %s panics", e.cfg.P.Pos(site.Pos()), name))
		outs = append(outs, onPanic(fr2, st2, site, fr.fn)...)
	}
	return append(outs, cont(fr, st, freshResults(calleeObj))...)
}

// runFuncMode runs callee; when inPanic is set the callee is a deferred function run while a panic unwinds and its
// direct recover() calls stop the panic (the Go rule: recover must be called directly by the deferred function).
func (e *pathEngine) runFuncMode(fn *ssa.Function, args, binds []AV, st *pathState, depth int, inPanic bool) []funcOutcome {
	if !inPanic {
		return e.runFunc(fn, args, binds, st, depth)
	}
	e.Inlined[fn] = true
	fr := &frame{fn: fn, env: map[ssa.Value]AV{}, visits: map[*ssa.BasicBlock]int{}, depth: depth, inPanic: true}
	for i, p := range fn.Params {
		if i < len(args) {
			fr.env[p] = args[i]
		}
	}
	for i, fv := range fn.FreeVars {
		if i < len(binds) {
			fr.env[fv] = binds[i]
		}
	}
	e.stack = append(e.stack, fn)
	outs := e.execBlock(fr, fn.Blocks[0], nil, st)
	e.stack = e.stack[:len(e.stack)-1]
	return outs
}

// unwind models a panic raised at `at` in frame fr: deferred calls run LIFO; if one of them recovers, control resumes
// at the function's recover block (named results are returned); otherwise the panic propagates to the caller.
func (e *pathEngine) unwind(fr *frame, st *pathState, at ssa.Instruction, in *ssa.Function) []funcOutcome {
	before := st.recovered
	st.panicAt, st.panicIn = at, in
	return e.runDefers(fr, st, len(fr.defers)-1, true, func(fr2 *frame, st2 *pathState) []funcOutcome {
		if st2.recovered > before {
			// recovered: resume at the recover block, or return zero values when there are no named results
			fr2.defers = nil
			if fr2.fn.Recover != nil {
				return e.execBlock(fr2, fr2.fn.Recover, nil, st2)
			}
			res := make([]AV, fr2.fn.Signature.Results().Len())
			for k := range res {
				res[k] = zeroAV(fr2.fn.Signature.Results().At(k).Type())
			}
			return []funcOutcome{{kind: "return", results: res, st: st2}}
		}
		e.paths++
		return []funcOutcome{{kind: "panic", st: st2, panicAt: at, panicIn: in}}
	}, at, in)
}

// runDefers executes deferred calls from index k down to 0, then calls done.
func (e *pathEngine) runDefers(fr *frame, st *pathState, k int, panicking bool, done func(*frame, *pathState) []funcOutcome, at ssa.Instruction, in *ssa.Function) []funcOutcome {
	if k < 0 {
		if !panicking {
			fr.defers = nil
		}
		return done(fr, st)
	}
	d := fr.defers[k]
	before := st.recovered
	cont := func(fr2 *frame, st2 *pathState, _ []AV) []funcOutcome {
		stillPanicking := panicking && st2.recovered == before
		return e.runDefers(fr2, st2, k-1, stillPanicking, done, at, in)
	}
	onPanic := func(fr2 *frame, st2 *pathState, at2 ssa.Instruction, in2 *ssa.Function) []funcOutcome {
		// a deferred call panicked: the new panic replaces the old one; remaining defers still run
		return e.runDefers(fr2, st2, k-1, true, done, at2, in2)
	}
	// evaluate with the argument values captured at defer time
	cc := d.call.Call
	saved := map[ssa.Value]AV{}
	for j, a := range cc.Args {
		if old, ok := fr.env[a]; ok {
			saved[a] = old
		}
		fr.env[a] = d.args[j]
	}
	_ = saved
	// while unwinding, the deferred callee is interpreted with inPanic set; `defer recover()` itself does not recover
	return e.doCall(fr, st, d.call, &cc, cont, onPanic, panicking)
}

// Summary helpers ---------------------------------------------------------------------------------------------

// outcomeKey renders a path compactly for diagnostics and evidence.
func outcomeKey(o *Outcome) string {
	return fmt.Sprintf("%s | %s", o.TraceString(), o.Exit)
}

func sortOutcomes(outs []Outcome) {
	sort.SliceStable(outs, func(i, j int) bool { return outcomeKey(&outs[i]) < outcomeKey(&outs[j]) })
}
