package main

import (
	"fmt"
	"go/token"
	"go/types"
	"sort"
	"strings"

	"golang.org/x/tools/go/ssa"
)

func init() { register("C04", checkC04) }

// dataPathModel resolves the anchors of the data path by structure:
//
//	reader  = module functions from which a JSON decode call and the JSON-LD Flatten call are both reachable
//	decode  = (*json.Decoder).Decode / json.Unmarshal;  flatten = (*ld.JsonLdProcessor).Flatten
//	eval    = (rego.PreparedEvalQuery).Eval;            evalInput = rego.EvalInput
type dataPathModel struct {
	p             *Prog
	reachesDecode map[*ssa.Function]bool
	reachesFlat   map[*ssa.Function]bool
	decodeSites   int
	flattenSites  int
}

func isJSONDecode(o types.Object) bool {
	n := funcFullName(o)
	return n == "(*encoding/json.Decoder).Decode" || n == "encoding/json.Unmarshal"
}

func isFlatten(o types.Object) bool {
	return strings.HasSuffix(funcFullName(o), "json-gold/ld.JsonLdProcessor).Flatten")
}

func isRegoEval(o types.Object) bool {
	return funcFullName(o) == "("+opaPath+"/rego.PreparedEvalQuery).Eval"
}

func isEvalInput(o types.Object) bool {
	return funcFullName(o) == opaPath+"/rego.EvalInput"
}

func newDataPathModel(p *Prog) *dataPathModel {
	m := &dataPathModel{p: p, reachesDecode: map[*ssa.Function]bool{}, reachesFlat: map[*ssa.Function]bool{}}
	funcs := p.ModuleFuncs()
	for _, fn := range funcs {
		for _, b := range fn.Blocks {
			for _, ins := range b.Instrs {
				if c, ok := ins.(ssa.CallInstruction); ok {
					o := ssaCalleeObj(c)
					if isJSONDecode(o) {
						m.reachesDecode[fn] = true
						m.decodeSites++
					}
					if isFlatten(o) {
						m.reachesFlat[fn] = true
						m.flattenSites++
					}
				}
			}
		}
	}
	for _, set := range []map[*ssa.Function]bool{m.reachesDecode, m.reachesFlat} {
		changed := true
		for changed {
			changed = false
			for _, fn := range funcs {
				if set[fn] {
					continue
				}
				for _, c := range p.ModuleCallees(fn) {
					if set[c] {
						set[fn] = true
						changed = true
						break
					}
				}
			}
		}
	}
	return m
}

func checkC04(c *Ctx) {
	r, p := c.R, c.P
	r.Explanation = "Decides three structural necessary conditions of 'unreadable data yields an error'. (E1) In every module function on the data path (reachable from the function that decodes and flattens the data text), each call that returns an error is followed, on every intra-procedural path on which that error is non-nil, by a return of a non-nil error or a panic, and no such error result is discarded. (E2) On every inlined path from every validating entry point (pkg.*, internal/validator.*, with deferred recover() modelled and every dependency call forked into a panicking path): once a data-path error is known non-nil or a panic raised below the data stages has been recovered, the entry point returns a non-nil error and neither the policy evaluation nor the report builder is called afterwards. (E3) The value handed to rego.EvalInput on any path is the result of the reader call made on that same path (no cache, no fallback). (E4) In the GOOS=js GOARCH=wasm build the wrappers return a text derived from the error, not the report, when the library returns an error. Does not decide which byte strings encoding/json and json-gold reject."
	r.Declines = []string{"which byte strings encoding/json and json-gold reject (trusted base)", "trailing bytes after the first JSON value (json.Decoder semantics)"}
	r.Trusted = []string{"encoding/json and json-gold return a non-nil error (or panic) for every text they cannot read"}
	r.Rule("C04.E1", "data-path functions: a non-nil error from a callee is returned as a non-nil error (or panics), never dropped", 2)
	r.Rule("C04.E2", "entry points: after a failed read (non-nil data-path error or recovered panic) the call returns a non-nil error and never evaluates or builds a report", 8)
	r.Rule("C04.E3", "the input evaluated is the reader's result of the same call", 8)

	dm := newDataPathModel(p)
	r.Analysed["json_decode_call_sites"] = dm.decodeSites
	r.Analysed["jsonld_flatten_call_sites"] = dm.flattenSites
	if dm.decodeSites == 0 || dm.flattenSites == 0 {
		r.Unknown("C04.E1", "anchors", "", fmt.Sprintf("data path anchors not found: %d JSON decode call(s), %d Flatten call(s) in the module", dm.decodeSites, dm.flattenSites))
		return
	}
	// readers: functions reaching both; the innermost one (no reader callee reaching both) is the data-stage function
	var readers []*ssa.Function
	for fn := range dm.reachesDecode {
		if dm.reachesFlat[fn] {
			readers = append(readers, fn)
		}
	}
	sort.Slice(readers, func(i, j int) bool { return FuncKey(readers[i]) < FuncKey(readers[j]) })
	var innermost []*ssa.Function
	for _, fn := range readers {
		inner := true
		for _, cal := range p.ModuleCallees(fn) {
			if dm.reachesDecode[cal] && dm.reachesFlat[cal] {
				inner = false
			}
		}
		if inner {
			innermost = append(innermost, fn)
		}
	}
	names := []string{}
	for _, f := range innermost {
		names = append(names, FuncKey(f))
	}
	r.Analysed["data_stage_functions"] = names
	isReader := map[*ssa.Function]bool{}
	for _, f := range innermost {
		isReader[f] = true
	}

	// data path = everything reachable from the innermost readers, plus the readers themselves (callers up to the entries)
	dataPath := p.Reach(innermost...)
	strictPath := map[*ssa.Function]bool{}
	for f := range dataPath {
		strictPath[f] = true
	}
	for _, f := range readers {
		dataPath[f] = true
	}
	var dpFuncs []*ssa.Function
	for f := range dataPath {
		if RelPkg(f) == "cmd/commands" || RelPkg(f) == "cmd" || strings.HasPrefix(RelPkg(f), "performance") || RelPkg(f) == "js" {
			continue // CLI / benchmark front ends are C18's subject
		}
		dpFuncs = append(dpFuncs, f)
	}
	sort.Slice(dpFuncs, func(i, j int) bool { return FuncKey(dpFuncs[i]) < FuncKey(dpFuncs[j]) })
	r.Analysed["data_path_functions"] = len(dpFuncs)

	// ---- E1: local error discipline
	e1Funcs := 0
	for _, fn := range dpFuncs {
		var errCalls []ssa.CallInstruction
		for _, b := range fn.Blocks {
			for _, ins := range b.Instrs {
				ci, ok := ins.(ssa.CallInstruction)
				if !ok {
					continue
				}
				if _, isDefer := ins.(*ssa.Defer); isDefer {
					continue
				}
				if n := funcFullName(ssaCalleeObj(ci)); n == "errors.New" || n == "fmt.Errorf" {
					continue // constructors of error values, not fallible calls
				}
				if resultHasError(ci.Common().Signature()) >= 0 {
					errCalls = append(errCalls, ci)
				}
			}
		}
		if len(errCalls) == 0 {
			continue
		}
		e1Funcs++
		localErrorDiscipline(c, "C04.E1", fn, errCalls)
	}
	r.Analysed["functions_with_error_calls_on_data_path"] = e1Funcs

	// ---- E2/E3: whole paths from the entry points
	em, err := loadEventModel(p)
	var rel map[*ssa.Function]bool
	if err == nil {
		rel = eventRelevant(p, em)
	} else {
		rel = map[*ssa.Function]bool{}
	}
	pf := NewPanicFree(p)
	inline := func(fn *ssa.Function) bool {
		if isReader[fn] {
			return true
		}
		if rel[fn] {
			return true
		}
		// callers of the reader up to the entry points
		return dm.reachesDecode[fn] && dm.reachesFlat[fn]
	}
	cfg := PathConfig{
		P:      p,
		Inline: inline,
		Classify: func(call ssa.CallInstruction, callee types.Object, args []AV) (*Token, bool) {
			switch {
			case isRegoEval(callee):
				return &Token{Kind: "eval"}, false
			case isEvalInput(callee):
				return &Token{Kind: "evalinput"}, false
			}
			if f := call.Common().StaticCallee(); f != nil && IsModuleFunc(f) {
				// the report builder: the module function that receives the *rego.ResultSet and returns (string, error)
				sig := f.Signature
				if sig.Params().Len() > 0 && strings.HasSuffix(types.TypeString(sig.Params().At(0).Type(), nil), "rego.ResultSet") {
					return &Token{Kind: "report", Label: FuncKey(f)}, false
				}
			}
			return nil, false
		},
		MayPanic: func(call ssa.CallInstruction, callee types.Object) bool {
			if f := call.Common().StaticCallee(); f != nil && IsModuleFunc(f) {
				return !pf.Free(f)
			}
			return !pureExternal[funcFullName(callee)]
		},
		ResultHint: func(callee types.Object, idx int) Nilness {
			switch funcFullName(callee) {
			case "errors.New", "fmt.Errorf":
				return IsNonNil
			}
			return NilUnknown
		},
	}
	// entry points: exported functions of pkg and internal/validator that reach the reader and return (string, error)
	var entries []*ssa.Function
	for _, pkgRel := range []string{"pkg", "internal/validator"} {
		for _, fn := range p.ExportedFuncs(pkgRel) {
			if !(dm.reachesDecode[fn] && dm.reachesFlat[fn]) || isReader[fn] {
				continue
			}
			res := fn.Signature.Results()
			if res.Len() == 2 && isErrorType(res.At(1).Type()) {
				if bt, ok := res.At(0).Type().Underlying().(*types.Basic); ok && bt.Kind() == types.String {
					entries = append(entries, fn)
				}
			}
		}
	}
	r.Analysed["validating_entry_points"] = len(entries)
	total := 0
	for _, en := range entries {
		eng := newPathEngine(cfg)
		outs, _ := eng.Run(en, nil, nil)
		sortOutcomes(outs)
		total += len(outs)
		key := FuncKey(en)
		if eng.over {
			r.Unknown("C04.E2", key, p.Pos(en.Pos()), "path limit exceeded")
			continue
		}
		e2ok, e3ok := true, true
		failedPaths, evalPaths := 0, 0
		seen := map[string]bool{}
		for i := range outs {
			o := &outs[i]
			if o.Exit == "cut" {
				continue // loop-bounded continuation of an inlined helper; complete paths are covered by the other outcomes
			}
			failIdx := -1
			failWhat := ""
			for ti, t := range o.Trace {
				switch t.Kind {
				case "err":
					if t.Fn != nil && (dataPath[t.Fn] || isReader[t.Fn]) && failIdx < 0 {
						// an error produced on the data path is known to be non-nil from here on
						failIdx, failWhat = ti, "non-nil error from "+t.Label+" in "+FuncKey(t.Fn)
					}
				case "recovered":
					if t.Fn != nil && dataPath[t.Fn] && failIdx < 0 {
						failIdx, failWhat = ti, "panic below "+t.Label+" recovered"
					}
				}
			}
			// E3: evalinput argument identity
			for _, t := range o.Trace {
				if t.Kind != "evalinput" {
					continue
				}
				evalPaths++
				okOrigin := false
				if len(t.Args) == 1 {
					a := t.Args[0]
					// the value is produced by a call made, on this path, inside the data stage (or is the data stage's result)
					if ci, ok := a.Origin.(ssa.CallInstruction); ok {
						if f := ci.Common().StaticCallee(); f != nil && isReader[f] && a.Index == 0 {
							okOrigin = true
						}
						if strictPath[ci.Parent()] {
							okOrigin = true
						}
					}
				}
				if !okOrigin {
					e3ok = false
					k := key + "#evalinput@" + FuncKey(t.Fn)
					if !seen[k] {
						seen[k] = true
						r.Bad("C04.E3", k, p.Pos(t.Pos), fmt.Sprintf("on the path [%s] the value evaluated is not the result of the data-stage function (%s) called on this path; decisions: %s", o.TraceString(), strings.Join(names, ","), strings.Join(o.Decisions, "; ")))
					}
				}
			}
			if failIdx < 0 {
				continue
			}
			failedPaths++
			bad := ""
			for _, t := range o.Trace[failIdx:] {
				if t.Kind == "eval" || t.Kind == "report" {
					bad = "the " + map[string]string{"eval": "policy is evaluated", "report": "report is built"}[t.Kind] + " after the failed read"
					break
				}
			}
			switch o.Exit {
			case "return":
				if bad == "" && (len(o.Results) < 2 || o.NilnessOf(o.Results[1]) != IsNonNil) {
					bad = "the entry point returns an error that is not known to be non-nil"
					if len(o.Results) == 2 && o.NilnessOf(o.Results[1]) == IsNil {
						bad = "the entry point returns a nil error"
					}
				}
			case "panic":
				// a panic is not a verdict; C17 decides that it must not happen
			default:
				if bad == "" {
					bad = "the path ends with " + o.Exit
				}
			}
			if bad != "" {
				e2ok = false
				k := key + "#" + strings.ReplaceAll(failWhat, " ", "_")
				if !seen[k] {
					seen[k] = true
					r.Bad("C04.E2", k, p.Pos(o.Trace[failIdx].Pos), fmt.Sprintf("%s: %s; path [%s] exit=%s; decisions: %s", failWhat, bad, o.TraceString(), o.Exit, strings.Join(o.Decisions, "; ")))
				}
			}
		}
		if e2ok {
			if failedPaths == 0 {
				r.Unknown("C04.E2", key, p.Pos(en.Pos()), "no failing-read path was found from this entry point: the data-path error sources are not visible to the analysis")
			} else {
				r.OK("C04.E2", key, p.Pos(en.Pos()), fmt.Sprintf("%d paths, %d with a failed read: all return a non-nil error without evaluating or reporting", len(outs), failedPaths))
			}
		}
		if e3ok {
			if evalPaths == 0 {
				r.Unknown("C04.E3", key, p.Pos(en.Pos()), "no path reaches rego.EvalInput from this entry point")
			} else {
				r.OK("C04.E3", key, p.Pos(en.Pos()), fmt.Sprintf("%d evaluating paths: the input is always the data-stage result of the same call", evalPaths))
			}
		}
	}
	r.Analysed["paths_enumerated"] = total

	// ---- E5: what is judged readable or unreadable is the caller's data text itself: the JSON decoder reads the text the
	// entry point was given, passed through unchanged (a reader that strips, trims or repairs its input first turns
	// unreadable data into a verdict)
	r.Rule("C04.E5", "the JSON decoder reads the data text the entry point was given, unchanged", 1)
	e5 := 0
	for _, fn := range p.ModuleFuncs() {
		if RelPkg(fn) != "internal/validator" || strings.HasSuffix(p.Fset.Position(fn.Pos()).Filename, "_test.go") {
			continue
		}
		for _, b := range fn.Blocks {
			for _, ins := range b.Instrs {
				ci, ok := ins.(ssa.CallInstruction)
				if !ok {
					continue
				}
				n := funcFullName(ssaCalleeObj(ci))
				if n != "encoding/json.NewDecoder" && n != "encoding/json.Unmarshal" {
					continue
				}
				e5++
				origin := ci.Common().Args[0]
				for {
					switch x := origin.(type) {
					case *ssa.Convert:
						origin = x.X
						continue
					case *ssa.ChangeType:
						origin = x.X
						continue
					case *ssa.MakeInterface:
						origin = x.X
						continue
					case *ssa.Call:
						switch funcFullName(ssaCalleeObj(x)) {
						case "bytes.NewReader", "strings.NewReader", "bytes.NewBuffer", "bytes.NewBufferString":
							origin = x.Call.Args[0]
							continue
						}
					}
					break
				}
				prm, isParam := origin.(*ssa.Parameter)
				why := "the JSON decoder is given " + origin.String() + ", not the caller's data text"
				if isParam {
					if okUp, w := textPassedThrough(p, fn, prm, 0, map[*ssa.Function]bool{}); !okUp {
						isParam, why = false, w
					}
				}
				r.Check(isParam, "C04.E5", FuncKey(fn)+"#decoded-text", p.Pos(ins.Pos()), "the decoder reads the data text the entry point was given", why+": data the caller would see rejected is repaired or altered before it is judged")
			}
		}
	}
	if e5 == 0 {
		r.Unknown("C04.E5", "json-decode-sites", "", "no JSON decoder call found in internal/validator")
	}

	// ---- E6: the decode is unconditional: in the function that decodes the text, the decode call dominates the call that
	// normalises the decoded value (a loop such as `for decoder.More() { Decode }` runs zero times on empty input and lets an
	// unread document through as an empty graph)
	r.Rule("C04.E6", "the JSON decode dominates the normalisation of its result", 1)
	e6 := 0
	for fn := range dm.reachesDecode {
		if !dm.reachesFlat[fn] || fn.Blocks == nil {
			continue
		}
		var decodes, normals []ssa.Instruction
		for _, b := range fn.Blocks {
			for _, ins := range b.Instrs {
				ci, ok := ins.(ssa.CallInstruction)
				if !ok {
					continue
				}
				if _, isDefer := ins.(*ssa.Defer); isDefer {
					continue
				}
				if isJSONDecode(ssaCalleeObj(ci)) {
					decodes = append(decodes, ins)
				}
				if callee := ci.Common().StaticCallee(); callee != nil && dm.reachesDecode[callee] && !dm.reachesFlat[callee] {
					decodes = append(decodes, ins) // a stage that only decodes
				}
				if callee := ci.Common().StaticCallee(); callee != nil && dm.reachesFlat[callee] && !dm.reachesDecode[callee] {
					normals = append(normals, ins)
				}
			}
		}
		if len(decodes) == 0 || len(normals) == 0 {
			continue // an outer function: the decode and the normalisation happen in a callee
		}
		e6++
		okDom := true
		for _, n := range normals {
			dominated := false
			for _, d := range decodes {
				if d.Block() == n.Block() {
					// same block: the decode must come first
					for _, ins := range d.Block().Instrs {
						if ins == d {
							dominated = true
							break
						}
						if ins == n {
							break
						}
					}
				} else if d.Block().Dominates(n.Block()) {
					dominated = true
				}
			}
			if !dominated {
				okDom = false
			}
		}
		r.Check(okDom, "C04.E6", FuncKey(fn)+"#decode-before-normalise", p.Pos(fn.Pos()), "every path to the normalisation passes through the decode call", "the normalisation of the document can be reached without passing through the JSON decode (the decode sits in a loop or branch): a text that is never decoded is treated as an empty document and yields a verdict")
	}
	if e6 == 0 {
		r.Unknown("C04.E6", "data-stage", "", "no function that both decodes and normalises the data text was found")
	}

	// ---- E7: explicit panics on the data path carry a non-nil value (go 1.19 semantics: recover() returns nil for
	// panic(nil) and the boundary would report success)
	r.Rule("C04.E7", "explicit panics on the data path never carry a nil value", 1)
	e7 := 0
	var dataRoots []*ssa.Function
	for fn := range dm.reachesDecode {
		if dm.reachesFlat[fn] {
			dataRoots = append(dataRoots, fn)
		}
	}
	for _, fn := range sortedFuncs(p.Reach(dataRoots...)) {
		if !dm.reachesFlat[fn] && !dm.reachesDecode[fn] && RelPkg(fn) != "internal/validator" {
			continue
		}
		ord := ordinal{}
		for _, b := range fn.Blocks {
			for _, ins := range b.Instrs {
				pi, ok := ins.(*ssa.Panic)
				if !ok {
					continue
				}
				e7++
				why, okv := panicValueNonNil(pi.X, pi.Block(), 0)
				r.Check(okv, "C04.E7", ord.next(FuncKey(fn)+"#panic"), p.Pos(pi.Pos()), "panic value is not nil: "+why, "the value passed to panic may be nil ("+why+"): recover() then returns nil, the boundary reports success and unreadable data yields a verdict")
			}
		}
	}
	if e7 == 0 {
		r.OK("C04.E7", "census", "", "no explicit panic on the data path")
	}

	c04JS(c)
}

// localErrorDiscipline: intra-procedural rule (C04.E1, C16.X3) for one function: each listed fallible call's error is
// tested and, where it is non-nil, the function returns a non-nil error or panics; it is never discarded.
func localErrorDiscipline(c *Ctx, rule string, fn *ssa.Function, errCalls []ssa.CallInstruction) {
	r, p := c.R, c.P
	key := FuncKey(fn)
	ord := ordinal{}
	errIdxOfFn := resultHasError(fn.Signature)
	// dropped results: the error component has no use at all
	for _, ci := range errCalls {
		v, ok := ci.(ssa.Value)
		if !ok {
			continue
		}
		idx := resultHasError(ci.Common().Signature())
		used := false
		if ci.Common().Signature().Results().Len() == 1 {
			used = v.Referrers() != nil && len(nonDebugRefs(v)) > 0
		} else if v.Referrers() != nil {
			for _, ref := range *v.Referrers() {
				if ex, ok := ref.(*ssa.Extract); ok && ex.Index == idx && len(nonDebugRefs(ex)) > 0 {
					used = true
				}
			}
		}
		k := ord.next(key + "#" + calleeName(ci))
		if !used {
			r.Bad(rule, k, p.Pos(ci.Pos()), "the error result of "+calleeName(ci)+" is discarded on the data path")
			continue
		}
		_ = k
	}
	// branch rule: for every nil test of the error, explore the paths that start on the non-nil side (nothing inlined,
	// no panics forked); each must return a non-nil error (or panic / exit)
	// small module helpers (`return closeWithError(ch, err)`) are interpreted: they hand the error on
	cfg := PathConfig{P: p, Inline: func(f *ssa.Function) bool { return IsModuleFunc(f) && f.Blocks != nil && len(f.Blocks) <= 4 && f != fn }, MayPanic: func(ssa.CallInstruction, types.Object) bool { return false }, MaxPaths: 5000,
		ResultHint: func(callee types.Object, idx int) Nilness {
			switch funcFullName(callee) {
			case "errors.New", "fmt.Errorf":
				return IsNonNil
			}
			return NilUnknown
		}}
	ord2 := ordinal{}
	for _, ci := range errCalls {
		k := ord2.next(key + "#" + calleeName(ci))
		v, ok := ci.(ssa.Value)
		if !ok {
			continue
		}
		idx := resultHasError(ci.Common().Signature())
		var errVals []ssa.Value
		if ci.Common().Signature().Results().Len() == 1 {
			errVals = append(errVals, v)
		} else {
			for _, ref := range nonDebugRefs(v) {
				if ex, ok := ref.(*ssa.Extract); ok && ex.Index == idx {
					errVals = append(errVals, ex)
				}
			}
		}
		// the error may be kept in a local cell (named result / reassigned variable): follow one store-load hop
		var tested []ssa.Value
		errCells := map[*ssa.Alloc]bool{}
		for _, ev := range errVals {
			tested = append(tested, ev)
			for _, ref := range nonDebugRefs(ev) {
				if st, ok := ref.(*ssa.Store); ok && st.Val == ev {
					if a, ok := st.Addr.(*ssa.Alloc); ok {
						errCells[a] = true
						for _, r2 := range nonDebugRefs(a) {
							if ld, ok := r2.(*ssa.UnOp); ok && ld.Op == token.MUL && ld.Block() == st.Block() {
								tested = append(tested, ld)
							}
						}
					}
				}
			}
		}
		if len(errVals) == 0 {
			continue // discarded: reported above
		}
		nTests, failing := 0, 0
		msg := ""
		for _, ev := range tested {
			for _, ref := range nonDebugRefs(ev) {
				bo, ok := ref.(*ssa.BinOp)
				if !ok || !(isNilConst(bo.X) || isNilConst(bo.Y)) || (bo.Op != token.EQL && bo.Op != token.NEQ) {
					continue
				}
				for _, r2 := range nonDebugRefs(bo) {
					iff, ok := r2.(*ssa.If)
					if !ok {
						continue
					}
					nTests++
					blk := iff.Block()
					nonNil := blk.Succs[0]
					if bo.Op == token.EQL {
						nonNil = blk.Succs[1]
					}
					eng := newPathEngine(cfg)
					preset := map[ssa.Value]AV{}
					for _, t := range tested {
						preset[t] = AV{Kind: avNonNil, Origin: ci.(ssa.Instruction), Index: idx}
					}
					// the cell the error was stored in holds that (non-nil) error when the branch is entered
					cells := map[*ssa.Alloc]AV{}
					for a := range errCells {
						cells[a] = AV{Kind: avNonNil, Origin: ci.(ssa.Instruction), Index: idx}
					}
					outs := eng.RunFromCells(fn, nonNil, blk, preset, cells)
					if eng.over {
						msg = "the non-nil branch of the error test leads into too many paths to enumerate (it does not leave the function promptly)"
						continue
					}
					for i := range outs {
						o := &outs[i]
						switch o.Exit {
						case "panic", "exit":
							failing++
						case "cut":
						case "return":
							failing++
							if errIdxOfFn < 0 {
								msg = "the function has no error result: a non-nil error from " + calleeName(ci) + " cannot be reported to the caller"
							} else if o.NilnessOf(o.Results[errIdxOfFn]) != IsNonNil {
								msg = fmt.Sprintf("on the branch where the error of %s is non-nil the function returns an error that is %s; decisions: %s", calleeName(ci), map[Nilness]string{IsNil: "nil", NilUnknown: "not known to be non-nil"}[o.NilnessOf(o.Results[errIdxOfFn])], strings.Join(o.Decisions, "; "))
							}
						default:
							msg = "the path ends with " + o.Exit
						}
					}
				}
			}
		}
		switch {
		case msg != "":
			r.Bad(rule, k, p.Pos(ci.Pos()), msg)
		case nTests > 0:
			r.OK(rule, k, p.Pos(ci.Pos()), fmt.Sprintf("tested against nil (%d test(s)); the %d path(s) on the non-nil side all return a non-nil error or panic", nTests, failing))
		case c04Returned(ci):
			r.OK(rule, k, p.Pos(ci.Pos()), "the error is returned to the caller unchanged")
		case func() bool { some, all := c04ReturnedOn(ci); return some && !all }():
			r.Bad(rule, k, p.Pos(ci.Pos()), "the error of "+calleeName(ci)+" is never compared with nil and is returned on some paths only: on the paths that go on (a test of another result, a later stage) a non-nil error is lost or overwritten")
		default:
			r.Unknown(rule, k, p.Pos(ci.Pos()), "the error of "+calleeName(ci)+" is neither compared with nil nor returned: unrecognised handling idiom")
		}
	}
}

func nonDebugRefs(v ssa.Value) []ssa.Instruction {
	var out []ssa.Instruction
	if v.Referrers() == nil {
		return nil
	}
	for _, r := range *v.Referrers() {
		if _, ok := r.(*ssa.DebugRef); ok {
			continue
		}
		out = append(out, r)
	}
	return out
}

// c04Returned: the error component of the call flows (through extract / store to a named result / phi) into a return.
// c04Returned: the error result of the call flows into a return statement, and every return that can be reached after
// the call is such a return (an error that is handed back on some paths only, without ever being compared with nil, is
// lost on the others).
func c04Returned(ci ssa.CallInstruction) bool {
	some, all := c04ReturnedOn(ci)
	return some && all
}

func c04ReturnedOn(ci ssa.CallInstruction) (some, all bool) {
	v, ok := ci.(ssa.Value)
	if !ok {
		return false, false
	}
	into := map[*ssa.Return]bool{}
	seen := map[ssa.Value]bool{}
	var flows func(x ssa.Value) bool
	flows = func(x ssa.Value) bool {
		if seen[x] {
			return false
		}
		seen[x] = true
		for _, ref := range nonDebugRefs(x) {
			switch y := ref.(type) {
			case *ssa.Return:
				into[y] = true
			case *ssa.Extract:
				if isErrorType(y.Type()) {
					flows(y)
				}
			case *ssa.Phi:
				flows(y)
			case *ssa.Store:
				if a, ok := y.Addr.(*ssa.Alloc); ok && y.Val == x {
					// named result cell: loaded by the return block
					for _, r2 := range nonDebugRefs(a) {
						if ld, ok := r2.(*ssa.UnOp); ok {
							flows(ld)
						}
					}
				}
			}
		}
		return false
	}
	flows(v)
	if len(into) == 0 {
		return false, false
	}
	// every return reachable from the call
	all = true
	start := ci.Block()
	visited := map[*ssa.BasicBlock]bool{}
	var visit func(b *ssa.BasicBlock)
	visit = func(b *ssa.BasicBlock) {
		if visited[b] {
			return
		}
		visited[b] = true
		for _, ins := range b.Instrs {
			if ret, ok := ins.(*ssa.Return); ok && !into[ret] {
				all = false
			}
		}
		for _, s := range b.Succs {
			visit(s)
		}
	}
	visit(start)
	return true, all
}

// avDerivesFromError: the value is computed from the error result of the call (err.Error(), a concatenation or a
// formatting call that has it among its operands, a helper that is handed err), judged on the SSA operands of the
// instruction that produced it.
func avDerivesFromError(v AV, call *ssa.Call) bool {
	seen := map[ssa.Value]bool{}
	var fromVal func(x ssa.Value, depth int) bool
	fromVal = func(x ssa.Value, depth int) bool {
		if x == nil || seen[x] || depth > 12 {
			return false
		}
		seen[x] = true
		if ex, ok := x.(*ssa.Extract); ok && ex.Tuple == ssa.Value(call) {
			return isErrorType(ex.Type())
		}
		ins, ok := x.(ssa.Instruction)
		if !ok {
			return false
		}
		for _, op := range ins.Operands(nil) {
			if op != nil && *op != nil && fromVal(*op, depth+1) {
				return true
			}
		}
		return false
	}
	if v.Origin == ssa.Instruction(call) {
		return v.Index != 0
	}
	for _, a := range v.CallArgs {
		if avDerivesFromError(a, call) {
			return true
		}
	}
	if ov, ok := v.Origin.(ssa.Value); ok {
		return fromVal(ov, 0)
	}
	return false
}

// c04JS: the js/wasm front end returns the error's text when the library call fails.
func c04JS(c *Ctx) {
	r := c.R
	jp, err := Load(c.RepoDir, "js", "wasm", "./js")
	if err != nil {
		r.Unknown("C04.E4", "js", "", "GOOS=js GOARCH=wasm build of ./js could not be loaded: "+err.Error())
		return
	}
	r.Rule("C04.E4", "js/wasm wrappers: when the library call returns a non-nil error the wrapper returns a text derived from that error (err.Error()), not the report and not a constant", 2)
	sp := jp.SSAPkg("js")
	if sp == nil {
		r.Unknown("C04.E4", "js", "", "package js not found in the js/wasm load")
		return
	}
	cfg := PathConfig{P: jp, Inline: func(*ssa.Function) bool { return false }, MayPanic: func(ssa.CallInstruction, types.Object) bool { return false }}
	n := 0
	for _, fn := range jp.ModuleFuncs() {
		if RelPkg(fn) != "js" || fn.Parent() == nil {
			continue
		}
		// closures that call a module function returning (T, error)
		var libCall *ssa.Call
		for _, b := range fn.Blocks {
			for _, ins := range b.Instrs {
				if cl, ok := ins.(*ssa.Call); ok {
					if f := cl.Call.StaticCallee(); f != nil && IsModuleFunc(f) && RelPkg(f) != "js" && resultHasError(f.Signature) == 1 {
						libCall = cl
					}
				}
			}
		}
		if libCall == nil {
			continue
		}
		n++
		eng := newPathEngine(cfg)
		outs, _ := eng.Run(fn, nil, nil)
		bad := ""
		failing := 0
		for i := range outs {
			o := &outs[i]
			hasErr := false
			for _, t := range o.Trace {
				if t.Kind == "err" && t.Instr == ssa.Instruction(libCall) {
					hasErr = true
				}
			}
			if !hasErr || o.Exit != "return" || len(o.Results) != 1 {
				continue
			}
			failing++
			res := o.Results[0]
			switch {
			case res.Origin == ssa.Instruction(libCall) && res.Index == 0:
				bad = "on the failing path the wrapper returns the library's first result (the report) instead of the error; decisions: " + strings.Join(o.Decisions, "; ")
			case !avDerivesFromError(res, libCall):
				bad = "on the failing path the value the wrapper returns does not derive from the library's error (err.Error() or a text built from it); decisions: " + strings.Join(o.Decisions, "; ")
			}
		}
		k := FuncKey(fn)
		switch {
		case bad != "":
			r.Bad("C04.E4", k, jp.Pos(fn.Pos()), bad)
		case failing == 0:
			r.Unknown("C04.E4", k, jp.Pos(fn.Pos()), "the error of "+calleeName(libCall)+" is never tested in this wrapper")
		default:
			r.OK("C04.E4", k, jp.Pos(fn.Pos()), fmt.Sprintf("%d failing path(s) return err.Error()", failing))
		}
	}
	r.Analysed["js_wrappers_checked"] = n
}
