package main

import (
	"fmt"
	"go/ast"
	"go/token"
	"go/types"
	"sort"
	"strings"

	"golang.org/x/tools/go/ssa"
)

func init() { register("C08", checkC08) }

// the five built-ins the property names
var c08Required = []string{"http.send", "net.lookup_ip_addr", "opa.runtime", "rego.parse_module", "walk"}

// opaDanger classifies a callee of the engine's API.  "" = irrelevant for C08.
func opaDanger(obj types.Object) string {
	f, ok := obj.(*types.Func)
	if !ok {
		return ""
	}
	path := objPkgPath(f)
	if !strings.HasPrefix(path, opaPath+"/") {
		return ""
	}
	sub := strings.TrimPrefix(path, opaPath+"/")
	name := f.Name()
	recv := recvTypeName(f)
	switch {
	case sub == "rego":
		if recv == "" {
			switch name {
			case "Compiler", "Capabilities", "Target", "Resolver", "Store", "Transaction", "Load", "LoadBundle", "ParsedBundle",
				"Function1", "Function2", "Function3", "Function4", "FunctionDyn", "FunctionDecl", "RegisterBuiltin1", "RegisterBuiltin2",
				"RegisterBuiltin3", "RegisterBuiltin4", "RegisterBuiltinDyn", "SkipBundleVerification", "UnsafeBuiltins", "New":
				return "rego." + name
			}
		}
		if recv == "Rego" && (name == "Compile" || name == "PrepareForPartial" || name == "Partial" || name == "Eval") {
			return "rego.(*Rego)." + name
		}
		return ""
	case sub == "ast":
		if strings.HasPrefix(name, "CompileModules") || strings.HasPrefix(name, "MustCompileModules") || name == "NewCompiler" || name == "RegisterBuiltin" || name == "CompileOpts" {
			return "ast." + name
		}
		if recv == "Compiler" && (name == "Compile" || name == "WithUnsafeBuiltins" || name == "WithBuiltins" || name == "WithCapabilities") {
			return "ast.(*Compiler)." + name
		}
		return ""
	case sub == "topdown":
		if name == "NewQuery" || strings.HasPrefix(name, "Register") {
			return "topdown." + name
		}
		return ""
	case sub == "sdk" || sub == "runtime" || sub == "server" || sub == "plugins" || sub == "loader" || sub == "bundle" || sub == "compile" ||
		sub == "ir" || strings.HasPrefix(sub, "plugins/") || strings.HasPrefix(sub, "internal/wasm") || sub == "repl" || sub == "tester" || sub == "download":
		return sub + "." + name
	}
	return ""
}

func checkC08(c *Ctx) {
	r, p := c.R, c.P
	r.Explanation = "Decides, from the type-checked source of /repo and of the OPA version go.mod links: (B1) the key set of the map handed to rego.UnsafeBuiltins, resolved through OPA's own builtin declarations, contains every one of http.send, net.lookup_ip_addr, opa.runtime, rego.parse_module, walk that the linked OPA registers; (B2) every rego.New call in the module passes that option and no other API that compiles, loads or evaluates policies, or that replaces the compiler/capabilities or registers builtins, is used anywhere in non-test module code, so there is exactly one, guarded, way for profile Rego to become an evaluable policy; (B3) the text compiled there is the generator's whole module (RegoUnit.Code), which is where all four embedding positions are spliced; (B4) the deny-list map is never mutated or aliased after initialisation. Does not decide that OPA's compiler rejects every syntactic form of a call to a listed built-in (its unsafe-builtin stage is the trusted base)."
	r.Declines = []string{"OPA's CheckUnsafeBuiltins compiler stage (trusted)", "whether a sixth built-in of the linked engine deserves to be on the list"}
	r.Trusted = []string{"github.com/open-policy-agent/opa (compiler rejects calls to builtins listed in UnsafeBuiltins, wherever they occur in the module)"}
	r.Rule("C08.B1", "the deny-list handed to every rego.New contains the five named built-ins (those the linked OPA registers)", 5)
	r.Rule("C08.B2", "every rego.New passes rego.UnsafeBuiltins(deny-list) exactly once; no other policy-compiling/loading/evaluating or builtin-registering engine API is used", 2)
	r.Rule("C08.B3", "the module text compiled by the guarded rego.New is RegoUnit.Code as produced by generator.Generate", 1)
	r.Rule("C08.B4", "the deny-list map is only read, as the argument of rego.UnsafeBuiltins", 1)
	// B5: a rejected profile stays rejected: nothing a compilation computed (or failed to compute) is kept for the next call
	noCrossCallState(c, "C08.B5", "no compilation outcome survives a call in a package-level variable", "a profile that the compiler rejected can be handed out as compiled by a later call that finds the remembered entry")

	// registered builtin names of the linked OPA: every &Builtin{Name: "..."} literal in package opa/ast
	opaAst := p.AnyPkg(opaPath + "/ast")
	if opaAst == nil {
		r.Unknown("C08.B1", "opa/ast", "", "package github.com/open-policy-agent/opa/ast is not among the loaded dependencies")
		return
	}
	registered := map[string]bool{}
	for _, f := range opaAst.Syntax {
		ast.Inspect(f, func(n ast.Node) bool {
			cl, ok := n.(*ast.CompositeLit)
			if !ok {
				return true
			}
			if tv, ok := opaAst.TypesInfo.Types[cl]; ok {
				if nt := namedOf(tv.Type); nt != nil && nt.Obj().Name() == "Builtin" && objPkgPath(nt.Obj()) == opaAst.PkgPath {
					if nv := compositeField(cl, "Name"); nv != nil {
						if s, ok := constString(opaAst.TypesInfo, nv); ok {
							registered[s] = true
						}
					}
				}
			}
			return true
		})
	}
	r.Analysed["opa_registered_builtins"] = len(registered)
	if mod := opaAst.Module; mod != nil {
		r.Analysed["opa_version"] = mod.Version
	}
	if len(registered) < 100 {
		r.Unknown("C08.B1", "opa/ast.Builtins", "", fmt.Sprintf("only %d builtin declarations were resolved in the linked OPA; expected well over 100", len(registered)))
	}
	// self-check of the classifier on the linked OPA's own objects (positive examples for the zero-count rule B2)
	for _, probe := range []struct{ pkg, name string }{{"ast", "NewCompiler"}, {"ast", "CompileModules"}, {"rego", "Compiler"}, {"topdown", "NewQuery"}} {
		pk := p.AnyPkg(opaPath + "/" + probe.pkg)
		ok := false
		if pk != nil {
			if o := pk.Types.Scope().Lookup(probe.name); o != nil && opaDanger(o) != "" {
				ok = true
			}
		}
		if !ok {
			r.Unknown("C08.B2", "selfcheck:"+probe.pkg+"."+probe.name, "", "the engine-API classifier no longer recognises this entry point of the linked OPA (renamed or removed upstream): the census would pass vacuously")
		}
	}

	type denyList struct {
		names   map[string]bool
		global  *types.Var
		descr   string
		unknown []string
	}
	resolveMapLit := func(info *types.Info, e ast.Expr) (*denyList, bool) {
		cl, ok := ast.Unparen(e).(*ast.CompositeLit)
		if !ok {
			return nil, false
		}
		if _, isMap := info.Types[cl].Type.Underlying().(*types.Map); !isMap {
			return nil, false
		}
		dl := &denyList{names: map[string]bool{}}
		for _, el := range cl.Elts {
			kv, ok := el.(*ast.KeyValueExpr)
			if !ok {
				return nil, false
			}
			if s, ok := p.resolveString(info, kv.Key); ok {
				dl.names[s] = true
			} else {
				dl.unknown = append(dl.unknown, types.ExprString(kv.Key))
			}
		}
		return dl, true
	}
	// resolve the argument of rego.UnsafeBuiltins(x)
	var resolveDeny func(pkInfo *types.Info, e ast.Expr, fnBody *ast.BlockStmt) *denyList
	resolveDeny = func(info *types.Info, e ast.Expr, fnBody *ast.BlockStmt) *denyList {
		e = ast.Unparen(e)
		if dl, ok := resolveMapLit(info, e); ok {
			dl.descr = "map literal"
			return dl
		}
		id, ok := e.(*ast.Ident)
		if !ok {
			if sel, ok := e.(*ast.SelectorExpr); ok {
				id = sel.Sel
			} else {
				return nil
			}
		}
		v, ok := info.Uses[id].(*types.Var)
		if !ok {
			return nil
		}
		if v.Pkg() != nil && v.Parent() == v.Pkg().Scope() {
			init, pk := p.varInitializer(v)
			if init == nil {
				return nil
			}
			if dl, ok := resolveMapLit(pk.TypesInfo, init); ok {
				dl.global = v
				dl.descr = "package-level variable " + v.Name()
				return dl
			}
			return nil
		}
		// local variable: accept a single definition `x := map...{...}` with no other assignment in the function
		if fnBody == nil {
			return nil
		}
		var def ast.Expr
		assigns := 0
		ast.Inspect(fnBody, func(n ast.Node) bool {
			as, ok := n.(*ast.AssignStmt)
			if !ok {
				return true
			}
			for i, lhs := range as.Lhs {
				if lid, ok := lhs.(*ast.Ident); ok && (info.Defs[lid] == v || info.Uses[lid] == v) {
					assigns++
					if len(as.Rhs) == len(as.Lhs) {
						def = as.Rhs[i]
					}
				}
			}
			return true
		})
		if assigns == 1 && def != nil {
			if dl, ok := resolveMapLit(info, def); ok {
				dl.descr = "local map literal " + v.Name()
				// a local map may still be updated by index assignment; reject if any x[k] = v / delete(x, k)
				mutated := false
				ast.Inspect(fnBody, func(n ast.Node) bool {
					switch s := n.(type) {
					case *ast.AssignStmt:
						for _, lhs := range s.Lhs {
							if ix, ok := lhs.(*ast.IndexExpr); ok {
								if xid, ok := ast.Unparen(ix.X).(*ast.Ident); ok && info.Uses[xid] == v {
									mutated = true
								}
							}
						}
					case *ast.CallExpr:
						if fid, ok := s.Fun.(*ast.Ident); ok && fid.Name == "delete" && len(s.Args) > 0 {
							if xid, ok := ast.Unparen(s.Args[0]).(*ast.Ident); ok && info.Uses[xid] == v {
								mutated = true
							}
						}
					}
					return true
				})
				if mutated {
					return nil
				}
				return dl
			}
		}
		return nil
	}

	regoPkg := opaPath + "/rego"
	news := 0
	var guardGlobals []*types.Var
	ord := ordinal{}
	for _, pk := range p.modPkgsSorted() {
		rel := relOf(pk)
		info := pk.TypesInfo
		for _, file := range pk.Syntax {
			// map from function body to allow local resolution
			var stack []ast.Node
			ast.Inspect(file, func(n ast.Node) bool {
				if n == nil {
					stack = stack[:len(stack)-1]
					return true
				}
				stack = append(stack, n)
				call, ok := n.(*ast.CallExpr)
				if !ok {
					return true
				}
				callee := calleeOf(info, call)
				danger := opaDanger(callee)
				if danger == "" {
					return true
				}
				fname := enclosingFuncName(pk, call.Pos())
				var body *ast.BlockStmt
				for i := len(stack) - 1; i >= 0; i-- {
					if fd, ok := stack[i].(*ast.FuncDecl); ok {
						body = fd.Body
						break
					}
					if fl, ok := stack[i].(*ast.FuncLit); ok {
						body = fl.Body
						break
					}
				}
				switch {
				case isFunc(callee, regoPkg, "New"):
					news++
					key := ord.next(rel + "." + fname + "#rego.New")
					// find UnsafeBuiltins options among the arguments (directly or through a local variable assigned once)
					var guards []*ast.CallExpr
					spread := call.Ellipsis.IsValid()
					for _, a := range call.Args {
						a = ast.Unparen(a)
						if ac, ok := a.(*ast.CallExpr); ok {
							if isFunc(calleeOf(info, ac), regoPkg, "UnsafeBuiltins") {
								guards = append(guards, ac)
							}
							continue
						}
						if aid, ok := a.(*ast.Ident); ok && body != nil {
							v := info.Uses[aid]
							ast.Inspect(body, func(m ast.Node) bool {
								as, ok := m.(*ast.AssignStmt)
								if !ok || len(as.Lhs) != len(as.Rhs) {
									return true
								}
								for i, lhs := range as.Lhs {
									if lid, ok := lhs.(*ast.Ident); ok && (info.Defs[lid] == v || info.Uses[lid] == v) {
										if ac, ok := ast.Unparen(as.Rhs[i]).(*ast.CallExpr); ok && isFunc(calleeOf(info, ac), regoPkg, "UnsafeBuiltins") {
											guards = append(guards, ac)
										}
									}
								}
								return true
							})
						}
					}
					if spread {
						r.Unknown("C08.B2", key, p.Pos(call.Pos()), "rego.New is called with a spread option slice; the options cannot be enumerated statically")
						return true
					}
					if len(guards) == 0 {
						r.Bad("C08.B2", key, p.Pos(call.Pos()), "this rego.New call does not pass rego.UnsafeBuiltins: policies compiled here may call http.send, net.lookup_ip_addr, opa.runtime, rego.parse_module, walk")
						return true
					}
					if len(guards) > 1 {
						r.Bad("C08.B2", key, p.Pos(call.Pos()), "rego.UnsafeBuiltins is passed more than once to this rego.New; the last one replaces the others")
						return true
					}
					r.OK("C08.B2", key, p.Pos(call.Pos()), "rego.New passes rego.UnsafeBuiltins exactly once")
					dl := resolveDeny(info, guards[0].Args[0], body)
					if dl == nil {
						r.Unknown("C08.B1", key+"#denylist", p.Pos(guards[0].Pos()), "the argument of rego.UnsafeBuiltins is not a map literal, a package-level variable initialised with one, or a local assigned once: its keys cannot be resolved")
						return true
					}
					if len(dl.unknown) > 0 {
						r.Unknown("C08.B1", key+"#denylist", p.Pos(guards[0].Pos()), "keys that do not resolve to constant builtin names: "+strings.Join(dl.unknown, ", "))
					}
					if dl.global != nil {
						guardGlobals = append(guardGlobals, dl.global)
					}
					for _, name := range c08Required {
						k := key + "#deny:" + name
						switch {
						case dl.names[name]:
							r.OK("C08.B1", k, p.Pos(guards[0].Pos()), fmt.Sprintf("%s is in the deny-list (%s)", name, dl.descr))
						case !registered[name]:
							r.OK("C08.B1", k, p.Pos(guards[0].Pos()), fmt.Sprintf("%s is not registered by the linked OPA version, it cannot be called", name))
						default:
							r.Bad("C08.B1", k, p.Pos(guards[0].Pos()), fmt.Sprintf("%s is registered by the linked OPA but missing from the deny-list (%s): a profile can call it", name, dl.descr))
						}
					}
					// B3: the rego.Module option's source argument is the Code field of a generator.RegoUnit
					foundModule := false
					for _, a := range call.Args {
						cands := []ast.Expr{ast.Unparen(a)}
						if aid, ok := ast.Unparen(a).(*ast.Ident); ok && body != nil {
							v := info.Uses[aid]
							ast.Inspect(body, func(m ast.Node) bool {
								if as, ok := m.(*ast.AssignStmt); ok && len(as.Lhs) == len(as.Rhs) {
									for i, lhs := range as.Lhs {
										if lid, ok := lhs.(*ast.Ident); ok && (info.Defs[lid] == v || info.Uses[lid] == v) {
											cands = append(cands, ast.Unparen(as.Rhs[i]))
										}
									}
								}
								return true
							})
						}
						for _, cnd := range cands {
							mc, ok := cnd.(*ast.CallExpr)
							if !ok || !isFunc(calleeOf(info, mc), regoPkg, "Module") || len(mc.Args) != 2 {
								continue
							}
							foundModule = true
							src := ast.Unparen(mc.Args[1])
							okSrc := false
							if sel, ok := src.(*ast.SelectorExpr); ok {
								if s := info.Selections[sel]; s != nil && s.Obj().Name() == "Code" {
									if nt := namedOf(s.Recv()); nt != nil && nt.Obj().Name() == "RegoUnit" && strings.HasSuffix(objPkgPath(nt.Obj()), "/internal/generator") {
										okSrc = true
									}
								}
							}
							r.Check(okSrc, "C08.B3", key+"#module", p.Pos(mc.Pos()), "the compiled text is generator.RegoUnit.Code", "the text handed to rego.Module is not the Code field of a generator.RegoUnit: "+types.ExprString(src))
						}
					}
					if !foundModule {
						r.Unknown("C08.B3", key+"#module", p.Pos(call.Pos()), "no rego.Module option found at the guarded rego.New")
					}
				case isFunc(callee, regoPkg, "UnsafeBuiltins"):
					// accounted for at the rego.New that consumes it; a use that is not consumed by a rego.New in this function is suspicious
				case isMethod(callee, regoPkg, "Rego", "Eval") || isMethod(callee, regoPkg, "Rego", "PrepareForPartial") || isMethod(callee, regoPkg, "Rego", "Partial") || isMethod(callee, regoPkg, "Rego", "Compile"):
					// evaluation straight from a *Rego: its receiver must be a guarded rego.New; handled by the New rule when chained
					if sel, ok := call.Fun.(*ast.SelectorExpr); ok {
						if inner, ok := ast.Unparen(sel.X).(*ast.CallExpr); ok && isFunc(calleeOf(info, inner), regoPkg, "New") {
							return true
						}
					}
					r.Unknown("C08.B2", ord.next(rel+"."+fname+"#"+danger), p.Pos(call.Pos()), "evaluation from a *rego.Rego value whose construction is not visible at the call")
				default:
					r.Bad("C08.B2", ord.next(rel+"."+fname+"#"+danger), p.Pos(call.Pos()), danger+" opens a second way to compile, load or evaluate policies (or changes the builtin set) outside the single guarded rego.New")
				}
				return true
			})
		}
	}
	r.Analysed["rego_new_calls"] = news
	// positive instance: the census itself
	r.OK("C08.B2", "census", "", fmt.Sprintf("engine API census over %d module packages: %d rego.New call(s), every other policy-constructing call is reported above", len(p.Mod), news))

	// B3: RegoUnit.Code is only written by generator.Generate (composite literal) - census of stores to the field
	if gen := p.Pkg("internal/generator"); gen != nil {
		writes := 0
		for _, pk := range p.modPkgsSorted() {
			for _, f := range pk.Syntax {
				ast.Inspect(f, func(n ast.Node) bool {
					switch x := n.(type) {
					case *ast.CompositeLit:
						if tv, ok := pk.TypesInfo.Types[x]; ok {
							if nt := namedOf(tv.Type); nt != nil && nt.Obj().Name() == "RegoUnit" && objPkgPath(nt.Obj()) == gen.PkgPath {
								if compositeField(x, "Code") != nil {
									writes++
									fn := enclosingFuncName(pk, x.Pos())
									r.Check(pk == gen && fn == "Generate", "C08.B3", relOf(pk)+"."+fn+"#RegoUnit.Code", p.Pos(x.Pos()), "RegoUnit.Code is assembled by generator.Generate", "RegoUnit.Code is built outside generator.Generate: text compiled by the guarded path may bypass the generator")
								}
							}
						}
					case *ast.AssignStmt:
						for _, lhs := range x.Lhs {
							if sel, ok := lhs.(*ast.SelectorExpr); ok {
								if s := pk.TypesInfo.Selections[sel]; s != nil && s.Obj().Name() == "Code" {
									if nt := namedOf(s.Recv()); nt != nil && nt.Obj().Name() == "RegoUnit" && objPkgPath(nt.Obj()) == gen.PkgPath {
										writes++
										r.Bad("C08.B3", relOf(pk)+"."+enclosingFuncName(pk, x.Pos())+"#RegoUnit.Code=", p.Pos(x.Pos()), "RegoUnit.Code is overwritten after generation")
									}
								}
							}
						}
					}
					return true
				})
			}
		}
		r.Analysed["regounit_code_writes"] = writes
	}

	// B4: the deny-list global is only loaded to be passed to rego.UnsafeBuiltins
	seenG := map[*types.Var]bool{}
	for _, gv := range guardGlobals {
		if seenG[gv] {
			continue
		}
		seenG[gv] = true
		var g *ssa.Global
		if sp := p.SSA.Package(gv.Pkg()); sp != nil {
			g, _ = sp.Members[gv.Name()].(*ssa.Global)
		}
		if g == nil {
			r.Unknown("C08.B4", gv.Name(), "", "SSA global not found")
			continue
		}
		bad := []string{}
		uses := 0
		for _, fn := range p.ModuleFuncs() {
			for _, b := range fn.Blocks {
				for _, ins := range b.Instrs {
					for _, op := range ins.Operands(nil) {
						if *op != ssa.Value(g) {
							continue
						}
						uses++
						switch x := ins.(type) {
						case *ssa.Store:
							if x.Addr == ssa.Value(g) && fn.Name() == "init" && fn.Synthetic != "" {
								continue
							}
							if x.Addr == ssa.Value(g) && fn.Name() == "init" {
								continue
							}
							bad = append(bad, fmt.Sprintf("%s: store to the deny-list variable at %s", FuncKey(fn), p.Pos(ins.Pos())))
						case *ssa.UnOp:
							if x.Op != token.MUL {
								bad = append(bad, fmt.Sprintf("%s: unexpected use at %s", FuncKey(fn), p.Pos(ins.Pos())))
								continue
							}
							for _, ref := range *x.Referrers() {
								call, ok := ref.(ssa.CallInstruction)
								if ok {
									if o := ssaCalleeObj(call); o != nil && isFunc(o, regoPkg, "UnsafeBuiltins") {
										continue
									}
								}
								if _, isDbg := ref.(*ssa.DebugRef); isDbg {
									continue
								}
								// reading an entry, ranging over the map or taking its length changes nothing
								switch rr := ref.(type) {
								case *ssa.Lookup:
									if rr.X == ssa.Value(x) {
										continue
									}
								case *ssa.Range:
									continue
								}
								if call, ok := ref.(ssa.CallInstruction); ok {
									if bi, ok := call.Common().Value.(*ssa.Builtin); ok && bi.Name() == "len" {
										continue
									}
								}
								bad = append(bad, fmt.Sprintf("%s: the deny-list map is %s at %s", FuncKey(fn), describeInstr(ref), p.Pos(ref.Pos())))
							}
						default:
							bad = append(bad, fmt.Sprintf("%s: address of the deny-list variable escapes at %s", FuncKey(fn), p.Pos(ins.Pos())))
						}
					}
				}
			}
		}
		sort.Strings(bad)
		r.Check(len(bad) == 0, "C08.B4", relOfTypesPkg(gv.Pkg())+"."+gv.Name(), p.Pos(gv.Pos()), fmt.Sprintf("%d uses: initialised once, otherwise only read (entries, range, len) or passed to rego.UnsafeBuiltins", uses), strings.Join(bad, "; "))
	}
	if len(guardGlobals) == 0 {
		r.OK("C08.B4", "no-global", "", "the deny-list is not a package-level variable; local literals are checked for mutation where they are resolved")
	}
}

func relOfTypesPkg(pk *types.Package) string {
	return strings.TrimPrefix(strings.TrimPrefix(pk.Path(), ModulePath), "/")
}

func describeInstr(ins ssa.Instruction) string {
	switch x := ins.(type) {
	case *ssa.MapUpdate:
		return "updated (map[k] = v)"
	case ssa.CallInstruction:
		if b, ok := x.Common().Value.(*ssa.Builtin); ok {
			return "passed to builtin " + b.Name()
		}
		if f := x.Common().StaticCallee(); f != nil {
			return "passed to " + f.String()
		}
		return "passed to a call"
	case *ssa.Store:
		return "stored (aliased)"
	case *ssa.Lookup:
		return "read by lookup outside rego.UnsafeBuiltins"
	case *ssa.Range:
		return "ranged over"
	}
	return fmt.Sprintf("used by %T", ins)
}
