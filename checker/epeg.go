package main

import (
	"fmt"
	"go/ast"
	"go/token"
	"go/types"
	"sort"
	"strconv"
	"strings"

	"golang.org/x/tools/go/packages"
)

// E-peg: a model of the PEG grammar table that the generated parser interprets (the composite literal `g` in peg.go).

type pegExpr struct {
	Kind     string // seq choice star plus opt lit class ref action label not and any
	Kids     []*pegExpr
	Val      string // lit: the literal; ref: rule name; label: label; action: run function name; class: source text
	Chars    []rune // class
	Ranges   []rune // class (pairs)
	Inverted bool
	Pos      token.Pos
}

type pegRule struct {
	Name string
	Expr *pegExpr
	Pos  token.Pos
}

type pegGrammar struct {
	Rules  []*pegRule
	byName map[string]*pegRule
	pk     *packages.Package
}

func (g *pegGrammar) Rule(name string) *pegRule { return g.byName[name] }

// loadPegGrammar finds, in the given package, the package-level variable initialised with &grammar{rules: ...}.
func loadPegGrammar(p *Prog, rel string) (*pegGrammar, error) {
	pk := p.Pkg(rel)
	if pk == nil {
		return nil, fmt.Errorf("package %s not found", rel)
	}
	var lit *ast.CompositeLit
	for _, f := range pk.Syntax {
		for _, d := range f.Decls {
			gd, ok := d.(*ast.GenDecl)
			if !ok || gd.Tok != token.VAR {
				continue
			}
			for _, s := range gd.Specs {
				vs := s.(*ast.ValueSpec)
				for _, v := range vs.Values {
					e := v
					if u, ok := e.(*ast.UnaryExpr); ok && u.Op == token.AND {
						e = u.X
					}
					cl, ok := e.(*ast.CompositeLit)
					if !ok {
						continue
					}
					if tv, ok := pk.TypesInfo.Types[cl]; ok {
						if nt := namedOf(tv.Type); nt != nil && nt.Obj().Name() == "grammar" {
							lit = cl
						}
					}
				}
			}
		}
	}
	if lit == nil {
		return nil, fmt.Errorf("no &grammar{...} literal found in %s", rel)
	}
	g := &pegGrammar{byName: map[string]*pegRule{}, pk: pk}
	rulesLit, _ := compositeField(lit, "rules").(*ast.CompositeLit)
	if rulesLit == nil {
		return nil, fmt.Errorf("grammar literal has no rules field")
	}
	for _, el := range rulesLit.Elts {
		rl, ok := el.(*ast.CompositeLit)
		if !ok {
			continue
		}
		name, _ := constString(pk.TypesInfo, compositeField(rl, "name"))
		ex, err := parsePegExpr(pk, compositeField(rl, "expr"))
		if err != nil {
			return nil, fmt.Errorf("rule %s: %v", name, err)
		}
		r := &pegRule{Name: name, Expr: ex, Pos: rl.Pos()}
		g.Rules = append(g.Rules, r)
		g.byName[name] = r
	}
	if len(g.Rules) == 0 {
		return nil, fmt.Errorf("grammar has no rules")
	}
	return g, nil
}

func runeList(pk *packages.Package, e ast.Expr) []rune {
	cl, ok := e.(*ast.CompositeLit)
	if !ok {
		return nil
	}
	var out []rune
	for _, el := range cl.Elts {
		if tv, ok := pk.TypesInfo.Types[el]; ok && tv.Value != nil {
			if v, ok := constInt(pk.TypesInfo, el); ok {
				out = append(out, rune(v))
			}
		}
	}
	return out
}

func parsePegExpr(pk *packages.Package, e ast.Expr) (*pegExpr, error) {
	if e == nil {
		return nil, fmt.Errorf("missing expression")
	}
	if u, ok := e.(*ast.UnaryExpr); ok && u.Op == token.AND {
		e = u.X
	}
	cl, ok := e.(*ast.CompositeLit)
	if !ok {
		return nil, fmt.Errorf("unexpected node %T", e)
	}
	tv := pk.TypesInfo.Types[cl]
	nt := namedOf(tv.Type)
	if nt == nil {
		return nil, fmt.Errorf("untyped grammar node")
	}
	kids := func(field string) ([]*pegExpr, error) {
		lst, _ := compositeField(cl, field).(*ast.CompositeLit)
		if lst == nil {
			return nil, fmt.Errorf("%s has no %s", nt.Obj().Name(), field)
		}
		var out []*pegExpr
		for _, el := range lst.Elts {
			k, err := parsePegExpr(pk, el)
			if err != nil {
				return nil, err
			}
			out = append(out, k)
		}
		return out, nil
	}
	one := func() ([]*pegExpr, error) {
		k, err := parsePegExpr(pk, compositeField(cl, "expr"))
		if err != nil {
			return nil, err
		}
		return []*pegExpr{k}, nil
	}
	x := &pegExpr{Pos: cl.Pos()}
	var err error
	switch nt.Obj().Name() {
	case "seqExpr":
		x.Kind = "seq"
		x.Kids, err = kids("exprs")
	case "choiceExpr":
		x.Kind = "choice"
		x.Kids, err = kids("alternatives")
	case "zeroOrMoreExpr":
		x.Kind = "star"
		x.Kids, err = one()
	case "oneOrMoreExpr":
		x.Kind = "plus"
		x.Kids, err = one()
	case "zeroOrOneExpr":
		x.Kind = "opt"
		x.Kids, err = one()
	case "notExpr":
		x.Kind = "not"
		x.Kids, err = one()
	case "andExpr":
		x.Kind = "and"
		x.Kids, err = one()
	case "labeledExpr":
		x.Kind = "label"
		x.Val, _ = constString(pk.TypesInfo, compositeField(cl, "label"))
		x.Kids, err = one()
	case "actionExpr":
		x.Kind = "action"
		if run := compositeField(cl, "run"); run != nil {
			if sel, ok := ast.Unparen(run).(*ast.SelectorExpr); ok {
				x.Val = sel.Sel.Name
			}
		}
		x.Kids, err = one()
	case "ruleRefExpr":
		x.Kind = "ref"
		x.Val, _ = constString(pk.TypesInfo, compositeField(cl, "name"))
	case "litMatcher":
		x.Kind = "lit"
		x.Val, _ = constString(pk.TypesInfo, compositeField(cl, "val"))
	case "charClassMatcher":
		x.Kind = "class"
		x.Val, _ = constString(pk.TypesInfo, compositeField(cl, "val"))
		x.Chars = runeList(pk, compositeField(cl, "chars"))
		x.Ranges = runeList(pk, compositeField(cl, "ranges"))
		if inv := compositeField(cl, "inverted"); inv != nil {
			if id, ok := inv.(*ast.Ident); ok && id.Name == "true" {
				x.Inverted = true
			}
		}
		if compositeField(cl, "classes") != nil {
			x.Inverted = true // unicode classes: treat as unbounded
		}
	case "anyMatcher":
		x.Kind = "any"
	case "andCodeExpr", "notCodeExpr", "stateCodeExpr", "throwExpr", "recoveryExpr":
		x.Kind = "code"
	default:
		return nil, fmt.Errorf("unknown grammar node type %s", nt.Obj().Name())
	}
	return x, err
}

// walk visits e and its descendants.
func (e *pegExpr) walk(f func(*pegExpr)) {
	f(e)
	for _, k := range e.Kids {
		k.walk(f)
	}
}

// strip removes action / label wrappers.
func (e *pegExpr) strip() *pegExpr {
	for e != nil && (e.Kind == "action" || e.Kind == "label") && len(e.Kids) == 1 {
		e = e.Kids[0]
	}
	return e
}

// nullable computes which rules/expressions can succeed without consuming input.
func (g *pegGrammar) nullableRules() map[string]bool {
	null := map[string]bool{}
	changed := true
	for changed {
		changed = false
		for _, r := range g.Rules {
			if !null[r.Name] && g.nullable(r.Expr, null) {
				null[r.Name] = true
				changed = true
			}
		}
	}
	return null
}

func (g *pegGrammar) nullable(e *pegExpr, null map[string]bool) bool {
	switch e.Kind {
	case "seq":
		for _, k := range e.Kids {
			if !g.nullable(k, null) {
				return false
			}
		}
		return true
	case "choice":
		for _, k := range e.Kids {
			if g.nullable(k, null) {
				return true
			}
		}
		return false
	case "star", "opt", "not", "and", "code":
		return true
	case "plus", "action", "label":
		return g.nullable(e.Kids[0], null)
	case "lit":
		return e.Val == ""
	case "class", "any":
		return false
	case "ref":
		return null[e.Val]
	}
	return false
}

// leftCalls: rules that e can invoke before consuming any input.
func (g *pegGrammar) leftCalls(e *pegExpr, null map[string]bool, out map[string]bool) {
	switch e.Kind {
	case "seq":
		for _, k := range e.Kids {
			g.leftCalls(k, null, out)
			if !g.nullable(k, null) {
				return
			}
		}
	case "choice":
		for _, k := range e.Kids {
			g.leftCalls(k, null, out)
		}
	case "star", "opt", "plus", "action", "label", "not", "and":
		g.leftCalls(e.Kids[0], null, out)
	case "ref":
		out[e.Val] = true
	}
}

// terminals lists every literal and character class of the grammar.
func (g *pegGrammar) terminals() (lits []string, classes []*pegExpr) {
	seen := map[string]bool{}
	for _, r := range g.Rules {
		r.Expr.walk(func(e *pegExpr) {
			switch e.Kind {
			case "lit":
				if !seen[e.Val] {
					seen[e.Val] = true
					lits = append(lits, e.Val)
				}
			case "class":
				classes = append(classes, e)
			}
		})
	}
	sort.Strings(lits)
	return
}

// classRunes enumerates the runes of a (non-inverted) class; ok=false when it is unbounded.
func classRunes(e *pegExpr) ([]rune, bool) {
	if e.Inverted {
		return nil, false
	}
	var out []rune
	out = append(out, e.Chars...)
	for i := 0; i+1 < len(e.Ranges); i += 2 {
		lo, hi := e.Ranges[i], e.Ranges[i+1]
		if hi-lo > 300 {
			return nil, false
		}
		for c := lo; c <= hi; c++ {
			out = append(out, c)
		}
	}
	return out, true
}

func quoteRunes(rs []rune) string {
	var parts []string
	for _, r := range rs {
		parts = append(parts, strconv.QuoteRune(r))
	}
	return strings.Join(parts, " ")
}

// actionDecl finds the `on<Rule>N` method that a callon<Rule>N trampoline invokes.
func (g *pegGrammar) actionDecl(callon string) *ast.FuncDecl {
	target := strings.Replace(callon, "callon", "on", 1)
	for _, f := range g.pk.Syntax {
		for _, d := range f.Decls {
			if fd, ok := d.(*ast.FuncDecl); ok && fd.Name.Name == target && fd.Recv != nil {
				return fd
			}
		}
	}
	return nil
}

// constructedTypes lists the named struct types an action builds with composite literals (IRI, AND, OR).
func (g *pegGrammar) constructedTypes(fd *ast.FuncDecl) []string {
	var out []string
	if fd == nil {
		return nil
	}
	ast.Inspect(fd.Body, func(n ast.Node) bool {
		if cl, ok := n.(*ast.CompositeLit); ok {
			if tv, ok := g.pk.TypesInfo.Types[cl]; ok {
				if nt, ok := tv.Type.(*types.Named); ok {
					if _, isStruct := nt.Underlying().(*types.Struct); isStruct {
						out = append(out, nt.Obj().Name())
					}
				}
			}
		}
		return true
	})
	return out
}
