package main

import (
	"fmt"
	"go/constant"
	"go/token"
	"go/types"
	"regexp/syntax"
	"sort"
	"strings"

	"golang.org/x/tools/go/ssa"
)

// E-prov / taint: which strings that reach the generated Rego text come from the profile's YAML scalars, under which
// field they travelled, and which neutralising steps every path applied to them.
//
// Sources: results of the YAML wrapper's scalar accessors ((*Yaml).String and the key list GetMapKeys).
// Propagation: SSA def-use, struct fields (field-based: a tainted store into field f of struct type T taints every
// read of T.f), slices and maps (container-based), calls into module functions (parameters) and their results.
// Sanitisers (labels): "json-literal" (a complete Rego/JSON string literal, quotes included), "json-content" (text safe
// between double quotes), "ident" ([^a-zA-Z0-9]+ -> _), "dq2sq" (double quotes replaced), "iri" (result of the IRI
// expander, whose regular expression admits letters, digits and - . / \ ( ) only), "nows" (whitespace runs collapsed to
// single spaces: no newline), "percent" (% doubled).

type taintVal struct {
	tainted bool
	sources map[string]bool // struct fields / accessors the text travelled through ("Profile.Name", "Message.Expression", ...)
	san     map[string]bool // sanitisers applied on every path
}

func (t *taintVal) clone() *taintVal {
	n := &taintVal{tainted: t.tainted, sources: map[string]bool{}, san: map[string]bool{}}
	for k := range t.sources {
		n.sources[k] = true
	}
	for k := range t.san {
		n.san[k] = true
	}
	return n
}

func (t *taintVal) srcList() string { return strings.Join(sortedKeys(t.sources), ",") }
func (t *taintVal) sanList() string { return strings.Join(sortedKeys(t.san), ",") }

// fieldKey: a struct field as seen from the outermost named struct the access is rooted in: reading r.Name where r is a
// CountRule and where r is a TopLevelExpression are different keys although both end in BaseStatement.Name.
type fieldKey struct {
	root  string
	typ   string
	field string
}

type taintEngine struct {
	p       *Prog
	vals    map[ssa.Value]*taintVal
	fields  map[fieldKey]*taintVal
	funcRet map[*ssa.Function]*taintVal
	embed   map[string]map[string]bool // struct type S -> struct types R into whose fields whole S values are stored
	changed bool
	sanFn   map[*ssa.Function]string // module functions recognised as sanitisers
	funcs   []*ssa.Function
}

func newTaintEngine(p *Prog) *taintEngine {
	te := &taintEngine{p: p, vals: map[ssa.Value]*taintVal{}, fields: map[fieldKey]*taintVal{}, funcRet: map[*ssa.Function]*taintVal{}, sanFn: map[*ssa.Function]string{}, embed: map[string]map[string]bool{}}
	for _, fn := range p.ModuleFuncs() {
		rel := RelPkg(fn)
		if strings.HasPrefix(rel, "internal/parser") || rel == "internal/generator" || rel == "internal/misc" || rel == "internal/validator" || rel == "internal/types" {
			if isGeneratedParserFunc(p, fn) || strings.HasSuffix(p.Fset.Position(fn.Pos()).Filename, "test_utils.go") {
				continue
			}
			te.funcs = append(te.funcs, fn)
		}
	}
	te.recogniseSanitisers()
	return te
}

// join merges b into the taint of key; sanitisers are intersected over tainted contributions.
func joinTaint(a, b *taintVal) (*taintVal, bool) {
	if b == nil || !b.tainted {
		return a, false
	}
	if a == nil || !a.tainted {
		return b.clone(), true
	}
	changed := false
	for s := range b.sources {
		if !a.sources[s] {
			a.sources[s] = true
			changed = true
		}
	}
	for s := range a.san {
		if !b.san[s] {
			delete(a.san, s)
			changed = true
		}
	}
	return a, changed
}

func (te *taintEngine) setVal(v ssa.Value, t *taintVal) {
	n, ch := joinTaint(te.vals[v], t)
	if ch {
		te.vals[v] = n
		te.changed = true
	}
}

func (te *taintEngine) get(v ssa.Value) *taintVal {
	if t, ok := te.vals[v]; ok {
		return t
	}
	return nil
}

func typeName(t types.Type) string {
	if pt, ok := t.Underlying().(*types.Pointer); ok {
		t = pt.Elem()
	}
	if pt, ok := t.(*types.Pointer); ok {
		t = pt.Elem()
	}
	if nt, ok := t.(*types.Named); ok {
		return nt.Obj().Name()
	}
	return "<anon>"
}

// rootOf follows a chain of field accesses to the value it starts from and returns that value's struct type name.
func rootOf(v ssa.Value) string {
	for {
		switch x := v.(type) {
		case *ssa.FieldAddr:
			v = x.X
			continue
		case *ssa.Field:
			v = x.X
			continue
		}
		break
	}
	return typeName(v.Type())
}

func structFieldKey(base ssa.Value, idx int) (fieldKey, bool) {
	t := base.Type()
	if pt, ok := t.Underlying().(*types.Pointer); ok {
		t = pt.Elem()
	}
	st, ok := t.Underlying().(*types.Struct)
	if !ok || idx >= st.NumFields() {
		return fieldKey{}, false
	}
	fieldTextual[typeName(t)+"."+st.Field(idx).Name()] = isTextType(st.Field(idx).Type())
	return fieldKey{rootOf(base), typeName(t), st.Field(idx).Name()}, true
}

// fieldTextual records, per "Type.field" source label, whether the field itself holds text (string, []string, map of
// strings) as opposed to being a container the text travelled through (a slice of rules, a yaml node, a line number).
var fieldTextual = map[string]bool{}

func isTextType(t types.Type) bool {
	switch u := t.Underlying().(type) {
	case *types.Basic:
		return u.Info()&types.IsString != 0
	case *types.Slice:
		return isTextType(u.Elem())
	case *types.Array:
		return isTextType(u.Elem())
	case *types.Map:
		return isTextType(u.Elem()) || isTextType(u.Key())
	case *types.Pointer:
		if _, isStruct := u.Elem().Underlying().(*types.Struct); isStruct {
			return false
		}
		return isTextType(u.Elem())
	}
	return false
}

// visible: the taint a read of key can observe: stores rooted at the same type, or at a type whose values are embedded
// (stored whole) into the read's root type, transitively.
func (te *taintEngine) visible(k fieldKey) *taintVal {
	var acc *taintVal
	seen := map[string]bool{}
	var roots []string
	var collect func(r string)
	collect = func(r string) {
		if seen[r] {
			return
		}
		seen[r] = true
		roots = append(roots, r)
		for s, into := range te.embed {
			if into[r] {
				collect(s)
			}
		}
	}
	collect(k.root)
	collect(k.typ)
	for _, r := range roots {
		if t := te.fields[fieldKey{r, k.typ, k.field}]; t != nil {
			acc, _ = joinTaint(acc, t)
		}
	}
	return acc
}

func isYamlScalarSource(o types.Object) (string, bool) {
	n := funcFullName(o)
	switch {
	case strings.HasSuffix(n, "/internal/parser/yaml.Yaml).String"):
		return "yaml-scalar", true
	case strings.HasSuffix(n, "/internal/parser/yaml.Yaml).GetMapKeys"):
		return "yaml-key", true
	}
	return "", false
}

// recogniseSanitisers classifies module functions with one string parameter and one string result.
func (te *taintEngine) recogniseSanitisers() {
	// pass 1: json-literal: encodes its parameter with encoding/json and returns the encoder's text
	for _, fn := range te.funcs {
		if !stringToString(fn) {
			continue
		}
		encodes := false
		quote := false
		for _, b := range fn.Blocks {
			for _, ins := range b.Instrs {
				ci, ok := ins.(ssa.CallInstruction)
				if !ok {
					continue
				}
				n := funcFullName(ssaCalleeObj(ci))
				if n == "(*encoding/json.Encoder).Encode" || n == "encoding/json.Marshal" {
					for _, a := range ci.Common().Args {
						if stripIface(a) == ssa.Value(fn.Params[0]) {
							encodes = true
						}
					}
				}
				if n == "strconv.Quote" || n == "strconv.QuoteToASCII" {
					quote = true
				}
			}
		}
		if encodes && !quote {
			te.sanFn[fn] = "json-literal"
		}
	}
	// pass 2: json-content: s := literal(param); return s[1:len(s)-1]
	for _, fn := range te.funcs {
		if !stringToString(fn) || te.sanFn[fn] != "" {
			continue
		}
		for _, b := range fn.Blocks {
			for _, ins := range b.Instrs {
				ret, ok := ins.(*ssa.Return)
				if !ok || len(ret.Results) != 1 {
					continue
				}
				sl, ok := ret.Results[0].(*ssa.Slice)
				if !ok {
					continue
				}
				call, ok := sl.X.(*ssa.Call)
				if !ok {
					continue
				}
				callee := call.Call.StaticCallee()
				if callee == nil || te.sanFn[callee] != "json-literal" {
					continue
				}
				lo, ok1 := sl.Low.(*ssa.Const)
				if ok1 && lo.Value != nil && lo.Int64() == 1 && sl.High != nil {
					if bo, ok := sl.High.(*ssa.BinOp); ok && bo.Op == token.SUB {
						if c, ok := bo.Y.(*ssa.Const); ok && c.Value != nil && c.Int64() == 1 {
							te.sanFn[fn] = "json-content"
						}
					}
				}
			}
		}
	}
}

func stringToString(fn *ssa.Function) bool {
	sig := fn.Signature
	return sig.Recv() == nil && sig.Params().Len() == 1 && sig.Results().Len() == 1 && isStringType(sig.Params().At(0).Type()) && isStringType(sig.Results().At(0).Type())
}

// identPattern: the regular expression is a negated class of identifier characters (one or more), i.e. replacing its
// matches leaves only [A-Za-z0-9_].
func identPattern(pat string) bool {
	re, err := syntax.Parse(pat, syntax.Perl)
	if err != nil {
		return false
	}
	re = re.Simplify()
	for re.Op == syntax.OpPlus || re.Op == syntax.OpStar || re.Op == syntax.OpCapture {
		re = re.Sub[0]
	}
	if re.Op != syntax.OpCharClass {
		return false
	}
	// the class must contain every rune except (a subset of) [A-Za-z0-9_]
	allowed := func(r rune) bool {
		return r >= 'a' && r <= 'z' || r >= 'A' && r <= 'Z' || r >= '0' && r <= '9' || r == '_'
	}
	in := func(r rune) bool {
		for i := 0; i+1 < len(re.Rune); i += 2 {
			if r >= re.Rune[i] && r <= re.Rune[i+1] {
				return true
			}
		}
		return false
	}
	for r := rune(0); r < 0x250; r++ {
		if !allowed(r) && !in(r) {
			return false // some non-identifier character survives the replacement
		}
	}
	return in(0x4e2d) && in(0x1F600) // and so do non-Latin letters and astral symbols
}

// constStringOf: the value is a string constant.
func constStringOf(v ssa.Value) (string, bool) {
	c, ok := v.(*ssa.Const)
	if !ok || c.Value == nil || c.Value.Kind() != constant.String {
		return "", false
	}
	return constant.StringVal(c.Value), true
}

// variadicOperands returns the element values of a variadic `...any` argument built at the call site.
func variadicOperands(arg ssa.Value) []ssa.Value {
	sl, ok := arg.(*ssa.Slice)
	if !ok {
		return nil
	}
	alloc, ok := sl.X.(*ssa.Alloc)
	if !ok {
		return nil
	}
	n := 0
	if pt, ok := alloc.Type().Underlying().(*types.Pointer); ok {
		if at, ok := pt.Elem().Underlying().(*types.Array); ok {
			n = int(at.Len())
		}
	}
	out := make([]ssa.Value, n)
	for _, ref := range nonDebugRefs(alloc) {
		ia, ok := ref.(*ssa.IndexAddr)
		if !ok {
			continue
		}
		idx, ok := ia.Index.(*ssa.Const)
		if !ok || idx.Value == nil {
			continue
		}
		for _, r2 := range nonDebugRefs(ia) {
			if st, ok := r2.(*ssa.Store); ok && int(idx.Int64()) < n {
				out[idx.Int64()] = stripIface(st.Val)
			}
		}
	}
	return out
}

// Run computes the fixpoint.
func (te *taintEngine) Run() {
	for iter := 0; iter < 60; iter++ {
		te.changed = false
		for _, fn := range te.funcs {
			te.transferFunc(fn)
		}
		if !te.changed {
			break
		}
	}
}

func mk(src string, san ...string) *taintVal {
	t := &taintVal{tainted: true, sources: map[string]bool{}, san: map[string]bool{}}
	if src != "" {
		t.sources[src] = true
	}
	for _, s := range san {
		t.san[s] = true
	}
	return t
}

func (te *taintEngine) withSan(t *taintVal, s string) *taintVal {
	if t == nil || !t.tainted {
		return nil
	}
	n := t.clone()
	n.san[s] = true
	if s == "json-literal" || s == "ident" {
		n.san["fragment"] = true // a complete literal / identifier is a well-formed piece of Rego code
	}
	return n
}

// fragment: the value is Rego text assembled by a template; the operands inside it were judged at the template's own
// sinks, so as a whole it may be pasted into code position (but not between quotes).
func (te *taintEngine) fragment(t *taintVal) *taintVal {
	if t == nil || !t.tainted {
		return nil
	}
	n := t.clone()
	n.san = map[string]bool{"fragment": true}
	return n
}

func (te *taintEngine) dropSan(t *taintVal) *taintVal {
	if t == nil || !t.tainted {
		return nil
	}
	n := t.clone()
	n.san = map[string]bool{}
	return n
}

func (te *taintEngine) transferFunc(fn *ssa.Function) {
	for _, b := range fn.Blocks {
		for _, ins := range b.Instrs {
			switch x := ins.(type) {
			case *ssa.Phi:
				for _, e := range x.Edges {
					te.setVal(x, te.get(e))
				}
			case *ssa.Extract:
				te.setVal(x, te.get(x.Tuple))
			case *ssa.MakeInterface:
				te.setVal(x, te.get(x.X))
			case *ssa.ChangeType:
				te.setVal(x, te.get(x.X))
			case *ssa.ChangeInterface:
				te.setVal(x, te.get(x.X))
			case *ssa.Convert:
				te.setVal(x, te.get(x.X))
			case *ssa.TypeAssert:
				te.setVal(x, te.get(x.X))
			case *ssa.Slice:
				te.setVal(x, te.get(x.X))
			case *ssa.BinOp:
				if x.Op == token.ADD && isStringType(x.Type()) {
					// concatenation: the result is assembled text (each side is judged at the concatenation sink)
					te.setVal(x, te.fragment(te.get(x.X)))
					te.setVal(x, te.fragment(te.get(x.Y)))
				}
			case *ssa.UnOp:
				if x.Op == token.MUL {
					switch a := x.X.(type) {
					case *ssa.FieldAddr:
						if fk, ok := structFieldKey(a.X, a.Field); ok {
							// the text of a YAML scalar, however it is accessed: every read of yaml.Node.Value is a source
							if fk.field == "Value" && fk.typ == "Node" {
								if nt := namedOf(a.X.Type()); nt != nil && objPkgPath(nt.Obj()) == yamlPath {
									te.setVal(x, mk("yaml-scalar"))
								}
							}
							te.setVal(x, te.tagField(te.visible(fk), fk))
							if wholeStructTaint(a.X.Type()) {
								te.setVal(x, te.tagField(te.get(a.X), fk)) // the struct value as a whole is tainted (parser results)
							}
						}
					case *ssa.IndexAddr:
						te.setVal(x, te.get(a.X))
					case *ssa.Alloc:
						te.setVal(x, te.get(a))
					default:
						te.setVal(x, te.get(x.X))
					}
				}
			case *ssa.Field:
				if fk, ok := structFieldKey(x.X, x.Field); ok {
					te.setVal(x, te.tagField(te.visible(fk), fk))
					if wholeStructTaint(x.X.Type()) {
						te.setVal(x, te.tagField(te.get(x.X), fk))
					}
				}
				// a struct value copied out of a tainted container
			case *ssa.Index:
				te.setVal(x, te.get(x.X))
			case *ssa.Lookup:
				te.setVal(x, te.get(x.X))
			case *ssa.Range:
				te.setVal(x, te.get(x.X))
			case *ssa.Next:
				te.setVal(x, te.get(x.Iter))
			case *ssa.Store:
				// a whole struct value stored into a field of another struct: record the embedding
				if fa, ok := x.Addr.(*ssa.FieldAddr); ok {
					if _, isStruct := x.Val.Type().Underlying().(*types.Struct); isStruct {
						s, r := typeName(x.Val.Type()), rootOf(fa)
						if s != r && s != "<anon>" {
							if te.embed[s] == nil {
								te.embed[s] = map[string]bool{}
							}
							if !te.embed[s][r] {
								te.embed[s][r] = true
								te.changed = true
							}
						}
					}
				}
				t := te.get(x.Val)
				if t == nil {
					continue
				}
				if guardedEqualToConst(x.Val, x.Block()) {
					continue // stored on the branch where the value was just compared equal to a constant
				}
				switch a := x.Addr.(type) {
				case *ssa.FieldAddr:
					if fk, ok := structFieldKey(a.X, a.Field); ok {
						n, ch := joinTaint(te.fields[fk], t)
						if ch {
							te.fields[fk] = n
							te.changed = true
						}
					}
				case *ssa.IndexAddr:
					te.setVal(a.X, t) // the container (array/slice) holds tainted text
					if al, ok := a.X.(*ssa.Alloc); ok {
						te.setVal(al, t)
					}
				case *ssa.Alloc:
					te.setVal(a, t)
				default:
					te.setVal(x.Addr, t)
				}
			case *ssa.MapUpdate:
				te.setVal(x.Map, te.get(x.Value))
				te.setVal(x.Map, te.get(x.Key))
			case *ssa.Return:
				for _, rv := range x.Results {
					if !isStringish(rv.Type()) {
						continue
					}
					n, ch := joinTaint(te.funcRet[fn], te.get(rv))
					if ch {
						te.funcRet[fn] = n
						te.changed = true
					}
				}
			case *ssa.Call:
				te.transferCall(fn, x)
			}
		}
	}
}

func isStringish(t types.Type) bool {
	switch u := t.Underlying().(type) {
	case *types.Basic:
		return u.Kind() == types.String
	case *types.Slice:
		return isStringish(u.Elem())
	case *types.Pointer:
		return isStringish(u.Elem())
	case *types.Struct, *types.Interface:
		return true
	case *types.Tuple:
		return true
	}
	return false
}

func (te *taintEngine) tagField(t *taintVal, fk fieldKey) *taintVal {
	if t == nil || !t.tainted {
		return nil
	}
	n := t.clone()
	n.sources[fk.typ+"."+fk.field] = true
	// embedded Rego supplied by the profile author is code by design
	if (fk.typ == "RegoRule" && fk.field == "Argument") || (fk.typ == "Profile" && fk.field == "CustomRego") {
		n.san["fragment"] = true
	}
	return n
}

func (te *taintEngine) transferCall(fn *ssa.Function, call *ssa.Call) {
	cc := &call.Call
	obj := ssaCalleeObj(call)
	name := funcFullName(obj)
	if src, ok := isYamlScalarSource(obj); ok {
		te.setVal(call, mk(src))
		return
	}
	if bi, ok := cc.Value.(*ssa.Builtin); ok {
		switch bi.Name() {
		case "append":
			for _, a := range cc.Args {
				te.setVal(call, te.get(a))
			}
		case "copy":
			if len(cc.Args) == 2 {
				te.setVal(cc.Args[0], te.get(cc.Args[1]))
			}
		}
		return
	}
	callee := cc.StaticCallee()
	if callee != nil && isGeneratedParserFunc(te.p, callee) {
		// the generated path parser: whatever it returns is made of the text it was given
		for _, a := range cc.Args {
			te.setVal(call, te.dropSan(te.get(a)))
		}
		return
	}
	if callee != nil && IsModuleFunc(callee) && callee.Blocks != nil {
		if kind := te.sanFn[callee]; kind != "" && len(cc.Args) == 1 {
			te.setVal(call, te.withSan(te.get(cc.Args[0]), kind))
			return
		}
		// the IRI expander
		if strings.HasSuffix(name, "/internal/misc.IriExpander).Expand") {
			if len(cc.Args) == 2 {
				te.setVal(call, te.withSan(te.get(cc.Args[1]), "iri"))
			}
			return
		}
		for i, a := range cc.Args {
			if i < len(callee.Params) {
				if guardedEqualToConst(a, call.Block()) {
					continue // passed on the branch where the value was just compared equal to a constant
				}
				te.setVal(callee.Params[i], te.get(a))
			}
		}
		if mc, ok := cc.Value.(*ssa.MakeClosure); ok {
			for i, bnd := range mc.Bindings {
				if i < len(callee.FreeVars) {
					te.setVal(callee.FreeVars[i], te.get(bnd))
				}
			}
		}
		te.setVal(call, te.funcRet[callee])
		return
	}
	if cc.IsInvoke() {
		// interface method of a module type (Rule.String, PropertyPath.Source/Expanded/Trace): join over implementations
		recvT := te.get(cc.Value)
		mname := cc.Method.Name()
		for _, f := range te.funcs {
			if f.Signature.Recv() != nil && f.Name() == mname && types.Identical(f.Signature.Results(), cc.Method.Type().(*types.Signature).Results()) {
				if len(f.Params) > 0 {
					te.setVal(f.Params[0], recvT)
				}
				for i, a := range cc.Args {
					if i+1 < len(f.Params) {
						te.setVal(f.Params[i+1], te.get(a))
					}
				}
				t := te.funcRet[f]
				if strings.HasSuffix(FuncKey(f), ".Expanded") || strings.HasSuffix(FuncKey(f), ".Trace") {
					// expanded paths are built from expander results
					t = te.withSan(t, "iri")
				}
				te.setVal(call, t)
			}
		}
		return
	}
	// dependencies
	arg := func(i int) *taintVal {
		if i < len(cc.Args) {
			return te.get(cc.Args[i])
		}
		return nil
	}
	switch name {
	case "fmt.Sprintf", "fmt.Sprint", "fmt.Sprintln":
		for i, a := range cc.Args {
			if i == 0 && name == "fmt.Sprintf" {
				te.setVal(call, te.dropSan(te.get(a)))
				continue
			}
			for _, op := range variadicOperands(a) {
				if op != nil {
					te.setVal(call, te.fragment(te.get(op)))
				}
			}
		}
	case "strings.Join":
		t := arg(0)
		// strings.Join(strings.Fields(x), " ") collapses whitespace
		if sep, ok := constStringOf(cc.Args[1]); ok && sep == " " {
			if inner, ok := cc.Args[0].(*ssa.Call); ok && funcFullName(ssaCalleeObj(inner)) == "strings.Fields" {
				te.setVal(call, te.withSan(te.get(inner.Call.Args[0]), "nows"))
				return
			}
		}
		te.setVal(call, t)
	case "strings.Fields", "strings.Split", "strings.SplitN", "strings.ToLower", "strings.ToUpper", "strings.TrimSpace", "strings.TrimSuffix", "strings.TrimPrefix", "strings.Title", "strings.Trim", "strings.Repeat":
		te.setVal(call, arg(0))
	case "strings.ReplaceAll", "strings.Replace":
		t := arg(0)
		if from, ok := constStringOf(cc.Args[1]); ok {
			to, _ := constStringOf(cc.Args[2])
			switch {
			case from == "\"" && !strings.Contains(to, "\""):
				t = te.withSan(t, "dq2sq")
			case from == "%" && to == "%%":
				t = te.withSan(t, "percent")
			case from == "\n" && !strings.Contains(to, "\n"):
				t = te.withSan(t, "nonl")
			}
		}
		te.setVal(call, t)
		te.setVal(call, te.dropSan(arg(2)))
	case "(*regexp.Regexp).ReplaceAllString":
		t := arg(1)
		if pat, ok := regexpPatternOf(cc.Args[0]); ok && identPattern(pat) {
			if repl, ok := constStringOf(cc.Args[2]); ok && (repl == "_" || repl == "") {
				t = te.withSan(t, "ident")
			}
		}
		te.setVal(call, t)
	case "(*regexp.Regexp).FindAllStringSubmatch", "(*regexp.Regexp).FindStringSubmatch", "(*regexp.Regexp).FindAllString":
		te.setVal(call, arg(1))
	case "strconv.Itoa", "strconv.FormatFloat", "strconv.FormatBool", "strconv.FormatInt":
		// numbers: not text
	case "encoding/json.Marshal":
		te.setVal(call, te.withSan(arg(0), "json-literal"))
	case "strconv.Quote":
		te.setVal(call, te.withSan(arg(0), "go-quote"))
	default:
		// unknown dependency call: text handed to a method is assumed to end up inside its receiver (builders,
		// buffers), and whatever the call returns may contain the text of its arguments and of its receiver
		isMethod := false
		if f, ok := obj.(*types.Func); ok && f.Type().(*types.Signature).Recv() != nil {
			isMethod = true
		}
		for i := range cc.Args {
			t := te.dropSan(arg(i))
			if t == nil {
				continue
			}
			if isMethod && i > 0 {
				recv := cc.Args[0]
				te.setVal(recv, t)
				if u, ok := recv.(*ssa.UnOp); ok {
					te.setVal(u.X, t)
				}
			}
			if call.Type() != nil && isStringish(call.Type()) {
				te.setVal(call, t)
			}
		}
	}
}

// templateResult: text produced by formatting a tainted operand keeps the operand's taint and sanitisers (the
// template adds only constant text around it).
func (te *taintEngine) templateResult(t *taintVal) *taintVal {
	if t == nil || !t.tainted {
		return nil
	}
	return t.clone()
}

// regexpPatternOf: the *regexp.Regexp value was compiled from a constant pattern.
func regexpPatternOf(v ssa.Value) (string, bool) {
	switch x := v.(type) {
	case *ssa.Call:
		n := funcFullName(ssaCalleeObj(x))
		if n == "regexp.MustCompile" || n == "regexp.Compile" {
			return constStringOf(x.Call.Args[0])
		}
	case *ssa.Extract:
		return regexpPatternOf(x.Tuple)
	case *ssa.UnOp:
		if g, ok := x.X.(*ssa.Global); ok {
			// package-level compiled pattern: find the store in init
			for _, m := range g.Pkg.Members {
				if f, ok := m.(*ssa.Function); ok && f.Name() == "init" {
					for _, b := range f.Blocks {
						for _, ins := range b.Instrs {
							if st, ok := ins.(*ssa.Store); ok && st.Addr == ssa.Value(g) {
								return regexpPatternOf(st.Val)
							}
						}
					}
				}
			}
		}
	}
	return "", false
}

// ---- templates and lexical contexts -----------------------------------------------------------------------------

type regoCtx int

const (
	ctxCode regoCtx = iota
	ctxDQ
	ctxRaw
	ctxComment
)

func (c regoCtx) String() string {
	return [...]string{"code", "inside \"…\"", "inside `…`", "in a # comment"}[c]
}

// hole is one verb of a format string with the lexical context it sits in.
type hole struct {
	Verb    string
	Ctx     regoCtx
	ArgIdx  int
	Before  byte // character right before the verb (0 at start)
	After   byte // character right after the verb
	Escaped bool // inside a string literal that is itself inside an escaped quote (\"%s\")
}

// scanFormat lexes a format string as Rego text and returns its holes and the lexical state at its end.
func scanFormat(format string, start regoCtx) ([]hole, regoCtx) {
	var holes []hole
	ctx := start
	arg := 0
	for i := 0; i < len(format); i++ {
		ch := format[i]
		if ch == '%' && i+1 < len(format) {
			if format[i+1] == '%' {
				i++
				continue
			}
			j := i + 1
			for j < len(format) && strings.ContainsRune("+-# 0123456789.", rune(format[j])) {
				j++
			}
			if j < len(format) {
				h := hole{Verb: format[i : j+1], Ctx: ctx, ArgIdx: arg}
				if i > 0 {
					h.Before = format[i-1]
				}
				if j+1 < len(format) {
					h.After = format[j+1]
				}
				if ctx == ctxDQ && i >= 2 && format[i-1] == '"' && format[i-2] == '\\' {
					h.Escaped = true
				}
				holes = append(holes, h)
				arg++
				i = j
				continue
			}
		}
		switch ctx {
		case ctxCode:
			switch ch {
			case '"':
				ctx = ctxDQ
			case '`':
				ctx = ctxRaw
			case '#':
				ctx = ctxComment
			}
		case ctxDQ:
			if ch == '\\' {
				i++
			} else if ch == '"' {
				ctx = ctxCode
			} else if ch == '\n' {
				ctx = ctxCode
			}
		case ctxRaw:
			if ch == '`' {
				ctx = ctxCode
			}
		case ctxComment:
			if ch == '\n' {
				ctx = ctxCode
			}
		}
	}
	return holes, ctx
}

// sink is one place where a possibly tainted operand is pasted into text.
type sink struct {
	Fn      *ssa.Function
	Instr   ssa.Instruction
	Format  string
	Hole    hole
	Operand ssa.Value
	Kind    string // "sprintf" or "concat"
}

// collectSinks lists every formatting/concatenation site of the given functions.
func collectSinks(funcs []*ssa.Function) []sink {
	var out []sink
	for _, fn := range funcs {
		for _, b := range fn.Blocks {
			for _, ins := range b.Instrs {
				switch x := ins.(type) {
				case *ssa.Call:
					fv, packed, forwarding, isS := ssaSprintf(x)
					if !isS || forwarding {
						// (a printf wrapper handing its own format and operands on: its call sites are the sinks)
						continue
					}
					format, ok := constStringOf(fv)
					if !ok {
						// non-constant format: the format itself is an operand in code context
						out = append(out, sink{Fn: fn, Instr: ins, Format: "<non-constant format>", Hole: hole{Verb: "format", Ctx: ctxCode}, Operand: fv, Kind: "sprintf-format"})
						continue
					}
					var ops []ssa.Value
					if packed != nil {
						ops = variadicOperands(packed)
					}
					holes, _ := scanFormat(format, ctxCode)
					for _, h := range holes {
						if h.ArgIdx < len(ops) && ops[h.ArgIdx] != nil {
							out = append(out, sink{Fn: fn, Instr: ins, Format: format, Hole: h, Operand: ops[h.ArgIdx], Kind: "sprintf"})
						}
					}
				case *ssa.BinOp:
					if x.Op != token.ADD || !isStringType(x.Type()) {
						continue
					}
					// const + value or value + const
					if cs, ok := constStringOf(x.X); ok {
						_, ctx := scanFormat(strings.ReplaceAll(cs, "%", "%%"), ctxCode)
						out = append(out, sink{Fn: fn, Instr: ins, Format: cs + "‹operand›", Hole: hole{Verb: "+", Ctx: ctx}, Operand: x.Y, Kind: "concat"})
					} else if cs, ok := constStringOf(x.Y); ok {
						out = append(out, sink{Fn: fn, Instr: ins, Format: "‹operand›" + cs, Hole: hole{Verb: "+", Ctx: ctxCode}, Operand: x.X, Kind: "concat"})
					}
				}
			}
		}
	}
	sort.SliceStable(out, func(i, j int) bool {
		if FuncKey(out[i].Fn) != FuncKey(out[j].Fn) {
			return FuncKey(out[i].Fn) < FuncKey(out[j].Fn)
		}
		return out[i].Instr.Pos() < out[j].Instr.Pos()
	})
	return out
}

// adequate decides whether the sanitisers applied to a tainted operand neutralise everything that is special in ctx.
func adequate(t *taintVal, h hole) (bool, string) {
	if strings.ContainsAny(h.Verb, "dtfegx") && !strings.ContainsAny(h.Verb, "sv") {
		return true, "numeric/boolean verb"
	}
	switch h.Ctx {
	case ctxCode:
		if t.san["json-literal"] {
			return true, "a complete JSON string literal"
		}
		if t.san["fragment"] {
			return true, "Rego text assembled by a template whose own operands are judged at that template"
		}
		if t.san["ident"] {
			return true, "reduced to identifier characters"
		}
		if t.san["json-content"] || t.san["iri"] {
			// text that is only safe between quotes, pasted as code
			return false, "the text is pasted into code position; it is only safe between double quotes"
		}
		return false, "raw profile text is pasted into code position"
	case ctxDQ:
		if h.Escaped {
			// inside \"…\" of an already quoted string: needs escaping twice
			if t.san["json-content"] && t.san["json-literal"] {
				return true, "escaped for the nested string"
			}
		}
		if t.san["json-content"] {
			return true, "escaped for a double-quoted Rego string"
		}
		if t.san["iri"] {
			return true, "an expanded IRI (letters, digits, - . / ( ) and backslash only; assumption: no backslash in IRIs)"
		}
		if t.san["json-literal"] {
			return false, "a complete string literal (with its own quotes) is pasted between quotes"
		}
		return false, "a double quote, backslash or newline in the text ends or corrupts the Rego string"
	case ctxRaw:
		return false, "a backtick in the text ends the raw string"
	case ctxComment:
		if t.san["nows"] || t.san["nonl"] || t.san["json-content"] || t.san["json-literal"] || t.san["iri"] || t.san["ident"] {
			return true, "cannot contain a newline"
		}
		return false, "a newline in the text ends the comment and the rest is parsed as code"
	}
	return false, "unknown context"
}

func describeSink(p *Prog, s sink) string {
	f := s.Format
	if len(f) > 70 {
		f = f[:67] + "..."
	}
	return fmt.Sprintf("%q verb %s %s", f, s.Hole.Verb, s.Hole.Ctx)
}

// guardedEqualToConst: block b is only reached through the true branch of `v == <string constant>`.
func guardedEqualToConst(v ssa.Value, b *ssa.BasicBlock) bool {
	for d := b; d != nil; d = d.Idom() {
		if len(d.Preds) != 1 {
			continue
		}
		pred := d.Preds[0]
		iff, ok := pred.Instrs[len(pred.Instrs)-1].(*ssa.If)
		if !ok {
			continue
		}
		bo, ok := iff.Cond.(*ssa.BinOp)
		if !ok {
			continue
		}
		var other ssa.Value
		if bo.X == v {
			other = bo.Y
		} else if bo.Y == v {
			other = bo.X
		} else {
			continue
		}
		if _, isConst := constStringOf(other); !isConst {
			continue
		}
		if (bo.Op == token.EQL && pred.Succs[0] == d) || (bo.Op == token.NEQ && pred.Succs[1] == d) {
			return true
		}
	}
	return false
}

// wholeStructTaint: the nodes the generated path parser builds (package internal/parser/path) are made of the text the
// parser was given, so reading any field of a tainted node yields tainted text even though no store into that field is
// visible (the fields are filled by generated code). Other structs are tracked field by field.
func wholeStructTaint(t types.Type) bool {
	if pt, ok := t.Underlying().(*types.Pointer); ok {
		t = pt.Elem()
	}
	nt, ok := t.(*types.Named)
	if !ok || nt.Obj().Pkg() == nil {
		return false
	}
	return strings.HasSuffix(nt.Obj().Pkg().Path(), "/internal/parser/path")
}
