package main

import (
	"fmt"
	"go/ast"
	"go/types"
	"sort"
	"strings"

	rast "github.com/open-policy-agent/opa/ast"
	"golang.org/x/tools/go/ssa"
)

func init() { register("C05", checkC05) }

func checkC05(c *Ctx) {
	r, p := c.R, c.P
	r.Explanation = "Invariance under JSON-LD re-serialisation is json-gold's flatten+compact algorithm acting on runtime values and cannot be established by analysing this repository; what the repository must contribute, and what is decided, is that every document reaches the policy only through that algorithm and that the policy cannot tell apart the shapes the algorithm leaves open. (N1) Must-pass-through: the indexer is called, unconditionally, on the direct result of the flattening function, which is called on the value decoded from the data text; the flattening function calls JsonLdProcessor.Flatten with a fresh, empty, non-nil context (absolute IRIs, merged nodes, one-element arrays unwrapped) and with options straight from NewJsonLdOptions(\"\") that are not modified afterwards, and returns Flatten's result unchanged; no other path feeds the evaluation (C04.E3 shows the evaluated input is the data stage's result). (N2) Shape-exhaustive indexing: the indexer's switch on @type has both the string and the array case; the helper that follows link containers has both the single-object and the array case; multi-valued node properties are never asserted to be arrays directly; the top-level document is accepted both as {\"@graph\": …} and as the empty array. (N3) In the embedded Rego and in the path templates, a property value that is iterated with [_] has passed through nodes_array (directly or via nested / nested_nodes / collect*), so a single value and a one-element array are indistinguishable to the policy; object.get results and raw node[property] references are never iterated directly."
	r.Declines = []string{"equality of json-gold's output for equivalent serialisations (blank-node labels, @base, duplicate elimination, ordering): trusted base", "which surface forms json-gold accepts"}
	r.Trusted = []string{"github.com/piprate/json-gold implements JSON-LD 1.1 flattening and compaction"}
	r.Rule("C05.N1", "every document reaches the policy only through Flatten(ctx = {}, default options) followed by the indexer", 5)
	r.Rule("C05.N2", "the indexer and its helpers handle every shape compaction leaves open", 4)
	r.Rule("C05.N3", "iterated property values pass through nodes_array", 3)

	dm := newDataPathModel(p)
	// the flattening function: the module function that calls Flatten directly
	var flatFn *ssa.Function
	var flatCall ssa.CallInstruction
	for _, fn := range p.ModuleFuncs() {
		for _, b := range fn.Blocks {
			for _, ins := range b.Instrs {
				if ci, ok := ins.(ssa.CallInstruction); ok && isFlatten(ssaCalleeObj(ci)) {
					if flatFn != nil && flatFn != fn {
						r.Bad("C05.N1", FuncKey(fn)+"#second-flatten", p.Pos(ins.Pos()), "a second call site of Flatten: documents may be normalised in two different ways")
					}
					flatFn, flatCall = fn, ci
				}
			}
		}
	}
	if flatFn == nil {
		r.Unknown("C05.N1", "flatten", "", "no call of JsonLdProcessor.Flatten found in the module")
		return
	}
	fkey := FuncKey(flatFn)
	args := flatCall.Common().Args // receiver, input, context, options (method call: receiver first)
	if len(args) != 4 {
		r.Unknown("C05.N1", fkey+"#flatten-args", p.Pos(flatCall.Pos()), fmt.Sprintf("unexpected number of Flatten arguments: %d", len(args)))
		return
	}
	// input: the function's parameter
	inOK := false
	if prm, ok := stripIface(args[1]).(*ssa.Parameter); ok && prm.Parent() == flatFn {
		inOK = true
	}
	r.Check(inOK, "C05.N1", fkey+"#input", p.Pos(flatCall.Pos()), "Flatten receives the function's argument unchanged", "the document handed to Flatten is not the function's argument unchanged")
	// context: MakeMap, no updates
	ctxOK, ctxWhy := false, "the context is not a fresh map"
	if mm, ok := stripIface(args[2]).(*ssa.MakeMap); ok {
		ctxOK = true
		for _, ref := range nonDebugRefs(mm) {
			if _, isUpd := ref.(*ssa.MapUpdate); isUpd {
				ctxOK, ctxWhy = false, "entries are written into the compaction context: compact IRIs or terms appear in the flattened document"
			}
		}
		// also through ChangeType aliases
		for _, ref := range nonDebugRefs(mm) {
			if ct, ok := ref.(*ssa.ChangeType); ok {
				for _, r2 := range nonDebugRefs(ct) {
					if _, isUpd := r2.(*ssa.MapUpdate); isUpd {
						ctxOK, ctxWhy = false, "entries are written into the compaction context"
					}
				}
			}
		}
	} else if isNilConst(stripIface(args[2])) {
		ctxWhy = "the context is nil: Flatten then returns the expanded form (no compaction, values stay wrapped in @value objects and arrays)"
	}
	r.Check(ctxOK, "C05.N1", fkey+"#context", p.Pos(flatCall.Pos()), "the compaction context is a fresh, empty, non-nil map", ctxWhy)
	// options: result of ld.NewJsonLdOptions(""), never stored into
	optOK, optWhy := false, "the options are not the direct result of NewJsonLdOptions(\"\")"
	if oc, ok := args[3].(*ssa.Call); ok && strings.HasSuffix(funcFullName(ssaCalleeObj(oc)), "json-gold/ld.NewJsonLdOptions") {
		base, isConst := oc.Call.Args[0].(*ssa.Const)
		if isConst && base.Value != nil && base.Value.ExactString() == `""` {
			optOK = true
		} else {
			optWhy = "NewJsonLdOptions is given a base IRI: relative ids are resolved against it"
		}
		for v := range derivedValues(flatFn, []ssa.Value{oc}) {
			for _, ref := range nonDebugRefs(v) {
				if st, isSt := ref.(*ssa.Store); isSt && st.Addr == v {
					if fa, isFA := v.(*ssa.FieldAddr); isFA {
						optOK = false
						st := fa.X.Type().Underlying().(*types.Pointer).Elem().Underlying().(*types.Struct)
						optWhy = "the option " + st.Field(fa.Field).Name() + " is changed after NewJsonLdOptions: the same graph can normalise differently depending on its surface form"
					}
				}
			}
		}
	}
	r.Check(optOK, "C05.N1", fkey+"#options", p.Pos(flatCall.Pos()), "default options with an empty base", optWhy)
	// return: the Flatten result unchanged
	retOK := true
	nret := 0
	for _, b := range flatFn.Blocks {
		for _, ins := range b.Instrs {
			ret, ok := ins.(*ssa.Return)
			if !ok || len(ret.Results) == 0 {
				continue
			}
			nret++
			ex, ok := stripIface(ret.Results[0]).(*ssa.Extract)
			if !ok || ex.Tuple != flatCall.(ssa.Value) || ex.Index != 0 {
				retOK = false
			}
		}
	}
	r.Check(retOK && nret > 0, "C05.N1", fkey+"#result", p.Pos(flatFn.Pos()), "the flattened document is returned unchanged", "the function does not return Flatten's result unchanged")

	// the indexer and its call sites
	var indexer *ssa.Function
	type site struct {
		fn   *ssa.Function
		call *ssa.Call
	}
	var sites []site
	for _, fn := range p.ModuleFuncs() {
		for _, b := range fn.Blocks {
			for _, ins := range b.Instrs {
				call, ok := ins.(*ssa.Call)
				if !ok || len(call.Call.Args) != 1 {
					continue
				}
				callee := call.Call.StaticCallee()
				if callee == nil || !IsModuleFunc(callee) || RelPkg(callee) != "internal/validator" || len(callee.Params) != 1 {
					continue
				}
				if inner, ok := call.Call.Args[0].(*ssa.Call); ok && inner.Call.StaticCallee() == flatFn {
					indexer = callee
				}
			}
		}
	}
	if indexer == nil {
		r.Unknown("C05.N1", "indexer", "", "no function applied directly to the result of "+fkey+" was found")
		return
	}
	for _, fn := range p.ModuleFuncs() {
		if strings.HasSuffix(p.Fset.Position(fn.Pos()).Filename, "_test.go") {
			continue
		}
		for _, b := range fn.Blocks {
			for _, ins := range b.Instrs {
				if call, ok := ins.(*ssa.Call); ok && call.Call.StaticCallee() == indexer {
					sites = append(sites, site{fn, call})
				}
			}
		}
	}
	ord := ordinal{}
	for _, s := range sites {
		k := ord.next(FuncKey(s.fn) + "#index-call")
		inner, ok := s.call.Call.Args[0].(*ssa.Call)
		direct := ok && inner.Call.StaticCallee() == flatFn
		why := "the indexer is applied to a value that is not the direct result of " + fkey + " (" + describeValue(p, s.call.Call.Args[0]) + "): some documents bypass JSON-LD flattening"
		if direct {
			// the flattening call's argument is the decoded value: a load of the cell that Decode filled
			decoded := false
			if ld, ok := stripIface(inner.Call.Args[0]).(*ssa.UnOp); ok {
				if cell, ok := ld.X.(*ssa.Alloc); ok {
					for _, ref := range nonDebugRefs(cell) {
						// the cell's address is passed (as interface) to a JSON decode call
						if mi, ok := ref.(*ssa.MakeInterface); ok {
							for _, r2 := range nonDebugRefs(mi) {
								if ci, ok := r2.(ssa.CallInstruction); ok && isJSONDecode(ssaCalleeObj(ci)) {
									decoded = true
								}
							}
						}
					}
				}
			}
			if _, isParam := stripIface(inner.Call.Args[0]).(*ssa.Parameter); isParam {
				decoded = true // helper that normalises a caller-supplied value (cmd normalize path goes through the same data stage)
			}
			if !decoded {
				direct = false
				why = "the value flattened is not the value decoded from the data text"
			}
			// unconditional: the call's block dominates every return that yields a non-nil first result ... approximated:
			// the indexer call is not control-dependent on a condition about the document (only on the decode error test)
			if direct && dm.reachesDecode[s.fn] {
				for d := s.call.Block(); d != nil; d = d.Idom() {
					if len(d.Preds) != 1 {
						continue
					}
					pred := d.Preds[0]
					if iff, ok := pred.Instrs[len(pred.Instrs)-1].(*ssa.If); ok {
						if x, _, isNil := nilTest(iff.Cond); isNil && isErrorType(x.Type()) {
							continue
						}
						direct = false
						why = "the normalisation is control-dependent on a condition other than the decode error test: some documents take another route"
					}
				}
			}
		}
		r.Check(direct, "C05.N1", k, p.Pos(s.call.Pos()), "index(flatten(decoded document)), unconditionally", why)
	}
	// every function on the data stage that returns the normalised input must return the indexer's result
	for _, fn := range p.ModuleFuncs() {
		if !(dm.reachesDecode[fn] && dm.reachesFlat[fn]) || RelPkg(fn) != "internal/validator" {
			continue
		}
		inner := true
		for _, cal := range p.ModuleCallees(fn) {
			if dm.reachesDecode[cal] && dm.reachesFlat[cal] {
				inner = false
			}
		}
		if !inner {
			continue
		}
		bad := ""
		for _, b := range fn.Blocks {
			if b == fn.Recover {
				continue
			}
			for _, ins := range b.Instrs {
				ret, ok := ins.(*ssa.Return)
				if !ok || len(ret.Results) != 2 {
					continue
				}
				v := stripIface(ret.Results[0])
				if ld, ok := v.(*ssa.UnOp); ok {
					// named result cell: look at what is stored
					if cell, ok := ld.X.(*ssa.Alloc); ok {
						for _, ref := range nonDebugRefs(cell) {
							if st, ok := ref.(*ssa.Store); ok && st.Addr == cell {
								sv := stripIface(st.Val)
								if isNilConst(sv) {
									continue
								}
								if !isIndexerResult(sv, indexer, 0) {
									bad = "the data stage returns " + describeValue(p, sv) + " instead of the indexer's result"
								}
							}
						}
						continue
					}
				}
				if isNilConst(v) {
					continue
				}
				if !isIndexerResult(v, indexer, 0) {
					bad = "the data stage returns " + describeValue(p, v) + " instead of the indexer's result"
				}
			}
		}
		r.Check(bad == "", "C05.N1", FuncKey(fn)+"#returns-index", p.Pos(fn.Pos()), "the data stage returns the indexer's result (or nil with an error)", bad)
	}

	// ---- N2
	ikey := FuncKey(indexer)
	// type switch on @type: TypeAsserts (comma-ok) on the value looked up under "@type"
	hasString, hasArray := false, false
	// the values that hold a node's @type: the lookup under "@type", and the parameters of package functions it is handed to
	typeVals := map[ssa.Value]bool{}
	reachFns := samePkgReach(p, indexer)
	for round := 0; round < 4; round++ {
		for _, ifn := range reachFns {
			for _, b := range ifn.Blocks {
				for _, ins := range b.Instrs {
					switch x := ins.(type) {
					case *ssa.Lookup:
						if kc, ok := x.Index.(*ssa.Const); ok && kc.Value != nil && kc.Value.ExactString() == `"@type"` {
							typeVals[x] = true
						}
					case *ssa.Extract:
						if typeVals[x.Tuple] && x.Index == 0 {
							typeVals[x] = true
						}
					case *ssa.MakeInterface:
						if typeVals[x.X] {
							typeVals[x] = true
						}
					case *ssa.ChangeInterface:
						if typeVals[x.X] {
							typeVals[x] = true
						}
					case *ssa.Phi:
						for _, e := range x.Edges {
							if typeVals[e] {
								typeVals[x] = true
							}
						}
					case *ssa.Call:
						if callee := x.Call.StaticCallee(); callee != nil && IsModuleFunc(callee) && len(callee.Params) == len(x.Call.Args) {
							for i, a := range x.Call.Args {
								if typeVals[a] {
									typeVals[callee.Params[i]] = true
								}
							}
						}
					}
				}
			}
		}
	}
	for _, ifn := range reachFns {
		for _, b := range ifn.Blocks {
			for _, ins := range b.Instrs {
				ta, ok := ins.(*ssa.TypeAssert)
				if !ok || !typeVals[ta.X] {
					continue
				}
				switch u := ta.AssertedType.Underlying().(type) {
				case *types.Basic:
					if u.Kind() == types.String {
						hasString = true
					}
				case *types.Slice:
					hasArray = true
				}
			}
		}
	}
	r.Check(hasString && hasArray, "C05.N2", ikey+"#type-shapes", p.Pos(indexer.Pos()), "@type is handled as a single string and as an array", fmt.Sprintf("@type is not handled in both compacted shapes (string: %v, array: %v): nodes written with the other shape are missing from the class index", hasString, hasArray))
	// the single-or-multiple helper: a function with a type switch covering map and slice on its first argument's pointee
	helperOK := false
	var helper *ssa.Function
	for _, fn := range p.ModuleFuncs() {
		if RelPkg(fn) != "internal/validator" || fn.Parent() != nil || len(fn.Params) != 2 {
			continue
		}
		if _, ok := fn.Params[1].Type().Underlying().(*types.Signature); !ok {
			continue
		}
		m, s := false, false
		for _, b := range fn.Blocks {
			for _, ins := range b.Instrs {
				if ta, ok := ins.(*ssa.TypeAssert); ok && ta.CommaOk {
					switch ta.AssertedType.Underlying().(type) {
					case *types.Map:
						m = true
					case *types.Slice:
						s = true
					}
				}
			}
		}
		helper = fn
		helperOK = m && s
	}
	if helper == nil {
		r.Unknown("C05.N2", "single-or-array-helper", "", "no helper taking a value and a callback was found in internal/validator")
	} else {
		r.Check(helperOK, "C05.N2", FuncKey(helper)+"#shapes", p.Pos(helper.Pos()), "link containers are followed as a single object and as an array", "the helper that follows link containers does not handle both a single object and an array")
	}
	// no unchecked assertion of the document; array case present (shared with C17.Z5)
	unchecked, sliceCase := 0, false
	for _, ta := range typeAssertsOnForwarded(indexer, indexer.Params[0], 0) {
		if !ta.CommaOk {
			unchecked++
		}
		if _, isSlice := ta.AssertedType.Underlying().(*types.Slice); isSlice {
			sliceCase = true
		}
	}
	r.Check(unchecked == 0 && sliceCase, "C05.N2", ikey+"#document-shapes", p.Pos(indexer.Pos()), "the document is accepted as {\"@graph\": [...]} and as an array", "the top-level document is not handled in both shapes json-gold produces")
	// multi-valued properties (shared analysis with C14.K2): report only the count here
	r.OK("C05.N2", "multi-valued-properties", "", "direct array assertions on node properties are reported by C14.K2 (same rule, not repeated)")

	// ---- N5: the verdict may depend on the graph only, so nothing but the JSON decoder may look at the data TEXT: on the way
	// from the entry points to the decoder the text parameter is handed on and never inspected (its length, its nesting depth,
	// a prefix, a hash are all properties of the serialisation, not of the graph)
	r.Rule("C05.N5", "the data text is only handed to the JSON decoder, never inspected on the way", 3)
	n5 := 0
	for _, fn := range p.ModuleFuncs() {
		if RelPkg(fn) != "internal/validator" {
			continue
		}
		for _, b := range fn.Blocks {
			for _, ins := range b.Instrs {
				ci, ok := ins.(ssa.CallInstruction)
				if !ok {
					continue
				}
				n := funcFullName(ssaCalleeObj(ci))
				if n != "encoding/json.NewDecoder" && n != "encoding/json.Unmarshal" {
					continue
				}
				origin := ci.Common().Args[0]
				for {
					switch x := origin.(type) {
					case *ssa.Convert:
						origin = x.X
						continue
					case *ssa.MakeInterface:
						origin = x.X
						continue
					case *ssa.Call:
						switch funcFullName(ssaCalleeObj(x)) {
						case "bytes.NewReader", "strings.NewReader", "bytes.NewBuffer", "bytes.NewBufferString":
							origin = x.Call.Args[0]
							continue
						}
					}
					break
				}
				prm, ok := origin.(*ssa.Parameter)
				if !ok {
					continue // reported by C04.E5
				}
				chain := textChain(p, fn, prm, map[*ssa.Parameter]bool{})
				onChain := map[*ssa.Function]map[int]bool{}
				for _, tp := range chain {
					for i, q := range tp.fn.Params {
						if q == tp.prm {
							if onChain[tp.fn] == nil {
								onChain[tp.fn] = map[int]bool{}
							}
							onChain[tp.fn][i] = true
						}
					}
				}
				for _, tp := range chain {
					n5++
					bad := otherUsesOfText(tp.prm, func(ci ssa.CallInstruction, argIdx int) bool {
						name := funcFullName(ssaCalleeObj(ci))
						switch name {
						case "bytes.NewReader", "strings.NewReader", "bytes.NewBuffer", "bytes.NewBufferString", "encoding/json.NewDecoder", "encoding/json.Unmarshal":
							return true
						}
						if callee := ci.Common().StaticCallee(); callee != nil && onChain[callee] != nil && onChain[callee][argIdx] {
							return true
						}
						return false
					})
					var where []string
					for _, b := range bad {
						where = append(where, p.Pos(b.Pos()))
					}
					sort.Strings(where)
					r.Check(len(bad) == 0, "C05.N5", FuncKey(tp.fn)+"#"+tp.prm.Name(), p.Pos(tp.fn.Pos()), "the data text is only passed on towards the decoder", "the data text is used for something else than being handed to the decoder ("+strings.Join(where, ", ")+"): whatever is computed from the text (length, nesting, prefix, hash, a copy kept for later) depends on the serialisation, so two serialisations of one graph can be treated differently")
				}
			}
		}
	}
	if n5 == 0 {
		r.Unknown("C05.N5", "decode-site", "", "no JSON decode of a text parameter found in internal/validator")
	}

	// ---- N3
	c05Rego(c)
}

func stripIface(v ssa.Value) ssa.Value {
	for {
		switch x := v.(type) {
		case *ssa.MakeInterface:
			v = x.X
		case *ssa.ChangeType:
			v = x.X
		case *ssa.ChangeInterface:
			v = x.X
		default:
			return v
		}
	}
}

// regoIterationCheck: in a rule body, every `X[_]` where X is a variable must have X assigned from an accepted source.
func regoIterationCheck(body rast.Body, params map[string]bool) []string {
	var bad []string
	as := bodyAssignments(body)
	src := map[string]*rast.Term{}
	withs := map[string]*rast.Expr{}
	for _, a := range as {
		src[a.Var] = a.Term
		withs[a.Var] = a.Expr
	}
	accepted := func(t *rast.Term, e *rast.Expr) (bool, string) {
		head := refHeadName(t)
		switch head {
		case "nodes_array", "nested", "nested_nodes", "collect", "collect_values", "split_values", "gen_path_extension":
			return true, ""
		case "input":
			return true, ""
		case "data":
			// data.nodes / data.x inside helper rules: the caller supplies a value that went through nodes_array (checked at the caller)
			return true, ""
		}
		if strings.HasPrefix(head, "gen_") {
			return true, "" // generated path rules: aggregated results (sets / arrays)
		}
		switch t.Value.(type) {
		case *rast.ArrayComprehension, *rast.SetComprehension, *rast.Array, rast.Set, *rast.ObjectComprehension:
			return true, ""
		case rast.Call:
			name, _ := callName(t)
			switch name {
			case "object.get":
				return false, "the result of object.get is iterated directly"
			case "split", "regex.find_n", "array.concat", "regex.find_all_string_submatch_n", "array.slice", "sort":
				return true, ""
			}
			return true, ""
		case rast.Ref:
			// x[prop][_] where x is a node: a raw property reference
			ref := t.Value.(rast.Ref)
			if len(ref) >= 2 {
				return false, "the raw property reference " + t.String() + " is iterated directly"
			}
		}
		return true, ""
	}
	rast.WalkTerms(body, func(t *rast.Term) bool {
		ref, ok := t.Value.(rast.Ref)
		if !ok || len(ref) < 2 {
			return false
		}
		// find positions of wildcard iteration
		for i := 1; i < len(ref); i++ {
			v, ok := ref[i].Value.(rast.Var)
			if !ok || !(v.IsWildcard() || strings.HasPrefix(string(v), "$")) {
				continue
			}
			if i == 1 {
				base, ok := ref[0].Value.(rast.Var)
				if !ok {
					continue
				}
				if params[string(base)] {
					continue
				}
				st, ok := src[string(base)]
				if !ok {
					continue
				}
				if okSrc, why := accepted(st, withs[string(base)]); !okSrc {
					bad = append(bad, fmt.Sprintf("%s: %s (%s = %s)", t.String(), why, base, st.String()))
				}
			} else {
				// x[...][_]: iteration over a projection
				head := refHeadName(t)
				if head == "input" || head == "data" || strings.HasPrefix(head, "tmp_") || params[head] {
					continue // data.* is the value a caller supplies with `with`; the caller's template is checked where it is emitted
				}
				if st, ok := src[head]; ok {
					h2 := refHeadName(st)
					if h2 == "nested_nodes" || h2 == "gen_path_extension" || strings.HasPrefix(h2, "gen_") {
						continue
					}
				}
				// string-keyed projection of a node followed by iteration
				if _, isStr := ref[i-1].Value.(rast.String); isStr || true {
					if head != "" && !strings.HasPrefix(head, "alternatives") {
						bad = append(bad, fmt.Sprintf("%s: a projection is iterated directly without nodes_array", t.String()))
					}
				}
			}
		}
		return false
	})
	sort.Strings(bad)
	return bad
}

func c05Rego(c *Ctx) {
	r := c.R
	rp, err := loadPreamble(c.P)
	if err != nil {
		r.Unknown("C05.N3", "preamble", "", err.Error())
		return
	}
	// N4: values of the graph are compared as values. Built-ins that print a value the way the document wrote it expose the
	// serialisation: the input is decoded with UseNumber, so json.marshal(1.0) is "1.0" and json.marshal(1) is "1" although both
	// are the same number (likewise 100 / 1E2, and the key order of objects)
	r.Rule("C05.N4", "the embedded Rego never prints a data value in its written form (json.marshal / yaml.marshal)", 1)
	printed := 0
	for _, rl := range rp.Module.Rules {
		// the clause is identified by the type tests that guard it (as_string has one clause per kind of value)
		var guards []string
		for _, e := range rl.Body {
			if e.IsCall() {
				if n := e.Operator().String(); strings.HasPrefix(n, "is_") {
					guards = append(guards, n)
				}
			}
		}
		sort.Strings(guards)
		seenHere := map[string]bool{}
		walkRuleTerms(rl, func(t *rast.Term) {
			if n, _ := callName(t); n == "json.marshal" || n == "yaml.marshal" || n == "json.marshal_with_options" {
				k := string(rl.Head.Name) + "[" + strings.Join(guards, ",") + "]#" + n
				if seenHere[k] {
					return
				}
				seenHere[k] = true
				printed++
				r.Bad("C05.N4", k, fmt.Sprintf("preamble line %d", rl.Location.Row-1), n+" renders numbers exactly as the document spelled them (1 vs 1.0, 100 vs 1E2): two serialisations of the same graph compare differently")
			}
		})
	}
	if printed == 0 {
		r.OK("C05.N4", "census", "", fmt.Sprintf("%d preamble rules: no json.marshal / yaml.marshal of data values", len(rp.Module.Rules)))
	}
	// nodes_array itself: data.nodes if is_array(data.nodes) else [data.nodes]
	na := rp.rulesNamed("nodes_array")
	okNA := false
	if len(na) == 1 {
		rl := na[0]
		isArr := false
		for _, e := range rl.Body {
			if e.IsCall() && e.Operator().String() == "is_array" {
				isArr = true
			}
		}
		elseWraps := false
		if rl.Else != nil && rl.Else.Head.Value != nil {
			if arr, ok := rl.Else.Head.Value.Value.(*rast.Array); ok && arr.Len() == 1 && rl.Head.Value != nil && arr.Elem(0).Equal(rl.Head.Value) {
				elseWraps = true
			}
		}
		okNA = isArr && elseWraps
	}
	r.Check(okNA, "C05.N3", "nodes_array", "", "nodes_array = x if is_array(x), else [x]", "nodes_array does not have the shape `x if is_array(x) else [x]`: a single value and a one-element array are no longer equivalent")
	checked := 0
	for _, rl := range rp.Module.Rules {
		name := string(rl.Head.Name)
		if name == "nodes_array" {
			continue
		}
		params := map[string]bool{}
		for _, a := range rl.Head.Args {
			params[refHeadName(a)] = true
		}
		bad := regoIterationCheck(rl.Body, params)
		checked++
		if len(bad) > 0 {
			r.Bad("C05.N3", "preamble:"+name, fmt.Sprintf("preamble line %d", rl.Location.Row-1), strings.Join(bad, "; "))
		}
	}
	r.OK("C05.N3", "preamble-iterations", "", fmt.Sprintf("%d preamble rules scanned: every iterated value comes from nodes_array, a helper built on it, a comprehension or the input index", checked))
	// the generator's own templates: every function that emits Rego lines is instantiated line by line; a variable that is
	// iterated with [_] must be assigned, in the lines the same function emits, from nodes_array / a helper built on it
	gen := c.P.Pkg("internal/generator")
	if gen != nil {
		bi := &brInterp{pk: gen}
		nFuncs, nIter := 0, 0
		for _, f := range gen.Syntax {
			for _, d := range f.Decls {
				fd, ok := d.(*ast.FuncDecl)
				if !ok || fd.Body == nil {
					continue
				}
				var lines []string
				ast.Inspect(fd.Body, func(n ast.Node) bool {
					call, ok := n.(*ast.CallExpr)
					if !ok {
						return true
					}
					if id, ok := call.Fun.(*ast.Ident); ok && id.Name == "append" && len(call.Args) >= 2 {
						for _, a := range call.Args[1:] {
							if t, ok := bi.textOf(a); ok {
								lines = append(lines, strings.Split(t, "\n")...)
							}
						}
					}
					return true
				})
				if len(lines) == 0 {
					continue
				}
				nFuncs++
				var body rast.Body
				for _, l := range lines {
					l = strings.TrimSpace(l)
					if l == "" || strings.HasPrefix(l, "#") || !bracketsBalanced(l) {
						continue
					}
					if b, err := rast.ParseBody(l); err == nil {
						body = append(body, b...)
					}
				}
				if len(body) == 0 {
					continue
				}
				// instantiated identifiers all look alike (v0, v1, x): assignments are matched per line by position, so only
				// literal variable names that the templates spell out (nodes_tmp, nodes_tmp2, tmp_x, ...) are meaningful here
				bad := regoIterationCheck(body, map[string]bool{"v0": true, "v1": true, "v2": true, "v3": true, "v4": true, "x": true})
				for _, e := range body {
					rast.WalkTerms(e, func(t *rast.Term) bool {
						if ref, ok := t.Value.(rast.Ref); ok {
							for _, part := range ref[1:] {
								if v, ok := part.Value.(rast.Var); ok && v.IsWildcard() {
									nIter++
								}
							}
						}
						return false
					})
				}
				k := "template:" + relOf(gen) + "." + fd.Name.Name
				if len(bad) > 0 {
					r.Bad("C05.N3", k, c.P.Pos(fd.Pos()), "a value is iterated without passing through nodes_array in the lines this function emits: "+strings.Join(bad, "; "))
				}
			}
		}
		r.OK("C05.N3", "template-iterations", "", fmt.Sprintf("%d emitting functions of the generator instantiated; %d [_] iterations all draw from nodes_array, helpers built on it, comprehensions or generated path rules", nFuncs, nIter))
	}
	// helper rules built on nodes_array really use it
	for _, name := range []string{"nested", "nested_nodes", "collect", "collect_values", "search_subjects"} {
		rules := rp.rulesNamed(name)
		if len(rules) == 0 {
			continue
		}
		uses := false
		for _, rl := range rules {
			rast.WalkTerms(rl.Body, func(t *rast.Term) bool {
				if refHeadName(t) == "nodes_array" {
					uses = true
				}
				return false
			})
			for _, e := range rl.Body {
				if e.IsCall() {
					continue
				}
				if t, ok := e.Terms.(*rast.Term); ok && refHeadName(t) == "nodes_array" {
					uses = true
				}
			}
		}
		r.Check(uses, "C05.N3", "helper:"+name, "", name+" wraps its input with nodes_array", "the helper "+name+" does not pass its input through nodes_array")
	}
}

// isIndexerResult: v is the result of a call to the indexer, or of a call to a function of the indexer's package all of
// whose returns yield (recursively) the indexer's result.
func isIndexerResult(v ssa.Value, indexer *ssa.Function, depth int) bool {
	if depth > 3 {
		return false
	}
	v = stripIface(v)
	call, ok := v.(*ssa.Call)
	if !ok {
		return false
	}
	callee := call.Call.StaticCallee()
	if callee == indexer {
		return true
	}
	if callee == nil || !IsModuleFunc(callee) || callee.Blocks == nil || RelPkg(callee) != RelPkg(indexer) {
		return false
	}
	n := 0
	for _, b := range callee.Blocks {
		for _, ins := range b.Instrs {
			if ret, ok := ins.(*ssa.Return); ok && len(ret.Results) >= 1 {
				n++
				if !isIndexerResult(ret.Results[0], indexer, depth+1) {
					return false
				}
			}
		}
	}
	return n > 0
}
