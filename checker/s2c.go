package main

import (
	"flag"
	"fmt"
	"go/ast"
	"go/format"
	"go/token"
	"os"
	"sort"
	"strconv"
	"strings"
)

// cmdS2C is a self-test aid, not a check: in a SCRATCH copy of the repository it rewrites every fmt.Sprintf call whose
// format uses only %s verbs and whose operands are all strings into the equivalent concatenation (a mechanical,
// behaviour-preserving refactoring applied everywhere at once).  Running the 18 checks on the result shows which rules
// still depend on how a text is put together.  usage: acvlint s2c -repo <scratch dir> [-pkgs internal/generator,...]
func cmdS2C(args []string) int {
	fs := flag.NewFlagSet("s2c", flag.ExitOnError)
	repo := fs.String("repo", "", "scratch working tree (files are rewritten in place)")
	pkgs := fs.String("pkgs", "internal/generator,internal/parser/profile,internal/validator,internal/misc,internal/parser/path", "packages to rewrite")
	fs.Parse(args)
	if *repo == "" || *repo == "/repo" {
		fmt.Fprintln(os.Stderr, "s2c rewrites files: give it a scratch worktree, never /repo")
		return 2
	}
	p, err := Load(*repo, "", "")
	if err != nil {
		fmt.Fprintln(os.Stderr, err)
		return 2
	}
	total := 0
	for _, rel := range strings.Split(*pkgs, ",") {
		pk := p.Pkg(rel)
		if pk == nil {
			continue
		}
		info := pk.TypesInfo
		for _, file := range pk.Syntax {
			name := p.Fset.Position(file.Pos()).Filename
			if strings.HasSuffix(name, "_test.go") || strings.HasSuffix(name, "peg.go") {
				continue
			}
			type edit struct {
				from, to int
				text     string
			}
			var edits []edit
			src, err := os.ReadFile(name)
			if err != nil {
				continue
			}
			ast.Inspect(file, func(n ast.Node) bool {
				call, ok := n.(*ast.CallExpr)
				if !ok || funcFullName(calleeOf(info, call)) != "fmt.Sprintf" || len(call.Args) < 2 || call.Ellipsis.IsValid() {
					return true
				}
				f, ok := constString(info, call.Args[0])
				if !ok || strings.Contains(f, "%%") {
					return true
				}
				if _, isLit := ast.Unparen(call.Args[0]).(*ast.BasicLit); !isLit {
					return true
				}
				pieces := strings.Split(f, "%s")
				if len(pieces) != len(call.Args) || strings.Contains(strings.Join(pieces, ""), "%") {
					return true
				}
				for _, a := range call.Args[1:] {
					tv, ok := info.Types[a]
					if !ok || !isStringType(tv.Type) || tv.Type.String() != "string" {
						return true
					}
				}
				var parts []string
				for i, piece := range pieces {
					if piece != "" {
						parts = append(parts, strconv.Quote(piece))
					}
					if i < len(call.Args)-1 {
						a := call.Args[i+1]
						t := string(src[p.Fset.Position(a.Pos()).Offset:p.Fset.Position(a.End()).Offset])
						if _, simple := ast.Unparen(a).(*ast.BinaryExpr); simple {
							t = "(" + t + ")"
						}
						parts = append(parts, t)
					}
				}
				if len(parts) == 0 {
					return true
				}
				edits = append(edits, edit{p.Fset.Position(call.Pos()).Offset, p.Fset.Position(call.End()).Offset, "(" + strings.Join(parts, " + ") + ")"})
				return false // do not rewrite nested calls inside a rewritten one
			})
			if len(edits) == 0 {
				continue
			}
			sort.Slice(edits, func(i, j int) bool { return edits[i].from > edits[j].from })
			out := string(src)
			for _, e := range edits {
				out = out[:e.from] + e.text + out[e.to:]
			}
			// drop the fmt import when nothing else uses it
			if !strings.Contains(strings.ReplaceAll(out, "\"fmt\"", ""), "fmt.") {
				out = strings.Replace(out, "\t\"fmt\"\n", "", 1)
				out = strings.Replace(out, "import \"fmt\"\n", "", 1)
			}
			if formatted, err := format.Source([]byte(out)); err == nil {
				out = string(formatted)
			}
			if err := os.WriteFile(name, []byte(out), 0o644); err != nil {
				fmt.Fprintln(os.Stderr, err)
				return 2
			}
			total += len(edits)
			fmt.Printf("%s: %d calls rewritten\n", strings.TrimPrefix(name, *repo+"/"), len(edits))
		}
	}
	fmt.Printf("total: %d\n", total)
	_ = token.NoPos
	return 0
}
