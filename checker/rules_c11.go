package main

import (
	"fmt"
	"go/ast"
	"go/constant"
	"go/types"
	"golang.org/x/tools/go/packages"
	"sort"
	"strings"

	"golang.org/x/tools/go/ssa"
)

func init() { register("C11", checkC11) }

// eventModel resolves the event vocabulary from pkg/events by type, not by name.
type eventModel struct {
	eventType  *types.Named // events.EventType
	eventStrct *types.Named // events.Event
	byValue    map[int64]string
	names      []string
	pairs      map[string][2]string // stage -> {Start const, Done const}
	stageOf    map[string]string    // const name -> stage
	isStart    map[string]bool
}

func loadEventModel(p *Prog) (*eventModel, error) {
	pk := p.Pkg("pkg/events")
	if pk == nil {
		return nil, fmt.Errorf("package pkg/events not found")
	}
	m := &eventModel{byValue: map[int64]string{}, pairs: map[string][2]string{}, stageOf: map[string]string{}, isStart: map[string]bool{}}
	scope := pk.Types.Scope()
	// the event type: the named integer type that has package-level constants; the event struct: the named struct with a field of that type
	for _, n := range scope.Names() {
		if c, ok := scope.Lookup(n).(*types.Const); ok {
			if nt, ok := c.Type().(*types.Named); ok && nt.Obj().Pkg() == pk.Types {
				if m.eventType == nil {
					m.eventType = nt
				}
				if nt == m.eventType {
					v, _ := constant.Int64Val(c.Val())
					m.byValue[v] = c.Name()
					m.names = append(m.names, c.Name())
				}
			}
		}
	}
	if m.eventType == nil {
		return nil, fmt.Errorf("no typed constants in pkg/events")
	}
	for _, n := range scope.Names() {
		if tn, ok := scope.Lookup(n).(*types.TypeName); ok {
			if st, ok := tn.Type().Underlying().(*types.Struct); ok {
				for i := 0; i < st.NumFields(); i++ {
					if st.Field(i).Type() == m.eventType {
						m.eventStrct, _ = tn.Type().(*types.Named)
					}
				}
			}
		}
	}
	if m.eventStrct == nil {
		return nil, fmt.Errorf("no struct type with an %s field in pkg/events", m.eventType.Obj().Name())
	}
	// pairing: values 2k / 2k+1 and names X+"Start" / X+"Done"
	vals := make([]int64, 0, len(m.byValue))
	for v := range m.byValue {
		vals = append(vals, v)
	}
	sort.Slice(vals, func(i, j int) bool { return vals[i] < vals[j] })
	for _, v := range vals {
		name := m.byValue[v]
		switch {
		case strings.HasSuffix(name, "Start"):
			st := strings.TrimSuffix(name, "Start")
			pr := m.pairs[st]
			pr[0] = name
			m.pairs[st] = pr
			m.stageOf[name] = st
			m.isStart[name] = true
		case strings.HasSuffix(name, "Done"):
			st := strings.TrimSuffix(name, "Done")
			pr := m.pairs[st]
			pr[1] = name
			m.pairs[st] = pr
			m.stageOf[name] = st
		}
	}
	return m, nil
}

func (m *eventModel) isEventChan(t types.Type) bool {
	if pt, ok := t.Underlying().(*types.Pointer); ok {
		t = pt.Elem()
	}
	ch, ok := t.Underlying().(*types.Chan)
	return ok && ch.Elem() == types.Type(m.eventStrct)
}

// eventConstOf finds the EventType constant that flows into an abstract event value.
func (m *eventModel) eventConstOf(v AV) (string, bool) {
	if v.Origin == nil {
		return "", false
	}
	var operands []ssa.Value
	switch o := v.Origin.(type) {
	case ssa.CallInstruction:
		operands = o.Common().Args
	default:
		for _, op := range o.Operands(nil) {
			operands = append(operands, *op)
		}
	}
	for _, a := range operands {
		if c, ok := a.(*ssa.Const); ok && c.Type() == types.Type(m.eventType) && c.Value != nil {
			if name, ok := m.byValue[c.Int64()]; ok {
				return name, true
			}
		}
	}
	// the constant reached the constructor through parameters of wrappers: use the argument values of the path
	for i, a := range operands {
		if a.Type() == types.Type(m.eventType) && i < len(v.CallArgs) && v.CallArgs[i].Kind == avConst && v.CallArgs[i].Const != nil {
			if iv, ok := constant.Int64Val(v.CallArgs[i].Const); ok {
				if name, ok := m.byValue[iv]; ok {
					return name, true
				}
			}
		}
	}
	return "", false
}

// eventRelevant computes the module functions from which a send on / close of an event channel is reachable.
func eventRelevant(p *Prog, m *eventModel) map[*ssa.Function]bool {
	direct := map[*ssa.Function]bool{}
	for _, fn := range p.ModuleFuncs() {
		for _, b := range fn.Blocks {
			for _, ins := range b.Instrs {
				switch x := ins.(type) {
				case *ssa.Send:
					if m.isEventChan(x.Chan.Type()) {
						direct[fn] = true
					}
				case *ssa.Select:
					for _, st := range x.States {
						if m.isEventChan(st.Chan.Type()) {
							direct[fn] = true
						}
					}
				case ssa.CallInstruction:
					if bi, ok := x.Common().Value.(*ssa.Builtin); ok && bi.Name() == "close" && len(x.Common().Args) == 1 && m.isEventChan(x.Common().Args[0].Type()) {
						direct[fn] = true
					}
				}
			}
		}
	}
	// backwards closure over the module call graph
	rel := map[*ssa.Function]bool{}
	for f := range direct {
		rel[f] = true
	}
	changed := true
	funcs := p.ModuleFuncs()
	for changed {
		changed = false
		for _, fn := range funcs {
			if rel[fn] {
				continue
			}
			for _, c := range p.ModuleCallees(fn) {
				if rel[c] {
					rel[fn] = true
					changed = true
					break
				}
			}
		}
	}
	return rel
}

type c11Entry struct {
	fn       *ssa.Function
	kind     string // "validate" (returns a report), "compile" (pkg function returning a compiled profile), "stage"
	chanParm int
	errIdx   int
}

func checkC11(c *Ctx) {
	r, p := c.R, c.P
	r.Explanation = "Enumerates every control-flow path of every public entry point that takes an event channel (pkg.* and the exported internal/validator functions they delegate to), with all event-relevant callees inlined, deferred calls and recover() modelled and every non-inlined call that can panic forked into a panicking path, abstracted to {emit(E), close, return(err nil/non-nil), panic}. Decides on that complete path set: (T1) the emitted sequence is a well-bracketed prefix (Start X immediately followed by Done X or the end; stages in one fixed order); (T2) a validating call closes the channel exactly once, as its last action, on every returning path; pkg.CompileProfile closes once when it returns an error and never on success; (T3) nothing is sent after the close; (T5) no path leaves an entry point by panic; (T6) events are sent with a plain blocking send (no select/default/timeout, no goroutine). (T4) the milestone switch handles every EventType pair: Start constants are stored, each Done case sends exactly one milestone built from the stored Start of the same stage, and the milestone channel is closed once after the loop. Does not decide durations (clock values)."
	r.Declines = []string{"non-negative milestone durations (runtime clock values)", "panics inside CloseEventChan itself when the caller closes the channel concurrently"}
	r.Trusted = []string{"go/ssa's model of defer/recover", "dependencies may panic at any call (over-approximated), except a fixed list of pure standard-library constructors"}
	r.Rule("C11.T1", "per entry point, the event sequence of every path is a well-bracketed prefix of one stage order", 6)
	r.Rule("C11.T2", "close count per returning path: validating entry = exactly 1 (last token); pkg compile entry = 1 on error, 0 on success", 6)
	r.Rule("C11.T3", "no event is sent after the channel is closed", 6)
	r.Rule("C11.T4", "milestones: every EventType Start/Done pair is handled, Done builds its milestone from the Start of the same stage, the milestone channel is closed once", 8)
	r.Rule("C11.T5", "no path leaves an entry point by panic (the channel would stay open)", 6)
	r.Rule("C11.T6", "events are sent with a plain blocking send on the caller's channel", 1)

	m, err := loadEventModel(p)
	if err != nil {
		r.Unknown("C11.T1", "pkg/events", "", err.Error())
		return
	}
	r.Analysed["event_constants"] = len(m.names)
	r.Analysed["stages"] = len(m.pairs)
	for st, pr := range m.pairs {
		if pr[0] == "" || pr[1] == "" {
			r.Bad("C11.T4", "pair:"+st, "", "EventType constants are not paired Start/Done for stage "+st)
		}
	}

	rel := eventRelevant(p, m)
	r.Analysed["event_relevant_functions"] = len(rel)
	pf := NewPanicFree(p)

	// entry points
	var entries []c11Entry
	for _, pkgRel := range []string{"pkg", "internal/validator"} {
		for _, fn := range p.ExportedFuncs(pkgRel) {
			ci := -1
			for i, prm := range fn.Params {
				if m.isEventChan(prm.Type()) {
					ci = i
				}
			}
			if ci < 0 || !rel[fn] {
				continue
			}
			res := fn.Signature.Results()
			e := c11Entry{fn: fn, chanParm: ci, errIdx: resultHasError(fn.Signature), kind: "stage"}
			if res.Len() == 2 && e.errIdx == 1 {
				if bt, ok := res.At(0).Type().Underlying().(*types.Basic); ok && bt.Kind() == types.String {
					e.kind = "validate"
				} else if pkgRel == "pkg" {
					e.kind = "compile"
				}
			}
			entries = append(entries, e)
		}
	}
	r.Analysed["entry_points"] = len(entries)

	cfg := PathConfig{
		P:      p,
		Inline: func(fn *ssa.Function) bool { return rel[fn] },
		Classify: func(call ssa.CallInstruction, callee types.Object, args []AV) (*Token, bool) {
			return nil, false
		},
		MayPanic: func(call ssa.CallInstruction, callee types.Object) bool {
			if f := call.Common().StaticCallee(); f != nil && IsModuleFunc(f) {
				return !pf.Free(f)
			}
			return !pureExternal[funcFullName(callee)]
		},
		ResultHint: func(callee types.Object, idx int) Nilness {
			switch funcFullName(callee) {
			case "errors.New", "fmt.Errorf":
				return IsNonNil
			}
			return NilUnknown
		},
		SendToken: func(send *ssa.Send, ch, val AV) *Token {
			if !m.isEventChan(send.Chan.Type()) {
				return nil
			}
			name, ok := m.eventConstOf(val)
			if !ok {
				name = "?"
			}
			return &Token{Kind: "emit", Label: name}
		},
		CloseToken: func(call ssa.CallInstruction, ch AV) *Token {
			if !m.isEventChan(call.Common().Args[0].Type()) {
				return nil
			}
			return &Token{Kind: "close"}
		},
	}

	totalPaths := 0
	type sample struct {
		Entry string `json:"entry"`
		Path  string `json:"path"`
	}
	var samples []sample
	for _, en := range entries {
		eng := newPathEngine(cfg)
		// the caller supplies a channel: the parameter is non-nil
		args := make([]AV, len(en.fn.Params))
		for i, prm := range en.fn.Params {
			a := eng.fresh(nil, 0)
			a.Param = prm
			args[i] = a
		}
		preset := map[int]Nilness{args[en.chanParm].Sym: IsNonNil}
		outs, _ := eng.Run(en.fn, args, preset)
		sortOutcomes(outs)
		key := FuncKey(en.fn)
		totalPaths += len(outs)
		if eng.over {
			r.Unknown("C11.T1", key, p.Pos(en.fn.Pos()), "path limit exceeded")
			continue
		}
		if len(outs) > 0 {
			samples = append(samples, sample{key, outcomeKey(&outs[len(outs)-1])})
		}
		t1ok, t2ok, t3ok, t5ok, t6ok := true, true, true, true, true
		seenViol := map[string]bool{}
		report := func(rule, suffix, pos, msg string, ok *bool) {
			*ok = false
			k := key + "#" + suffix
			if seenViol[rule+k] {
				return
			}
			seenViol[rule+k] = true
			r.Bad(rule, k, pos, msg)
		}
		// stage order: longest stage sequence among all paths
		var longest []string
		stageSeqs := make([][]string, len(outs))
		for i := range outs {
			o := &outs[i]
			var seq []string
			open := ""
			closed := false
			closes := 0
			for ti, t := range o.Trace {
				switch t.Kind {
				case "emit":
					if closed {
						report("C11.T3", "emit-after-close:"+t.Label, p.Pos(t.Pos), fmt.Sprintf("%s is sent after the channel was closed on the path [%s]", t.Label, o.TraceString()), &t3ok)
					}
					if t.Label == "?" {
						r.Unknown("C11.T1", key+"#unresolved-event", p.Pos(t.Pos), "the EventType constant of a sent event could not be resolved")
						t1ok = false
						continue
					}
					st := m.stageOf[t.Label]
					if m.isStart[t.Label] {
						if open != "" {
							report("C11.T1", "overlap:"+t.Label, p.Pos(t.Pos), fmt.Sprintf("%s is sent while stage %s is still open on the path [%s]; decisions: %s", t.Label, open, o.TraceString(), strings.Join(o.Decisions, "; ")), &t1ok)
						}
						open = st
						seq = append(seq, st)
					} else {
						if open != st {
							report("C11.T1", "done-without-start:"+t.Label, p.Pos(t.Pos), fmt.Sprintf("%s is sent without its start event immediately before it on the path [%s]", t.Label, o.TraceString()), &t1ok)
						}
						open = ""
					}
				case "close":
					closes++
					closed = true
					if o.Exit == "return" && en.kind == "validate" && ti != len(o.Trace)-1 {
						// close must be the last observable action
					}
				case "select":
					report("C11.T6", "select", p.Pos(t.Pos), "an event-relevant function uses select: an event may be dropped or reordered when the listener is slow", &t6ok)
				case "recursion":
					report("C11.T6", "recursion:"+t.Label, p.Pos(t.Pos), "the event-relevant function "+t.Label+" is called recursively: the events of the inner call repeat inside the outer one (two starts before a done, a second close)", &t6ok)
				case "go":
					report("C11.T6", "go", p.Pos(t.Pos), "an event-relevant function starts a goroutine: events may be reordered and a panic there cannot be recovered", &t6ok)
				}
			}
			stageSeqs[i] = seq
			if len(seq) > len(longest) {
				longest = seq
			}
			switch o.Exit {
			case "panic":
				where := "?"
				if o.PanicAt != nil {
					where = p.Pos(o.PanicAt.Pos())
				}
				fnName := FuncKey(o.PanicIn)
				report("C11.T5", "panic-in:"+fnName, where, fmt.Sprintf("a panic raised in %s leaves %s without closing the channel; trace so far [%s]; decisions: %s", fnName, key, o.TraceString(), strings.Join(o.Decisions, "; ")), &t5ok)
			case "cut":
				// loop bound reached: not a complete path; the pipeline functions are expected to be loop-free
				r.Unknown("C11.T1", key+"#loop", p.Pos(en.fn.Pos()), "an inlined event-relevant function contains a loop; its paths cannot be enumerated completely")
				t1ok = false
			case "blocked", "exit":
				report("C11.T2", "exit:"+o.Exit, p.Pos(en.fn.Pos()), "a path ends the process or blocks instead of returning: "+o.TraceString(), &t2ok)
			case "return":
				errN := NilUnknown
				if en.errIdx >= 0 && en.errIdx < len(o.Results) {
					errN = o.NilnessOf(o.Results[en.errIdx])
				}
				switch en.kind {
				case "validate":
					if closes != 1 {
						report("C11.T2", fmt.Sprintf("closes=%d", closes), p.Pos(en.fn.Pos()), fmt.Sprintf("a returning path closes the channel %d time(s): [%s]; decisions: %s", closes, o.TraceString(), strings.Join(o.Decisions, "; ")), &t2ok)
					}
				case "compile":
					want := -1
					switch errN {
					case IsNonNil:
						want = 1
					case IsNil:
						want = 0
					}
					if want >= 0 && closes != want {
						report("C11.T2", fmt.Sprintf("compile-closes=%d-want=%d", closes, want), p.Pos(en.fn.Pos()), fmt.Sprintf("a compilation path returning err %s closes the channel %d time(s): [%s]", map[Nilness]string{IsNil: "== nil", IsNonNil: "!= nil"}[errN], closes, o.TraceString()), &t2ok)
					}
					if want < 0 {
						r.Unknown("C11.T2", key+"#err-unknown", p.Pos(en.fn.Pos()), "the nil-ness of the returned error is not determined on a path: "+o.TraceString()+"; decisions: "+strings.Join(o.Decisions, "; "))
						t2ok = false
					}
				case "stage":
					emits := 0
					for _, t := range o.Trace {
						if t.Kind == "emit" {
							emits++
						}
					}
					if closes != 0 && emits > 0 {
						report("C11.T2", fmt.Sprintf("stage-closes=%d", closes), p.Pos(en.fn.Pos()), "a stage function closes the caller's channel (only validating entry points may): "+o.TraceString(), &t2ok)
					}
				}
			}
		}
		// prefix property
		for i, seq := range stageSeqs {
			for j, s := range seq {
				if j >= len(longest) || longest[j] != s {
					report("C11.T1", "order:"+strings.Join(seq, ">"), p.Pos(en.fn.Pos()), fmt.Sprintf("the stage sequence [%s] of path [%s] is not a prefix of the pipeline order [%s]", strings.Join(seq, " "), outs[i].TraceString(), strings.Join(longest, " ")), &t1ok)
					break
				}
			}
		}
		nPaths := len(outs)
		if t1ok {
			r.OK("C11.T1", key, p.Pos(en.fn.Pos()), fmt.Sprintf("%d paths; stage order [%s]; every path's events are a well-bracketed prefix", nPaths, strings.Join(longest, " ")))
		}
		if t2ok {
			r.OK("C11.T2", key, p.Pos(en.fn.Pos()), fmt.Sprintf("%d paths (%s entry): close counts as required", nPaths, en.kind))
		}
		if t3ok {
			r.OK("C11.T3", key, p.Pos(en.fn.Pos()), fmt.Sprintf("%d paths: no send after close", nPaths))
		}
		if t5ok {
			r.OK("C11.T5", key, p.Pos(en.fn.Pos()), fmt.Sprintf("%d paths: none ends in panic", nPaths))
		}
		if t6ok {
			r.OK("C11.T6", key, p.Pos(en.fn.Pos()), "plain blocking sends only")
		}
	}
	r.Analysed["paths_enumerated"] = totalPaths
	r.Analysed["path_samples"] = samples

	c11Milestones(c, m)
}

// c11Milestones checks the consumer side (T4): every function that ranges over an event channel is evaluated once per
// EventType constant (E-sym, case split on <event>.EventType), so a switch, an if-chain and a loop over a table of phases
// are all judged by what they do for each event.
func c11Milestones(c *Ctx, m *eventModel) {
	r, p := c.R, c.P
	found := 0
	for _, pk := range p.modPkgsSorted() {
		info := pk.TypesInfo
		for _, file := range pk.Syntax {
			for _, d := range file.Decls {
				fd, ok := d.(*ast.FuncDecl)
				if !ok || fd.Body == nil {
					continue
				}
				var loop *ast.RangeStmt
				ast.Inspect(fd.Body, func(n ast.Node) bool {
					if rs, ok := n.(*ast.RangeStmt); ok && loop == nil {
						if tv, ok := info.Types[rs.X]; ok && m.isEventChan(tv.Type) {
							loop = rs
						}
					}
					return true
				})
				if loop == nil {
					continue
				}
				// does the loop look at the event type at all? (a consumer that only forwards events is not the milestone builder)
				// (directly or in a function of the package the loop body hands the event to)
				looks := false
				seenFn := map[*ast.FuncDecl]bool{}
				var look func(body ast.Node, depth int)
				look = func(body ast.Node, depth int) {
					ast.Inspect(body, func(n ast.Node) bool {
						switch x := n.(type) {
						case *ast.SelectorExpr:
							if tv, ok := info.Types[x]; ok && tv.Type == types.Type(m.eventType) {
								looks = true
							}
						case *ast.CallExpr:
							if fn, ok := calleeOf(info, x).(*types.Func); ok && fn.Pkg() == pk.Types && depth < 3 {
								if cd, cpk := p.findDecl(fn); cd != nil && cpk == pk && cd.Body != nil && !seenFn[cd] {
									seenFn[cd] = true
									look(cd.Body, depth+1)
								}
							}
						}
						return true
					})
				}
				look(loop.Body, 0)
				if !looks {
					continue
				}
				found++
				key := relOf(pk) + "." + fd.Name.Name
				c11CheckConsumer(c, m, pk, key, fd, loop)
			}
		}
	}
	if found == 0 {
		r.Unknown("C11.T4", "milestones", "", "no function ranging over an event channel and inspecting the event type was found")
	}
}

func c11CheckConsumer(c *Ctx, m *eventModel, pk *packages.Package, key string, fd *ast.FuncDecl, loop *ast.RangeStmt) {
	r, p := c.R, c.P
	info := pk.TypesInfo
	type effect struct {
		storedKeys []string // names of the EventType constants under which the event was stored
		sends      []*Sym
	}
	byName := map[string]int64{}
	for v, n := range m.byValue {
		byName[n] = v
	}
	constNameOf := func(s *Sym) string {
		if v, ok := s.ConstInt(); ok {
			return m.byValue[v]
		}
		return ""
	}
	run := func(ev string) effect {
		var eff effect
		proto := &symWalker{Inline: samePkgInline(pk)}
		proto.AssumeFn = func(s *Sym) *Sym {
			if s.K == symField && s.Type != nil && s.Type == types.Type(m.eventType) && s.X != nil && s.X.K == symElem {
				return &Sym{K: symConst, C: constant.MakeInt64(byName[ev]), Type: m.eventType}
			}
			if s.K == symField && s.Name == "EventType" && s.X != nil && s.X.K == symElem {
				return &Sym{K: symConst, C: constant.MakeInt64(byName[ev]), Type: m.eventType}
			}
			return nil
		}
		proto.OnStore = func(w *symWalker, at ast.Node, target *Sym, k *Sym, val *Sym) {
			if k == nil || val == nil || !(val.K == symElem || (val.K == symStruct && val.Name == "copy")) {
				return
			}
			if n := constNameOf(k); n != "" {
				eff.storedKeys = append(eff.storedKeys, n)
			} else {
				eff.storedKeys = append(eff.storedKeys, "?"+k.String())
			}
		}
		proto.OnSend = func(w *symWalker, st *ast.SendStmt, ch *Sym, val *Sym) {
			eff.sends = append(eff.sends, val)
		}
		p.SymWalk(pk, &ast.FuncDecl{Name: fd.Name, Type: fd.Type, Recv: fd.Recv, Body: &ast.BlockStmt{List: []ast.Stmt{loop}}}, proto, nil)
		return eff
	}
	stages := sortedKeys(m.pairs)
	for _, st := range stages {
		pr := m.pairs[st]
		if pr[0] == "" || pr[1] == "" {
			continue
		}
		k := key + "#" + st
		es, ed := run(pr[0]), run(pr[1])
		// Start: stored under its own constant, nothing sent
		startOK := len(es.storedKeys) == 1 && es.storedKeys[0] == pr[0] && len(es.sends) == 0
		// Done: exactly one milestone, built from the start stored under the stage's Start constant, labelled with the stage
		usedStart, label := "", ""
		if len(ed.sends) == 1 {
			ed.sends[0].Walk(func(s *Sym) {
				if s.K == symIndex {
					if n := constNameOf(s.Y); n != "" {
						if usedStart == "" {
							usedStart = n
						} else if usedStart != n {
							usedStart += "," + n
						}
					}
				}
				if lit, ok := s.ConstString(); ok && label == "" {
					label = lit
				}
			})
		}
		switch {
		case !startOK:
			r.Bad("C11.T4", k, p.Pos(loop.Pos()), fmt.Sprintf("on %s the consumer stores the event under %v and sends %d value(s); it must store it under %s and send nothing: no milestone (or a zero start time) for stage %s", pr[0], es.storedKeys, len(es.sends), pr[0], st))
		case len(ed.sends) != 1:
			r.Bad("C11.T4", k, p.Pos(loop.Pos()), fmt.Sprintf("on %s the consumer sends %d milestones, exactly one is required", pr[1], len(ed.sends)))
		case len(ed.storedKeys) != 0:
			r.Bad("C11.T4", k, p.Pos(loop.Pos()), fmt.Sprintf("on %s the consumer also stores the event under %v", pr[1], ed.storedKeys))
		case usedStart != pr[0]:
			r.Bad("C11.T4", k, p.Pos(loop.Pos()), fmt.Sprintf("the milestone for %s is built from the stored event %q instead of %s", pr[1], usedStart, pr[0]))
		default:
			r.OK("C11.T4", k, p.Pos(loop.Pos()), fmt.Sprintf("%s stored; %s sends one milestone built from it", pr[0], pr[1]))
		}
		if label != "" {
			r.Check(label == st, "C11.T4", key+"#label:"+st, p.Pos(loop.Pos()), "the milestone of "+pr[1]+" is labelled "+label, fmt.Sprintf("the milestone built for %s is labelled %q", pr[1], label))
		}
	}
	// the milestone channel is closed exactly once, after the loop
	closes, inLoop := 0, 0
	ast.Inspect(fd.Body, func(n ast.Node) bool {
		call, ok := n.(*ast.CallExpr)
		if !ok {
			return true
		}
		if id, ok := call.Fun.(*ast.Ident); ok && id.Name == "close" && info.Uses[id] == types.Universe.Lookup("close") {
			closes++
			if call.Pos() > loop.Pos() && call.End() < loop.End() {
				inLoop++
			}
		}
		return true
	})
	r.Check(closes == 1 && inLoop == 0, "C11.T4", key+"#close", p.Pos(fd.Pos()), "the milestone channel is closed once, after the event loop", fmt.Sprintf("close is called %d time(s), %d inside the event loop", closes, inLoop))
}
