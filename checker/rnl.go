package main

import (
	"flag"
	"fmt"
	"go/ast"
	"go/types"
	"os"
	"sort"
	"strings"
)

// cmdRNL is a self-test aid like s2c: in a SCRATCH copy of the repository it renames every local variable and every
// parameter (receivers and named results included) of the hand-written packages by appending a suffix.  Behaviour is
// unchanged; running the 18 checks on the result shows which rules depend on what a variable is called.
// usage: acvlint rnl -repo <scratch dir>
func cmdRNL(args []string) int {
	fs := flag.NewFlagSet("rnl", flag.ExitOnError)
	repo := fs.String("repo", "", "scratch working tree (files are rewritten in place)")
	suffix := fs.String("suffix", "Q", "suffix appended to every local name")
	fs.Parse(args)
	if *repo == "" || *repo == "/repo" {
		fmt.Fprintln(os.Stderr, "rnl rewrites files: give it a scratch worktree, never /repo")
		return 2
	}
	p, err := Load(*repo, "", "")
	if err != nil {
		fmt.Fprintln(os.Stderr, err)
		return 2
	}
	total := 0
	for _, pk := range p.modPkgsSorted() {
		info := pk.TypesInfo
		for _, file := range pk.Syntax {
			name := p.Fset.Position(file.Pos()).Filename
			if strings.HasSuffix(name, "_test.go") || strings.HasSuffix(name, "peg.go") {
				continue
			}
			src, err := os.ReadFile(name)
			if err != nil {
				continue
			}
			var offs []int
			local := func(o types.Object) bool {
				v, ok := o.(*types.Var)
				if !ok || v.IsField() || v.Pkg() == nil || v.Parent() == nil || v.Parent() == v.Pkg().Scope() || v.Name() == "_" {
					return false
				}
				return true
			}
			ast.Inspect(file, func(n ast.Node) bool {
				// `switch e := x.(type)`: the defining identifier has no object of its own (one implicit object per clause)
				if ts, ok := n.(*ast.TypeSwitchStmt); ok {
					if as, ok := ts.Assign.(*ast.AssignStmt); ok && len(as.Lhs) == 1 {
						if id, ok := as.Lhs[0].(*ast.Ident); ok && id.Name != "_" {
							offs = append(offs, p.Fset.Position(id.End()).Offset)
						}
					}
				}
				id, ok := n.(*ast.Ident)
				if !ok {
					return true
				}
				o := info.Defs[id]
				if o == nil {
					o = info.Uses[id]
				}
				if o != nil && local(o) {
					offs = append(offs, p.Fset.Position(id.End()).Offset)
				}
				return true
			})
			// composite literal keys and selector fields are not in Defs/Uses as locals, so only true locals are renamed
			if len(offs) == 0 {
				continue
			}
			sort.Sort(sort.Reverse(sort.IntSlice(offs)))
			out := string(src)
			last := -1
			for _, o := range offs {
				if o == last {
					continue
				}
				last = o
				out = out[:o] + *suffix + out[o:]
			}
			if err := os.WriteFile(name, []byte(out), 0o644); err != nil {
				fmt.Fprintln(os.Stderr, err)
				return 2
			}
			total += len(offs)
		}
	}
	fmt.Printf("identifiers renamed: %d\n", total)
	return 0
}
