package main

import (
	"go/token"
	"go/types"
	"strings"

	"golang.org/x/tools/go/ssa"
)

// PanicSite is one instruction that can raise a run-time panic.
type PanicSite struct {
	Fn    *ssa.Function
	Instr ssa.Instruction
	Kind  string // "panic", "type-assert", "index", "slice", "nil-deref", "nil-map-write", "div", "send/close"
	What  string
}

// pureExternal lists dependency functions that the analysis treats as unable to panic for any argument values
// the module can construct (constructors and formatters of the standard library).
var pureExternal = map[string]bool{
	"time.Now": true, "errors.New": true, "fmt.Sprintf": true, "fmt.Errorf": true, "fmt.Sprint": true, "fmt.Sprintln": true,
	"strings.Join": true, "strings.ReplaceAll": true, "strings.ToLower": true, "strings.Contains": true, "strings.HasPrefix": true,
	"strings.HasSuffix": true, "strings.Split": true, "strings.SplitN": true, "strings.Index": true, "strings.Title": true, "strings.TrimSuffix": true,
	"strings.Compare": true, "strings.Fields": true, "strings.TrimSpace": true, "strings.TrimPrefix": true,
	"strconv.Itoa": true, "strconv.Atoi": true, "strconv.ParseBool": true, "strconv.ParseFloat": true, "strconv.FormatFloat": true,
	"strconv.FormatBool": true, "strconv.Quote": true, "context.Background": true, "bytes.NewBuffer": true, "sort.Strings": true,
	"(*bytes.Buffer).String": true, "(time.Time).Format": true, "(time.Time).Sub": true, "time.Date": true,
	"sync/atomic.AddInt64": true, "sync/atomic.StoreInt64": true, "sync/atomic.LoadInt64": true,
	"(*sync.Mutex).Lock": true, "(*sync.Mutex).Unlock": true, "(*sync.RWMutex).Lock": true, "(*sync.RWMutex).Unlock": true,
	"(*sync.RWMutex).RLock": true, "(*sync.RWMutex).RUnlock": true,
	"(error).Error": true,
}

func funcFullName(o types.Object) string {
	if f, ok := o.(*types.Func); ok {
		return f.FullName()
	}
	if o != nil {
		return o.Name()
	}
	return ""
}

// localPanicSites lists the potential panic sites of one function body (not following calls).
func localPanicSites(fn *ssa.Function) []PanicSite {
	var out []PanicSite
	add := func(ins ssa.Instruction, kind, what string) {
		out = append(out, PanicSite{Fn: fn, Instr: ins, Kind: kind, What: what})
	}
	for _, b := range fn.Blocks {
		if b == fn.Recover {
			continue
		}
		for _, ins := range b.Instrs {
			switch x := ins.(type) {
			case *ssa.Panic:
				add(ins, "panic", "explicit panic")
			case *ssa.TypeAssert:
				if !x.CommaOk {
					add(ins, "type-assert", "unchecked type assertion to "+types.TypeString(x.AssertedType, shortQual))
				}
			case *ssa.IndexAddr:
				if _, isArrPtr := x.X.Type().Underlying().(*types.Pointer); isArrPtr {
					// index into *[N]T: in range when the index is a constant (checked by the compiler)
					if _, ok := x.Index.(*ssa.Const); ok {
						continue
					}
				}
				if indexProvenInRange(x.X, x.Index) {
					continue
				}
				add(ins, "index", "index expression")
			case *ssa.Index:
				if _, ok := x.X.Type().Underlying().(*types.Array); ok {
					if _, ok := x.Index.(*ssa.Const); ok {
						continue
					}
				}
				add(ins, "index", "index expression")
			case *ssa.Slice:
				if x.Low == nil && x.High == nil && x.Max == nil {
					continue // s[:] cannot fail (for a pointer to array: nil deref only)
				}
				if sliceProvenInRange(x) {
					continue
				}
				add(ins, "slice", "slice expression")
			case *ssa.BinOp:
				if x.Op == token.QUO || x.Op == token.REM {
					if bt, ok := x.X.Type().Underlying().(*types.Basic); ok && bt.Info()&types.IsInteger != 0 {
						if c, ok := x.Y.(*ssa.Const); ok && c.Value != nil && c.Int64() != 0 {
							continue
						}
						add(ins, "div", "integer division")
					}
				}
			case *ssa.MapUpdate:
				if !nonNilMap(x.Map) {
					add(ins, "nil-map-write", "map update")
				}
			case *ssa.UnOp:
				if x.Op == token.MUL && !nonNilPointer(x.X) {
					add(ins, "nil-deref", "pointer dereference of "+x.X.Name())
				}
			case *ssa.FieldAddr:
				if !nonNilPointer(x.X) {
					add(ins, "nil-deref", "field access through pointer "+x.X.Name())
				}
			}
		}
	}
	return out
}

func shortQual(p *types.Package) string { return p.Name() }

// nonNilPointer: the pointer value is syntactically non-nil (address of a local, a global, a fresh allocation, a field
// address, the receiver-independent results of make/new) or has been compared with nil on a dominating branch.
func nonNilPointer(v ssa.Value) bool {
	switch x := v.(type) {
	case *ssa.Alloc, *ssa.Global, *ssa.FieldAddr, *ssa.IndexAddr, *ssa.MakeInterface, *ssa.FreeVar:
		return true
	case *ssa.Phi:
		for _, e := range x.Edges {
			if e == v {
				continue
			}
			if !nonNilPointer(e) {
				return false
			}
		}
		return true
	case *ssa.Parameter, *ssa.Call, *ssa.Extract, *ssa.UnOp, *ssa.Lookup, *ssa.TypeAssert, *ssa.Field:
		return guardedNonNil(v)
	}
	return false
}

// guardedNonNil: every use site is irrelevant here; we ask whether v is nil-checked by an If that dominates all of v's
// dereferences. Approximated per value: some `v != nil` / `v == nil` test exists whose guarded successor dominates
// every dereference of v in the function.
func guardedNonNil(v ssa.Value) bool {
	refs := v.Referrers()
	if refs == nil {
		return false
	}
	var guards []*ssa.BasicBlock // blocks in which v is known non-nil (and everything they dominate)
	for _, r := range *refs {
		bo, ok := r.(*ssa.BinOp)
		if !ok || (bo.Op != token.EQL && bo.Op != token.NEQ) {
			continue
		}
		if !(isNilConst(bo.X) || isNilConst(bo.Y)) {
			continue
		}
		if bo.Referrers() == nil {
			continue
		}
		for _, rr := range *bo.Referrers() {
			if iff, ok := rr.(*ssa.If); ok {
				blk := iff.Block()
				if bo.Op == token.NEQ {
					guards = append(guards, blk.Succs[0])
				} else {
					guards = append(guards, blk.Succs[1])
				}
			}
		}
	}
	if len(guards) == 0 {
		return false
	}
	for _, r := range *refs {
		deref := false
		switch x := r.(type) {
		case *ssa.UnOp:
			deref = x.Op == token.MUL && x.X == v
		case *ssa.FieldAddr:
			deref = x.X == v
		case *ssa.Store:
			deref = x.Addr == v
		}
		if !deref {
			continue
		}
		ok := false
		for _, g := range guards {
			// the guarded block must have the test block as its only predecessor, else the fact does not hold there
			if len(g.Preds) == 1 && (g == r.Block() || g.Dominates(r.Block())) {
				ok = true
			}
		}
		if !ok {
			return false
		}
	}
	return true
}

func nonNilMap(v ssa.Value) bool {
	switch x := v.(type) {
	case *ssa.MakeMap:
		return true
	case *ssa.Phi:
		for _, e := range x.Edges {
			if e != v && !nonNilMap(e) {
				return false
			}
		}
		return true
	case *ssa.UnOp:
		// load of a local that only ever holds make(map) results, or of a parameter pointer (*m): unknown
		if x.Op == token.MUL {
			if a, ok := x.X.(*ssa.Alloc); ok {
				return allocOnlyHolds(a, func(s ssa.Value) bool { return nonNilMap(s) })
			}
		}
	case *ssa.ChangeType:
		return nonNilMap(x.X)
	}
	return false
}

func allocOnlyHolds(a *ssa.Alloc, pred func(ssa.Value) bool) bool {
	if a.Referrers() == nil {
		return false
	}
	stores := 0
	for _, r := range *a.Referrers() {
		switch x := r.(type) {
		case *ssa.Store:
			if x.Addr == a {
				stores++
				if !pred(x.Val) {
					return false
				}
			} else {
				return false // address escapes
			}
		case *ssa.UnOp, *ssa.DebugRef:
		default:
			return false
		}
	}
	return stores > 0
}

// indexProvenInRange recognises the two idioms the repository uses: indexing with the key of a `range` over the same
// slice, and indexing a freshly allocated array (variadic argument packs) with a constant.
func indexProvenInRange(x, idx ssa.Value) bool {
	if a, ok := x.(*ssa.Alloc); ok {
		if pt, ok := a.Type().Underlying().(*types.Pointer); ok {
			if at, ok := pt.Elem().Underlying().(*types.Array); ok {
				if c, ok := idx.(*ssa.Const); ok && c.Value != nil && c.Int64() >= 0 && c.Int64() < at.Len() {
					return true
				}
			}
		}
	}
	// rotated range loop: idx is a phi whose increments are guarded by idx < len(x)
	if phi, ok := idx.(*ssa.Phi); ok {
		return rangeIndexOf(phi, x)
	}
	if bo, ok := idx.(*ssa.BinOp); ok && bo.Op == token.ADD {
		// i+1 form of the rotated loop header: value = phi + 1 compared against len before the access
		if phi, ok := bo.X.(*ssa.Phi); ok {
			return rangeIndexOf(phi, x) && lessThanLenGuard(bo, x)
		}
	}
	return false
}

// rangeIndexOf: phi = [ -1 | 0 , phi+1 ] and the access happens on the branch where (phi+1 | phi) < len(x).
func rangeIndexOf(phi *ssa.Phi, x ssa.Value) bool {
	if phi.Referrers() == nil {
		return false
	}
	for _, r := range *phi.Referrers() {
		if bo, ok := r.(*ssa.BinOp); ok && bo.Op == token.LSS && bo.X == phi {
			if isLenOf(bo.Y, x) {
				return true
			}
		}
	}
	// `for i := range s` in go/ssa: t = phi [-1, t+1]; t+1 < len(s)
	for _, e := range phi.Edges {
		if bo, ok := e.(*ssa.BinOp); ok && bo.Op == token.ADD && bo.X == phi {
			return lessThanLenGuard(bo, x)
		}
	}
	return false
}

func lessThanLenGuard(v ssa.Value, x ssa.Value) bool {
	if v.Referrers() == nil {
		return false
	}
	for _, r := range *v.Referrers() {
		if bo, ok := r.(*ssa.BinOp); ok && bo.Op == token.LSS && bo.X == v && isLenOf(bo.Y, x) {
			return true
		}
	}
	return false
}

func isLenOf(v ssa.Value, x ssa.Value) bool {
	c, ok := v.(*ssa.Call)
	if !ok {
		return false
	}
	b, ok := c.Call.Value.(*ssa.Builtin)
	if !ok || b.Name() != "len" || len(c.Call.Args) != 1 {
		return false
	}
	return sameSliceValue(c.Call.Args[0], x)
}

func sameSliceValue(a, b ssa.Value) bool {
	if a == b {
		return true
	}
	// two loads of the same (unmodified between) field/cell are treated as the same only if they are the same SSA value
	return false
}

// sliceProvenInRange: s[:n] where n was just established as n <= len(s) is not recognised; only s[i:] / s[:i] with
// i a constant 0 is.
func sliceProvenInRange(x *ssa.Slice) bool {
	isZero := func(v ssa.Value) bool {
		if v == nil {
			return true
		}
		c, ok := v.(*ssa.Const)
		return ok && c.Value != nil && c.Int64() == 0
	}
	return isZero(x.Low) && x.High == nil && x.Max == nil
}

// PanicFree computes, for module functions, whether the function (and everything it calls) is free of panic sites
// under the analysis above.  External callees are panic-free only when listed in pureExternal.
type PanicFree struct {
	p     *Prog
	memo  map[*ssa.Function]int // 0 unknown, 1 in progress, 2 free, 3 may panic
	Sites map[*ssa.Function][]PanicSite
}

func NewPanicFree(p *Prog) *PanicFree {
	return &PanicFree{p: p, memo: map[*ssa.Function]int{}, Sites: map[*ssa.Function][]PanicSite{}}
}

func (pf *PanicFree) Free(fn *ssa.Function) bool {
	switch pf.memo[fn] {
	case 2:
		return true
	case 3:
		return false
	case 1:
		return true // optimistic on recursion; a site anywhere in the cycle still marks its own function
	}
	pf.memo[fn] = 1
	free := true
	if fn.Blocks == nil {
		free = false
	}
	sites := localPanicSites(fn)
	pf.Sites[fn] = sites
	if len(sites) > 0 {
		free = false
	}
	if free {
	outer:
		for _, b := range fn.Blocks {
			for _, ins := range b.Instrs {
				call, ok := ins.(ssa.CallInstruction)
				if !ok {
					continue
				}
				if _, isGo := ins.(*ssa.Go); isGo {
					free = false
					break outer
				}
				cc := call.Common()
				if _, ok := cc.Value.(*ssa.Builtin); ok {
					if b := cc.Value.(*ssa.Builtin); b.Name() == "close" {
						free = false
						break outer
					}
					continue
				}
				if cc.IsInvoke() {
					if pureExternal[funcFullName(cc.Method)] {
						continue
					}
					free = false
					break outer
				}
				callee := cc.StaticCallee()
				if callee == nil {
					free = false
					break outer
				}
				if IsModuleFunc(callee) {
					if !pf.Free(callee) {
						free = false
						break outer
					}
					continue
				}
				name := ""
				if o := callee.Object(); o != nil {
					name = funcFullName(o)
				}
				if !pureExternal[name] {
					free = false
					break outer
				}
			}
		}
	}
	if free {
		pf.memo[fn] = 2
	} else {
		pf.memo[fn] = 3
	}
	return free
}

// hasRecoverBoundary reports whether fn defers, in its entry block before any call that can panic, a module
// function that calls recover() directly and stores an error through a pointer argument that points to one of fn's
// named results (or that assigns a named result directly, for closures).
func hasRecoverBoundary(fn *ssa.Function) (bool, string) {
	if fn == nil || len(fn.Blocks) == 0 {
		return false, "no body"
	}
	if fn.Recover == nil {
		return false, "no deferred call"
	}
	entry := fn.Blocks[0]
	for _, ins := range entry.Instrs {
		switch x := ins.(type) {
		case *ssa.Defer:
			callee := x.Call.StaticCallee()
			if callee == nil {
				if mc, ok := x.Call.Value.(*ssa.MakeClosure); ok {
					callee, _ = mc.Fn.(*ssa.Function)
				}
			}
			if callee == nil || callee.Blocks == nil {
				continue
			}
			if !callsRecoverDirectly(callee) {
				continue
			}
			// the error result must be assigned on the recovered branch
			if !assignsErrorOnRecover(callee) {
				return false, "the deferred function recovers but does not assign an error on the recovered branch"
			}
			// ... and what it assigns must be this function's error result: the pointer argument (or captured variable)
			// is the cell that the recover block returns in the error position
			if !deferTargetsErrorResult(fn, x) {
				return false, "the deferred function assigns an error, but not to the error result this function returns after recovery"
			}
			return true, "defer " + callee.Name()
		case *ssa.Call:
			// calls before the defer that cannot panic are fine; anything else means the boundary does not cover it
			if _, ok := x.Call.Value.(*ssa.Builtin); ok {
				continue
			}
			return false, "a call precedes the deferred recover"
		case *ssa.Alloc, *ssa.Store, *ssa.DebugRef, *ssa.MakeClosure, *ssa.MakeInterface, *ssa.UnOp, *ssa.FieldAddr, *ssa.ChangeType:
			continue
		case *ssa.If, *ssa.Jump, *ssa.Return:
			return false, "no deferred recover in the entry block"
		}
	}
	return false, "no deferred recover in the entry block"
}

func callsRecoverDirectly(fn *ssa.Function) bool {
	for _, b := range fn.Blocks {
		for _, ins := range b.Instrs {
			if c, ok := ins.(*ssa.Call); ok {
				if bi, ok := c.Call.Value.(*ssa.Builtin); ok && bi.Name() == "recover" {
					return true
				}
			}
		}
	}
	return false
}

// assignsErrorOnRecover: in the deferred function, a store of an error-typed value through a pointer parameter or
// free variable is control-dependent on `recover() != nil`.
func assignsErrorOnRecover(fn *ssa.Function) bool {
	for _, b := range fn.Blocks {
		for _, ins := range b.Instrs {
			st, ok := ins.(*ssa.Store)
			if !ok {
				continue
			}
			if !isErrorType(st.Val.Type()) {
				continue
			}
			switch st.Addr.(type) {
			case *ssa.Parameter, *ssa.FreeVar:
			default:
				continue
			}
			if isNilConst(st.Val) {
				continue
			}
			// the block must be reached only when recover() returned non-nil
			if blockGuardedByRecover(b) {
				return true
			}
		}
	}
	return false
}

func blockGuardedByRecover(b *ssa.BasicBlock) bool {
	for d := b; d != nil; d = d.Idom() {
		if len(d.Preds) != 1 {
			continue
		}
		pred := d.Preds[0]
		iff, ok := pred.Instrs[len(pred.Instrs)-1].(*ssa.If)
		if !ok {
			continue
		}
		x, trueMeansNil, ok := nilTest(iff.Cond)
		if !ok {
			continue
		}
		c, ok := x.(*ssa.Call)
		if !ok {
			continue
		}
		if bi, ok := c.Call.Value.(*ssa.Builtin); !ok || bi.Name() != "recover" {
			continue
		}
		nonNilSucc := pred.Succs[0]
		if trueMeansNil {
			nonNilSucc = pred.Succs[1]
		}
		if nonNilSucc == d {
			return true
		}
	}
	return false
}

func isErrorType(t types.Type) bool {
	n, ok := t.(*types.Named)
	return ok && n.Obj().Pkg() == nil && n.Obj().Name() == "error"
}

func resultHasError(sig *types.Signature) int {
	for i := 0; i < sig.Results().Len(); i++ {
		if isErrorType(sig.Results().At(i).Type()) {
			return i
		}
	}
	return -1
}

func isStdlib(path string) bool {
	if path == "" {
		return true
	}
	first := path
	if i := strings.Index(path, "/"); i >= 0 {
		first = path[:i]
	}
	return !strings.Contains(first, ".")
}

// deferTargetsErrorResult: some pointer-to-error argument (or closure binding) of the deferred call is a local cell
// whose value the function's recover block returns as its error result.
func deferTargetsErrorResult(fn *ssa.Function, d *ssa.Defer) bool {
	if fn.Recover == nil {
		return false
	}
	var ret *ssa.Return
	for _, ins := range fn.Recover.Instrs {
		if r, ok := ins.(*ssa.Return); ok {
			ret = r
		}
	}
	if ret == nil {
		return false
	}
	errIdx := resultHasError(fn.Signature)
	if errIdx < 0 || errIdx >= len(ret.Results) {
		return false
	}
	ld, ok := ret.Results[errIdx].(*ssa.UnOp)
	if !ok {
		return false
	}
	cell, ok := ld.X.(*ssa.Alloc)
	if !ok {
		return false
	}
	for _, a := range d.Call.Args {
		if a == ssa.Value(cell) {
			return true
		}
	}
	if mc, ok := d.Call.Value.(*ssa.MakeClosure); ok {
		for _, b := range mc.Bindings {
			if b == ssa.Value(cell) {
				return true
			}
		}
	}
	return false
}
