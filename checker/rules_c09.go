package main

import (
	"fmt"
	"go/types"
	"sort"
	"strings"

	"golang.org/x/tools/go/ssa"
)

func init() { register("C09", checkC09) }

func isPreparedQuery(t types.Type) bool {
	if pt, ok := t.(*types.Pointer); ok {
		t = pt.Elem()
	}
	n, ok := t.(*types.Named)
	return ok && n.Obj().Name() == "PreparedEvalQuery" && objPkgPath(n.Obj()) == opaPath+"/rego"
}

func isStringType(t types.Type) bool {
	b, ok := t.Underlying().(*types.Basic)
	return ok && b.Kind() == types.String
}

type c09Kind int

const (
	kOther c09Kind = iota
	kCompile
	kValidateCompiled
	kValidateText
)

func c09Classify(fn *ssa.Function) c09Kind {
	sig := fn.Signature
	res := sig.Results()
	if res.Len() != 2 || !isErrorType(res.At(1).Type()) {
		return kOther
	}
	hasCompiledParam := false
	for i := 0; i < sig.Params().Len(); i++ {
		if isPreparedQuery(sig.Params().At(i).Type()) {
			hasCompiledParam = true
		}
	}
	switch {
	case isPreparedQuery(res.At(0).Type()) && !hasCompiledParam:
		return kCompile
	case isStringType(res.At(0).Type()) && hasCompiledParam:
		return kValidateCompiled
	case isStringType(res.At(0).Type()) && sig.Params().Len() >= 2 && isStringType(sig.Params().At(0).Type()) && isStringType(sig.Params().At(1).Type()):
		return kValidateText
	}
	return kOther
}

// moduleCallsOf lists the static calls of fn to module functions of the given kind.
func moduleCallsOf(fn *ssa.Function, want func(*ssa.Function) bool) []*ssa.Call {
	var out []*ssa.Call
	for _, b := range fn.Blocks {
		for _, ins := range b.Instrs {
			if c, ok := ins.(*ssa.Call); ok {
				if f := c.Call.StaticCallee(); f != nil && IsModuleFunc(f) && want(f) {
					out = append(out, c)
				}
			}
		}
	}
	return out
}

// returnsResultsOf: every return of fn yields the results of call (the error component is the call's error; the value
// component is the call's value or a zero constant on an error branch).
func returnsResultsOf(fn *ssa.Function, call *ssa.Call) (bool, string) {
	n := 0
	for _, b := range fn.Blocks {
		if b == fn.Recover {
			continue
		}
		for _, ins := range b.Instrs {
			ret, ok := ins.(*ssa.Return)
			if !ok {
				continue
			}
			n++
			if len(ret.Results) != 2 {
				return false, "unexpected result count"
			}
			for i, rv := range ret.Results {
				rv = seeThroughHelper(rv)
				isZero := false
				if c, ok := rv.(*ssa.Const); ok {
					isZero = c.Value == nil || (c.Value.ExactString() == `""`)
				}
				ex, ok := rv.(*ssa.Extract)
				fromCall := ok && ex.Tuple == ssa.Value(call) && ex.Index == i
				if i == 1 && !fromCall {
					// `return v, nil` on the branch where the call's error was found to be nil is the same value
					if c, isConst := rv.(*ssa.Const); isConst && c.IsNil() {
						if errEx := extractOf(call, 1); errEx != nil && dominatedByNilBranch(errEx, ret.Block()) {
							continue
						}
					}
				}
				if i == 1 && !fromCall {
					return false, "a return does not propagate the error of " + calleeName(call)
				}
				if i == 0 && !fromCall && !isZero {
					return false, "a return yields a value that is neither the result of " + calleeName(call) + " nor a zero value"
				}
			}
		}
	}
	if n == 0 {
		return false, "no return"
	}
	return true, ""
}

// argsArePassThrough: each argument of call is the caller's parameter of the same name/type (order as the callee
// declares), the value result of `from` (when given), or a default configuration built from constants.
func argsArePassThrough(fn *ssa.Function, call *ssa.Call, from *ssa.Call) (bool, string) {
	usedParam := map[*ssa.Parameter]bool{}
	for i, a := range call.Call.Args {
		switch x := a.(type) {
		case *ssa.Parameter:
			if usedParam[x] {
				return false, fmt.Sprintf("parameter %s is passed twice", x.Name())
			}
			usedParam[x] = true
			// the parameter must land in a position of the same type
			if !types.Identical(x.Type(), call.Call.Signature().Params().At(i).Type()) {
				return false, fmt.Sprintf("argument %d changes type", i)
			}
		case *ssa.Extract:
			if from == nil || x.Tuple != ssa.Value(from) || x.Index != 0 {
				return false, fmt.Sprintf("argument %d is not a parameter of the caller nor the compiled profile just obtained", i)
			}
		default:
			if isDefaultConfig(a) {
				continue
			}
			return false, fmt.Sprintf("argument %d (%s) is computed in the wrapper", i, a.Name())
		}
	}
	// two parameters of the same type must keep their relative order (profile text before data text)
	last := -1
	for _, a := range call.Call.Args {
		if prm, ok := a.(*ssa.Parameter); ok && isStringType(prm.Type()) {
			idx := -1
			for k, fp := range fn.Params {
				if fp == prm {
					idx = k
				}
			}
			if idx < last {
				return false, "string parameters are passed in a different order"
			}
			last = idx
		}
	}
	return true, ""
}

// isDefaultConfig: a value built without reference to any parameter: a call to a module function of pkg/config with no
// arguments, or an interface made from an empty struct literal.
func isDefaultConfig(v ssa.Value) bool {
	switch x := v.(type) {
	case *ssa.Call:
		f := x.Call.StaticCallee()
		return f != nil && IsModuleFunc(f) && RelPkg(f) == "pkg/config" && len(x.Call.Args) == 0
	case *ssa.MakeInterface:
		return isDefaultConfig(x.X)
	case *ssa.UnOp:
		if a, ok := x.X.(*ssa.Alloc); ok {
			// zero-valued local struct (DefaultValidationConfiguration{})
			for _, ref := range nonDebugRefs(a) {
				if _, isStore := ref.(*ssa.Store); isStore {
					return false
				}
			}
			return true
		}
	case *ssa.Const:
		return true
	}
	return false
}

func checkC09(c *Ctx) {
	r, p := c.R, c.P
	r.Explanation = "Decides the two structural facts that make 'a precompiled profile is equivalent to its source and reusable' true by construction. (S1) Delegation: every function that validates from profile text either passes all its parameters through to another such function, or is the composition compile-then-validate: it calls exactly one compile function with its own profile parameter and exactly one validate-with-compiled function with the compiled value just obtained plus its own remaining parameters, and returns that call's results; the public compile entry point delegates to the same compile function and every public validate-with-compiled entry point delegates to the same validate-with-compiled function, so both routes execute the same code on the same arguments. (S2) No state survives a validation: no package-level variable is written (by assignment, through an alias or atomically) in reach of the validate-with-compiled function, the compiled profile is never written through or handed to anything but Eval, and the evaluated input is derived on each call from that call's data text (shared rule with C04.E3). Does not decide that OPA's Eval leaves the prepared query unchanged and returns fresh values."
	r.Declines = []string{"OPA's PreparedEvalQuery.Eval does not mutate the prepared query and returns fresh result values (documented; trusted)"}
	r.Trusted = []string{"OPA rego.PreparedEvalQuery is immutable under Eval"}
	r.Rule("C09.S1", "text-validation = compile + validate-compiled on unchanged arguments; public wrappers are pass-throughs to the same two functions", 7)
	r.Rule("C09.S2", "no package-level state is written in reach of validate-with-compiled; the compiled profile is only read", 3)

	var compileFns, vcFns, vtFns []*ssa.Function
	for _, fn := range p.ModuleFuncs() {
		if fn.Parent() != nil || fn.Signature.Recv() != nil {
			continue
		}
		rel := RelPkg(fn)
		if rel != "pkg" && rel != "internal/validator" {
			continue
		}
		switch c09Classify(fn) {
		case kCompile:
			compileFns = append(compileFns, fn)
		case kValidateCompiled:
			vcFns = append(vcFns, fn)
		case kValidateText:
			vtFns = append(vtFns, fn)
		}
	}
	isKind := func(k c09Kind) func(*ssa.Function) bool {
		return func(f *ssa.Function) bool { return c09Classify(f) == k }
	}
	r.Analysed["compile_functions"] = funcNames(compileFns)
	r.Analysed["validate_compiled_functions"] = funcNames(vcFns)
	r.Analysed["validate_text_functions"] = funcNames(vtFns)

	// resolve the delegation target of pass-through functions
	var core struct{ compile, validate *ssa.Function }
	delegate := map[*ssa.Function]*ssa.Function{}

	// text validators
	for _, fn := range vtFns {
		key := FuncKey(fn)
		if strings.HasSuffix(p.Fset.Position(fn.Pos()).Filename, "test_utils.go") {
			continue // test helpers compiled into the package
		}
		vt := moduleCallsOf(fn, isKind(kValidateText))
		cp := moduleCallsOf(fn, isKind(kCompile))
		vc := moduleCallsOf(fn, isKind(kValidateCompiled))
		switch {
		case len(vt) == 1 && len(cp) == 0 && len(vc) == 0:
			ok1, why1 := argsArePassThrough(fn, vt[0], nil)
			ok2, why2 := returnsResultsOf(fn, vt[0])
			if ok1 && ok2 {
				r.OK("C09.S1", key, p.Pos(fn.Pos()), "pass-through to "+calleeName(vt[0]))
				delegate[fn] = vt[0].Call.StaticCallee()
			} else {
				r.Bad("C09.S1", key, p.Pos(fn.Pos()), "not a pure pass-through to "+calleeName(vt[0])+": "+why1+why2)
			}
		case len(cp) == 1 && len(vc) == 1 && len(vt) == 0:
			okc, whyc := argsArePassThrough(fn, cp[0], nil)
			okv, whyv := argsArePassThrough(fn, vc[0], cp[0])
			okr, whyr := returnsResultsOf(fn, vc[0])
			// the compiled argument really is the compile result
			usesCompiled := false
			for _, a := range vc[0].Call.Args {
				if ex, ok := a.(*ssa.Extract); ok && ex.Tuple == ssa.Value(cp[0]) && ex.Index == 0 {
					usesCompiled = true
				}
			}
			// the profile text goes to the compile call, the data text to the validate call
			profToCompile := len(cp[0].Call.Args) > 0 && cp[0].Call.Args[0] == ssa.Value(fn.Params[0])
			dataToValidate := false
			for _, a := range vc[0].Call.Args {
				if a == ssa.Value(fn.Params[1]) {
					dataToValidate = true
				}
			}
			// returns: the error-branch return after a failed compile is allowed; all other returns are the validate call's
			okr2 := okr
			if !okr {
				okr2, whyr = returnsCompose(fn, cp[0], vc[0])
			}
			if okc && okv && okr2 && usesCompiled && profToCompile && dataToValidate {
				r.OK("C09.S1", key, p.Pos(fn.Pos()), fmt.Sprintf("composition: %s then %s on unchanged arguments", calleeName(cp[0]), calleeName(vc[0])))
				core.compile, core.validate = cp[0].Call.StaticCallee(), vc[0].Call.StaticCallee()
			} else {
				r.Bad("C09.S1", key, p.Pos(fn.Pos()), fmt.Sprintf("compile-then-validate composition is not argument-preserving: %s %s %s compiled-used=%v profile->compile=%v data->validate=%v", whyc, whyv, whyr, usesCompiled, profToCompile, dataToValidate))
			}
		default:
			r.Bad("C09.S1", key, p.Pos(fn.Pos()), fmt.Sprintf("a text-validation function that is neither a pass-through nor one compile + one validate-with-compiled call (%d/%d/%d calls): the precompiled route may execute different code", len(vt), len(cp), len(vc)))
		}
	}
	if core.compile == nil {
		r.Unknown("C09.S1", "composition", "", "no function composing compile and validate-with-compiled was found")
		return
	}
	// resolve chains
	resolve := func(f *ssa.Function) *ssa.Function {
		for i := 0; i < 10; i++ {
			if d, ok := delegate[f]; ok {
				f = d
			} else {
				break
			}
		}
		return f
	}
	// compile functions: the public one must delegate to core.compile
	for _, fn := range compileFns {
		key := FuncKey(fn)
		if fn == core.compile {
			r.OK("C09.S1", key, p.Pos(fn.Pos()), "the compile function used by the text route")
			continue
		}
		calls := moduleCallsOf(fn, isKind(kCompile))
		if RelPkg(fn) != "pkg" {
			// inner stages (CompileRego) are parts of core.compile
			if p.Reach(core.compile)[fn] {
				continue
			}
		}
		if len(calls) == 1 && calls[0].Call.StaticCallee() == core.compile {
			ok1, why1 := argsArePassThrough(fn, calls[0], nil)
			ok2, why2 := returnsResultsOf(fn, calls[0])
			r.Check(ok1 && ok2, "C09.S1", key, p.Pos(fn.Pos()), "pass-through to the compile function of the text route", "does not pass its arguments through to / return the results of "+FuncKey(core.compile)+": "+why1+why2)
		} else {
			r.Bad("C09.S1", key, p.Pos(fn.Pos()), "a compile entry point that does not delegate to "+FuncKey(core.compile)+", the compile function the text route uses")
		}
	}
	// inner stages: unexported functions with the same shape of signature that only the core validate function (and its own
	// stages) call are parts of it, not alternative routes
	vreach := p.Reach(core.validate)
	innerStage := map[*ssa.Function]bool{}
	for _, fn := range vcFns {
		if fn == core.validate || !vreach[fn] || (fn.Object() != nil && fn.Object().Exported()) {
			continue
		}
		onlyFromCore := true
		for _, caller := range p.ModuleFuncs() {
			if caller == fn || caller == core.validate || vreach[caller] {
				continue
			}
			for _, callee := range p.ModuleCallees(caller) {
				if callee == fn {
					onlyFromCore = false
				}
			}
		}
		if onlyFromCore {
			innerStage[fn] = true
			r.OK("C09.S1", FuncKey(fn), p.Pos(fn.Pos()), "an inner stage of "+FuncKey(core.validate)+" (unexported, called from nowhere else)")
		}
	}
	for _, fn := range vcFns {
		key := FuncKey(fn)
		if innerStage[fn] {
			continue
		}
		if fn == core.validate {
			r.OK("C09.S1", key, p.Pos(fn.Pos()), "the validate-with-compiled function used by the text route")
			continue
		}
		calls := moduleCallsOf(fn, isKind(kValidateCompiled))
		if len(calls) == 1 {
			ok1, why1 := argsArePassThrough(fn, calls[0], nil)
			ok2, why2 := returnsResultsOf(fn, calls[0])
			if ok1 && ok2 {
				delegate[fn] = calls[0].Call.StaticCallee()
			} else {
				r.Bad("C09.S1", key, p.Pos(fn.Pos()), "not a pure pass-through to "+calleeName(calls[0])+": "+why1+why2)
				continue
			}
		}
	}
	for _, fn := range vcFns {
		if fn == core.validate || innerStage[fn] {
			continue
		}
		key := FuncKey(fn)
		if _, ok := delegate[fn]; !ok {
			already := false
			for _, o := range r.Obls {
				if o.Rule == "C09.S1" && o.Construct == key {
					already = true
				}
			}
			if !already {
				r.Bad("C09.S1", key, p.Pos(fn.Pos()), "a validate-with-compiled function that does not delegate to "+FuncKey(core.validate))
			}
			continue
		}
		r.Check(resolve(fn) == core.validate, "C09.S1", key, p.Pos(fn.Pos()), "pass-through chain ends in "+FuncKey(core.validate), "the pass-through chain ends in "+FuncKey(resolve(fn))+" instead of "+FuncKey(core.validate))
	}
	for _, fn := range vtFns {
		if d, ok := delegate[fn]; ok {
			end := resolve(d)
			isComp := false
			for _, o := range r.Obls {
				if o.Rule == "C09.S1" && o.Construct == FuncKey(end) && strings.HasPrefix(o.Detail, "composition") {
					isComp = true
				}
			}
			if !isComp {
				r.Bad("C09.S1", FuncKey(fn)+"#chain", p.Pos(fn.Pos()), "the pass-through chain does not end in the compile+validate composition")
			}
		}
	}

	// ---- S2
	reach := p.Reach(core.validate)
	var funcs []*ssa.Function
	for f := range reach {
		funcs = append(funcs, f)
	}
	sort.Slice(funcs, func(i, j int) bool { return FuncKey(funcs[i]) < FuncKey(funcs[j]) })
	r.Analysed["functions_in_reach_of_validate_compiled"] = len(funcs)
	ms := newMutationSummary(p)
	stateful := 0
	for _, g := range moduleGlobals(p) {
		acc := accessesOf(p, ms, g, funcs)
		var w []string
		for _, a := range acc {
			if a.Kind == "write" || a.Kind == "alias-mutation" || a.Kind == "sync-write" || (a.Kind == "atomic" && !strings.Contains(a.Detail, ".Load")) || a.Kind == "address-escapes" {
				w = append(w, fmt.Sprintf("%s (%s: %s) at %s", FuncKey(a.Fn), a.Kind, a.Detail, p.Pos(a.Instr.Pos())))
			}
		}
		sort.Strings(w)
		if len(w) > 0 {
			stateful++
			r.Bad("C09.S2", globalKey(g), p.Pos(g.Pos()), "package-level state is written in reach of validate-with-compiled, so one validation can influence the next: "+strings.Join(w, "; "))
		}
	}
	r.OK("C09.S2", "globals", "", fmt.Sprintf("%d package-level variables examined over %d functions: %d written in reach of %s", len(moduleGlobals(p)), len(funcs), stateful, FuncKey(core.validate)))
	// the compile function must hand out a value of its own: no package-level state may be written in its reach either,
	// except monotone atomic counters (fresh names), or a later compilation could change what an earlier handle denotes
	creach := p.Reach(core.compile)
	var cfuncs []*ssa.Function
	for f := range creach {
		cfuncs = append(cfuncs, f)
	}
	sort.Slice(cfuncs, func(i, j int) bool { return FuncKey(cfuncs[i]) < FuncKey(cfuncs[j]) })
	cstate := 0
	for _, g := range moduleGlobals(p) {
		acc := accessesOf(p, ms, g, cfuncs)
		var w []string
		for _, a := range acc {
			if a.Kind == "write" || a.Kind == "alias-mutation" || a.Kind == "sync-write" || a.Kind == "address-escapes" || (a.Kind == "atomic" && (strings.Contains(a.Detail, ".Store") || strings.Contains(a.Detail, ".Swap"))) {
				w = append(w, fmt.Sprintf("%s (%s: %s) at %s", FuncKey(a.Fn), a.Kind, a.Detail, p.Pos(a.Instr.Pos())))
			}
		}
		sort.Strings(w)
		if len(w) > 0 {
			cstate++
			r.Bad("C09.S2", "compile:"+globalKey(g), p.Pos(g.Pos()), "package-level state is written in reach of the compile function, so a later compilation can change what an earlier compiled profile denotes: "+strings.Join(w, "; "))
		}
	}
	r.OK("C09.S2", "compile-globals", "", fmt.Sprintf("%d functions in reach of %s: %d package-level variables written (monotone atomic counters excepted)", len(cfuncs), FuncKey(core.compile), cstate))
	// S3: reusable after a failing document: a lock taken on the validation path is released on every exit, panics included
	locksReleasedByDefer(c, "C09.S3", "locks taken while validating are released on every exit (deferred unlock)", "every later validation with any compiled profile blocks forever", funcs)
	// the compiled profile is only read
	for _, fn := range funcs {
		for i, prm := range fn.Params {
			if !isPreparedQuery(prm.Type()) {
				continue
			}
			key := fmt.Sprintf("%s#param%d", FuncKey(fn), i)
			d := derivedValues(fn, []ssa.Value{prm})
			muts := ms.mutationsThrough(fn, d, true)
			var other []string
			for v := range d {
				for _, ref := range nonDebugRefs(v) {
					ci, ok := ref.(ssa.CallInstruction)
					if !ok {
						continue
					}
					callee := ci.Common().StaticCallee()
					if callee != nil && IsModuleFunc(callee) {
						continue
					}
					n := funcFullName(ssaCalleeObj(ci))
					if n != "("+opaPath+"/rego.PreparedEvalQuery).Eval" {
						other = append(other, n+" at "+p.Pos(ref.Pos()))
					}
				}
			}
			sort.Strings(other)
			switch {
			case len(muts) > 0:
				r.Bad("C09.S2", key, p.Pos(fn.Pos()), "the compiled profile is written through: "+muts[0].What+" at "+p.Pos(muts[0].Instr.Pos()))
			case len(other) > 0:
				r.Bad("C09.S2", key, p.Pos(fn.Pos()), "the compiled profile is handed to something other than Eval: "+strings.Join(other, "; "))
			default:
				r.OK("C09.S2", key, p.Pos(fn.Pos()), "the compiled profile is only copied and evaluated")
			}
		}
	}
}

// returnsCompose: every return is either the validate call's results or the error branch of the compile call
// (zero value + the compile call's error).
func returnsCompose(fn *ssa.Function, compile, validate *ssa.Call) (bool, string) {
	for _, b := range fn.Blocks {
		if b == fn.Recover {
			continue
		}
		for _, ins := range b.Instrs {
			ret, ok := ins.(*ssa.Return)
			if !ok {
				continue
			}
			if len(ret.Results) != 2 {
				return false, "unexpected result count"
			}
			res0, res1 := seeThroughHelper(ret.Results[0]), seeThroughHelper(ret.Results[1])
			ex1, ok1 := res1.(*ssa.Extract)
			switch {
			case ok1 && ex1.Tuple == ssa.Value(validate) && ex1.Index == 1:
				ex0, ok0 := res0.(*ssa.Extract)
				if !ok0 || ex0.Tuple != ssa.Value(validate) || ex0.Index != 0 {
					return false, "a return pairs the validate call's error with another value"
				}
			case ok1 && ex1.Tuple == ssa.Value(compile) && ex1.Index == 1:
				if c, ok := res0.(*ssa.Const); !ok || !(c.Value == nil || c.Value.ExactString() == `""`) {
					return false, "the error branch of the compile call returns a non-empty report"
				}
			default:
				return false, "a return yields an error that is neither the compile call's nor the validate call's"
			}
		}
	}
	return true, ""
}

func funcNames(fs []*ssa.Function) []string {
	var out []string
	for _, f := range fs {
		out = append(out, FuncKey(f))
	}
	sort.Strings(out)
	return out
}

// extractOf finds the Extract instruction reading result idx of a call.
func extractOf(call *ssa.Call, idx int) *ssa.Extract {
	if refs := call.Referrers(); refs != nil {
		for _, ref := range *refs {
			if ex, ok := ref.(*ssa.Extract); ok && ex.Index == idx {
				return ex
			}
		}
	}
	return nil
}

// dominatedByNilBranch: block b is only reached through the branch on which v was found to be nil.
func dominatedByNilBranch(v ssa.Value, b *ssa.BasicBlock) bool {
	for d := b; d != nil; d = d.Idom() {
		idom := d.Idom()
		if idom == nil {
			break
		}
		iff, ok := idom.Instrs[len(idom.Instrs)-1].(*ssa.If)
		if !ok {
			continue
		}
		bo, ok := iff.Cond.(*ssa.BinOp)
		if !ok {
			continue
		}
		var other ssa.Value
		if bo.X == v {
			other = bo.Y
		} else if bo.Y == v {
			other = bo.X
		} else {
			continue
		}
		cst, ok := other.(*ssa.Const)
		if !ok || !cst.IsNil() {
			continue
		}
		if len(d.Preds) != 1 {
			continue
		}
		if bo.Op.String() == "!=" && idom.Succs[1] == d {
			return true
		}
		if bo.Op.String() == "==" && idom.Succs[0] == d {
			return true
		}
	}
	return false
}

// seeThroughHelper: a value obtained as result i of a call to a module helper that returns, at position i, always the
// same one of its parameters (or always the same constant) is that argument (or constant): `return closeWithError(ch, err)`
// yields err and "".
func seeThroughHelper(v ssa.Value) ssa.Value {
	for depth := 0; depth < 4; depth++ {
		var call *ssa.Call
		idx := 0
		switch x := v.(type) {
		case *ssa.Extract:
			c, ok := x.Tuple.(*ssa.Call)
			if !ok {
				return v
			}
			call, idx = c, x.Index
		case *ssa.Call:
			if x.Call.Signature().Results().Len() != 1 {
				return v
			}
			call = x
		default:
			return v
		}
		ex := struct{ Index int }{idx}
		h := call.Call.StaticCallee()
		if h == nil || !IsModuleFunc(h) || h.Blocks == nil {
			return v
		}
		var prm *ssa.Parameter
		var cst *ssa.Const
		n := 0
		for _, b := range h.Blocks {
			for _, ins := range b.Instrs {
				ret, ok := ins.(*ssa.Return)
				if !ok || ex.Index >= len(ret.Results) {
					continue
				}
				n++
				switch rv := ret.Results[ex.Index].(type) {
				case *ssa.Parameter:
					if prm != nil && prm != rv {
						return v
					}
					prm = rv
				case *ssa.Const:
					if cst != nil && !(cst.Value == rv.Value || (cst.Value != nil && rv.Value != nil && cst.Value.ExactString() == rv.Value.ExactString())) {
						return v
					}
					cst = rv
				default:
					return v
				}
			}
		}
		switch {
		case n == 0:
			return v
		case prm != nil && cst == nil:
			k := -1
			for i, q := range h.Params {
				if q == prm {
					k = i
				}
			}
			if k < 0 || k >= len(call.Call.Args) {
				return v
			}
			v = call.Call.Args[k]
		case cst != nil && prm == nil:
			return cst
		default:
			return v
		}
	}
	return v
}
