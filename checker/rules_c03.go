package main

import (
	"fmt"
	"go/ast"
	"go/constant"
	"go/token"
	"go/types"
	"sort"
	"strings"

	rast "github.com/open-policy-agent/opa/ast"
	"golang.org/x/tools/go/packages"
)

func init() { register("C03", checkC03) }

var c03Levels = []string{"violation", "warning", "info"}

func checkC03(c *Ctx) {
	r := c.R
	r.Explanation = "Follows the severity word through the four tables it passes and requires agreement at each hop, for all three levels. (L1) Profile parser: the constant passed to the level parser is the lower-cased name of the Profile field that receives the rules, and that same parameter reaches the Level field of every top-level expression unchanged. (L2) Generator: the head of every generated constraint rule is strings.ToLower of that Level field; each `default X = []` line is emitted under the guard len(profile.<field X>) == 0 for the same X. (L3) Embedded Rego: each report[level] rule reads the rule named by the very string it assigns to level, and the three names are the three levels. (L4) Report builder: each bucket read from the result object under key K is tagged with severity K and ids prefixed K_; the severity IRI is the SHACL namespace plus the capitalised level; conforms is len(x) == 0 for the slice read under \"violation\" and nothing else. (L5) Report node: `result` is stored exactly when len(results) != 0, `dateCreated` exactly when IncludeReportCreationTime is set, its value is the configured clock formatted with a layout that keeps the zone offset, profileName and conforms are the parameters unchanged, and profileName is what the policy exports under report[\"profile\"], which the generator builds from the profile's name alone. (L6) The report configuration is read only for the creation-time switch and the two schema IRIs of the JSON-LD context."
	r.Declines = []string{"OPA's conversion of the violation/warning/info sets into arrays", "that a level's results are the ones its rules produce (C01)"}
	r.Trusted = []string{"strings.ToLower / strings.Title behave as documented on the three ASCII level words"}
	r.Rule("C03.L1", "profile parser: level literal == lower-cased receiving field; the level reaches TopLevelExpression.Level unchanged", 4)
	r.Rule("C03.L2", "generator: rule head = ToLower(Level); default X = [] guarded by the emptiness of field X", 4)
	r.Rule("C03.L3", "preamble: report[level] rules read the rule they name; exactly the three levels", 3)
	r.Rule("C03.L4", "report builder: bucket key == severity == id prefix; conforms from the violation bucket only", 5)
	r.Rule("C03.L5", "report node: conditional keys and pass-through values", 5)
	r.Rule("C03.L6", "report configuration fields are read only where the property allows", 3)

	c03Parser(c)
	c03Generator(c)
	c03Preamble(c)
	c03ReportBuilder(c)
	c03ReportNode(c)
	c03ConfigCensus(c)
	// L7: every report is built from this call's profile, data and configurations only
	noCrossCallState(c, "C03.L7", "no report, header field or time survives a call in a package-level variable", "a later call can be answered with an earlier call's report (its dateCreated, conforms or results) although the configuration or the clock differ")
}

// ---- L1
func c03Parser(c *Ctx) {
	r, p := c.R, c.P
	pk := p.Pkg("internal/parser/profile")
	if pk == nil {
		r.Unknown("C03.L1", "package", "", "internal/parser/profile not found")
		return
	}
	// the profile type: the struct with one field per level
	var profT *types.Named
	for _, n := range pk.Types.Scope().Names() {
		tn, ok := pk.Types.Scope().Lookup(n).(*types.TypeName)
		if !ok {
			continue
		}
		st, ok := tn.Type().Underlying().(*types.Struct)
		if !ok {
			continue
		}
		cnt := 0
		for i := 0; i < st.NumFields(); i++ {
			if isLevelWord(strings.ToLower(st.Field(i).Name())) {
				cnt++
			}
		}
		if cnt == 3 {
			profT, _ = tn.Type().(*types.Named)
		}
	}
	if profT == nil {
		r.Unknown("C03.L1", "profile-type", "", "no struct with one field per level found in the profile package")
		return
	}
	mentionsProfile := func(t types.Type) bool {
		if pt, ok := t.(*types.Pointer); ok {
			t = pt.Elem()
		}
		return t == types.Type(profT)
	}
	// E-sym: evaluate the functions the profile flows through; every store into a level field must hold the result of the
	// level parser called with that level's word
	found := map[string]bool{}
	type lp struct {
		fn  *types.Func
		idx int
	}
	var levelParsers []lp
	proto := &symWalker{Inline: func(fn *types.Func) bool {
		if fn.Pkg() != pk.Types {
			return false
		}
		sig := fn.Type().(*types.Signature)
		for i := 0; i < sig.Params().Len(); i++ {
			if mentionsProfile(sig.Params().At(i).Type()) {
				return true
			}
		}
		return false
	}}
	proto.OnCall = func(w *symWalker, call *ast.CallExpr, fn types.Object, args []*Sym, result *Sym) {
		f, ok := fn.(*types.Func)
		if !ok || f.Pkg() != pk.Types {
			return
		}
		for i, a := range args {
			if s, ok := a.ConstString(); ok && isLevelWord(s) {
				dup := false
				for _, e := range levelParsers {
					if e.fn == f {
						dup = true
					}
				}
				if !dup {
					levelParsers = append(levelParsers, lp{f, i})
				}
			}
		}
	}
	proto.OnStore = func(w *symWalker, at ast.Node, target *Sym, key *Sym, val *Sym) {
		field := ""
		if key != nil {
			field, _ = key.ConstString()
		} else if target != nil && target.K == symField {
			field = target.Name // a store through a pointer to the field
		}
		if !isLevelWord(strings.ToLower(field)) {
			return
		}
		if key != nil && (target == nil || target.Type == nil || !mentionsProfile(target.Type)) {
			if target == nil || target.K != symVar || !mentionsProfile(target.Obj.Type()) {
				return
			}
		}
		words := map[string]bool{}
		val.Walk(func(s *Sym) {
			if s.K == symCall {
				for _, a := range s.Parts {
					if lit, ok := a.ConstString(); ok && isLevelWord(lit) {
						words[lit] = true
					}
				}
			}
		})
		for _, l := range w.Loops() {
			l.Walk(func(s *Sym) {
				if s.K == symCall {
					for _, a := range s.Parts {
						if lit, ok := a.ConstString(); ok && isLevelWord(lit) {
							words[lit] = true
						}
					}
				}
			})
		}
		lit := strings.Join(sortedKeys(words), "+")
		k := relOf(pk) + "#level:" + strings.ToLower(field)
		if len(words) == 0 {
			// an initialisation (empty list) is not a dispatch
			if val.K == symList && len(val.Parts) == 0 {
				return
			}
			if val.K == symCall && val.Fn == "make" || val.K == symNil {
				return
			}
			r.Unknown("C03.L1", k, p.Pos(at.Pos()), "Profile."+field+" is assigned a value whose level could not be determined: "+val.String())
			return
		}
		if found[k+lit] {
			return
		}
		found[k+lit] = true
		r.Check(lit == strings.ToLower(field), "C03.L1", k, p.Pos(at.Pos()), "rules parsed for level "+lit+" are stored in Profile."+field, "rules parsed for level "+lit+" are stored in Profile."+field+": the validations listed under one level are reported with another severity")
	}
	for _, fd := range symRoots(pk) {
		p.SymWalk(pk, fd, proto, nil)
	}
	if len(found) == 0 {
		r.Unknown("C03.L1", "level-dispatch", "", "no store of parsed rules into Profile.<Level> found in the profile parser")
	}
	// the level parameter reaches TopLevelExpression.Level unchanged: follow parameters through direct calls
	if len(levelParsers) == 0 {
		r.Unknown("C03.L1", "level-flow", "", "no function of the profile parser is called with a level word")
	}
	for _, e := range levelParsers {
		reaches := paramReachesFieldSym(p, "internal/parser/profile", e.fn.Name(), e.idx, "TopLevelExpression", "Level")
		fn := p.Func("internal/parser/profile", e.fn.Name())
		if fn == nil {
			r.Unknown("C03.L1", "level-flow", "", "the level parser "+e.fn.Name()+" has no SSA body; flow not checked")
			continue
		}
		r.Check(reaches, "C03.L1", "level-flow", p.Pos(fn.Pos()), "the level word flows unchanged from the level parser into TopLevelExpression.Level", "the level word does not reach TopLevelExpression.Level unchanged (it is transformed or replaced on the way)")
	}
}

func isLevelWord(s string) bool {
	for _, l := range c03Levels {
		if s == l {
			return true
		}
	}
	return false
}

// ---- L2
func c03Generator(c *Ctx) {
	r, p := c.R, c.P
	pk := p.Pkg("internal/generator")
	if pk == nil {
		r.Unknown("C03.L2", "package", "", "internal/generator not found")
		return
	}
	// Symbolic evaluation of the generator (E-sym): every text built by the generator is reduced to a concatenation of
	// constants and symbolic parts, tables are unrolled and helpers are interpreted in their caller's context, so the rule
	// is about the text and its guard, not about how the code is laid out.
	heads, defaults := 0, map[string]bool{}
	seen := map[string]bool{}
	proto := &symWalker{Inline: samePkgInline(pk)}
	proto.OnText = func(w *symWalker, at ast.Expr, text *Sym) {
		parts := []*Sym{text}
		if text.K == symConcat {
			parts = text.Parts
		}
		// (a) a rule head `<name>[<var>] {`
		if len(parts) >= 2 {
			if c1, ok := parts[1].ConstString(); ok && strings.HasPrefix(c1, "[") {
				last, _ := parts[len(parts)-1].ConstString()
				if strings.HasSuffix(strings.TrimSpace(last), "{") && parts[0].K != symConst {
					name := parts[0]
					// helper rules named by the fresh-name generator (path rules) are not level rules
					fresh := false
					name.Walk(func(s *Sym) {
						if s.K == symCall && strings.Contains(s.Fn, "/parser/profile.") {
							fresh = true
						}
					})
					if fresh {
						return
					}
					k := relOf(pk) + "." + w.FuncName() + "#rule-head"
					if seen[k+p.Pos(at.Pos())] {
						return
					}
					seen[k+p.Pos(at.Pos())] = true
					heads++
					okHead := name.K == symCall && name.Fn == "strings.ToLower" && len(name.Parts) == 1 && name.Parts[0].K == symField && name.Parts[0].Name == "Level"
					r.Check(okHead, "C03.L2", k, p.Pos(at.Pos()), "the rule head is strings.ToLower(<expr>.Level)", "the head of the generated constraint rule is not strings.ToLower of the expression's Level ("+name.String()+"): results may land in another level's bucket")
				}
			}
		}
	}
	proto.OnCall = func(w *symWalker, call *ast.CallExpr, fn types.Object, args []*Sym, result *Sym) {
		// (b) a `default <level> = []` line added to the output
		for _, a := range args {
			lit, ok := a.ConstString()
			if !ok {
				// a default line whose level is not a constant cannot be judged
				if a.K == symConcat {
					if first, ok := a.Parts[0].ConstString(); ok && strings.HasPrefix(first, "default ") {
						r.Unknown("C03.L2", relOf(pk)+"."+w.FuncName()+"#default:?", p.Pos(call.Pos()), "a `default ... = []` line is built from a value that is not constant: "+a.String())
					}
				}
				continue
			}
			if !strings.HasPrefix(lit, "default ") || strings.Contains(lit, "%") {
				continue // (a format string is judged where the text it produces is added to the output)
			}
			fs := strings.Fields(strings.TrimPrefix(lit, "default "))
			if len(fs) == 0 {
				continue
			}
			word := fs[0]
			k := relOf(pk) + "." + w.FuncName() + "#default:" + word
			if seen[k] {
				continue
			}
			seen[k] = true
			defaults[word] = true
			// the guard: exactly one path condition, `len(<profile>.<Field>) == 0` with lower(Field) == word
			var guards []string
			okGuard := false
			field := ""
			for _, cnd := range w.Conds() {
				if b, isConst := cnd.Cond.ConstBool(); isConst && b != cnd.Neg {
					continue
				}
				guards = append(guards, cnd.String())
				if x, ok, empty := cnd.Emptiness(); ok && empty && x.K == symField {
					field = x.Name
					okGuard = strings.ToLower(x.Name) == word
				}
			}
			okv := okGuard && len(guards) == 1 && isLevelWord(word) && strings.HasSuffix(strings.ReplaceAll(lit, " ", ""), "=[]")
			r.Check(okv, "C03.L2", k, p.Pos(call.Pos()), fmt.Sprintf("%q is emitted exactly when Profile.%s is empty", lit, field), fmt.Sprintf("%q is emitted under the condition [%s]: an empty level has no default (evaluation fails) or a non-empty level is overridden", lit, strings.Join(guards, " && ")))
		}
	}
	for _, fd := range symRoots(pk) {
		p.SymWalk(pk, fd, proto, nil)
	}
	if heads == 0 {
		r.Unknown("C03.L2", "rule-head", "", "no `<name>[...] {` rule head template found in the generator")
	}
	if len(defaults) != 3 {
		r.Unknown("C03.L2", "defaults", "", fmt.Sprintf("%d `default <level> = []` guards found (%s), expected 3", len(defaults), strings.Join(sortedKeys(defaults), ",")))
	}
}

// ---- L3
func c03Preamble(c *Ctx) {
	r := c.R
	rp, err := loadPreamble(c.P)
	if err != nil {
		r.Unknown("C03.L3", "preamble", "", err.Error())
		return
	}
	seen := map[string]bool{}
	for _, rule := range rp.rulesNamed("report") {
		// report[level] = matches { vs = <R>; level := "<L>"; matches := vs }
		as := bodyAssignments(rule.Body)
		val := map[string]*rast.Term{}
		for _, a := range as {
			val[a.Var] = a.Term
		}
		keyVar, valVar := "", ""
		if rule.Head.Key != nil {
			keyVar = refHeadName(rule.Head.Key)
		}
		if rule.Head.Value != nil {
			valVar = refHeadName(rule.Head.Value)
		}
		lvlTerm := val[keyVar]
		lvl := ""
		if lvlTerm != nil {
			if s, ok := lvlTerm.Value.(rast.String); ok {
				lvl = string(s)
			}
		}
		// resolve the value variable through var-to-var assignments down to a rule reference
		src := valVar
		for i := 0; i < 5; i++ {
			t, ok := val[src]
			if !ok {
				break
			}
			src = refHeadName(t)
		}
		k := "report:" + lvl
		seen[lvl] = true
		r.Check(lvl != "" && src == lvl, "C03.L3", k, fmt.Sprintf("preamble line %d", rule.Location.Row-1), fmt.Sprintf("report[%q] yields the rule %s", lvl, src), fmt.Sprintf("report[%q] yields the rule %q: that level's results are reported under another severity", lvl, src))
	}
	for _, l := range c03Levels {
		if !seen[l] {
			r.Bad("C03.L3", "report:"+l, "", "the preamble has no report[level] rule for level "+l)
		}
	}
	for l := range seen {
		if !isLevelWord(l) {
			r.Bad("C03.L3", "report-extra:"+l, "", "the preamble reports an unknown level "+l)
		}
	}
}

// ---- L4
// ---- the report builder, evaluated symbolically (shared by C03.L4 and C12.J1)

type rbStore struct {
	target, val *Sym
	conds       []symCond
	pos         token.Pos
	fn          string
}

type rbModel struct {
	pk     *packages.Package
	build  *ast.FuncDecl
	stores map[string][]rbStore
}

func rbBucketKey(s *Sym) (string, bool) {
	if s != nil && s.K == symIndex {
		if k, ok := s.Y.ConstString(); ok && isLevelWord(k) {
			return k, true
		}
	}
	return "", false
}

// loadReportBuilder finds the function that reads the level buckets from the evaluation result (a *rego.ResultSet
// parameter, indexed by the level words) and evaluates it with E-sym, the functions of its package interpreted in its
// context. It records every store under the keys the rules care about.
func loadReportBuilder(p *Prog) (*rbModel, error) {
	pk := p.Pkg("internal/validator")
	if pk == nil {
		return nil, fmt.Errorf("internal/validator not found")
	}
	info := pk.TypesInfo
	// candidates: functions with a rego.ResultSet parameter; the builder is the one whose evaluation (helpers interpreted)
	// stores the report node's conforms key: the outermost stage that sees both the evaluation result and the report
	var cands []*ast.FuncDecl
	for _, f := range pk.Syntax {
		if strings.HasSuffix(pk.Fset.Position(f.Pos()).Filename, "_test.go") {
			continue
		}
		for _, d := range f.Decls {
			fd, ok := d.(*ast.FuncDecl)
			if !ok || fd.Body == nil || fd.Type.Params == nil {
				continue
			}
			for _, prm := range fd.Type.Params.List {
				if tv, ok := info.Types[prm.Type]; ok && strings.HasSuffix(tv.Type.String(), "rego.ResultSet") {
					cands = append(cands, fd)
					break
				}
			}
		}
	}
	var best *rbModel
	for _, fd := range cands {
		m := &rbModel{pk: pk, build: fd, stores: map[string][]rbStore{}}
		proto := &symWalker{Inline: samePkgInline(pk)}
		proto.OnStore = func(w *symWalker, at ast.Node, target *Sym, key *Sym, val *Sym) {
			if k, ok := key.ConstString(); ok {
				switch k {
				case "resultSeverity", "conforms", "result", "@id", "profileName", "dateCreated":
					m.stores[k] = append(m.stores[k], rbStore{target, val, w.Conds(), at.Pos(), w.FuncName()})
				}
			}
		}
		p.SymWalk(pk, fd, proto, nil)
		if len(m.stores["conforms"]) == 0 {
			continue
		}
		// prefer the candidate in which the buckets are resolved down to the evaluation result
		resolved := 0
		for _, st := range m.stores["resultSeverity"] {
			if st.target != nil && st.target.K == symElem {
				if _, ok := rbBucketKey(st.target.X); ok {
					resolved++
				}
			}
		}
		if best == nil || resolved > func() int {
			n := 0
			for _, st := range best.stores["resultSeverity"] {
				if st.target != nil && st.target.K == symElem {
					if _, ok := rbBucketKey(st.target.X); ok {
						n++
					}
				}
			}
			return n
		}() {
			best = m
		}
	}
	if best == nil {
		return nil, fmt.Errorf("no function taking the evaluation result builds a report node with a conforms key")
	}
	return best, nil
}

// resultListProblems: the value stored under "result" must be the list of every element of every bucket, each bucket once.
func (m *rbModel) resultListProblems(st rbStore) []string {
	v := st.val
	if v.K == symCall && v.Fn == "maybe" && len(v.Parts) == 1 {
		v = v.Parts[0]
	}
	covered := map[string]int{}
	var why []string
	if v.K != symList {
		why = append(why, "the result list is "+v.String()+", not a list built by appending every element of every bucket")
	}
	for _, part := range v.Parts {
		if part.K != symRepeat || len(part.Parts) != 1 {
			why = append(why, "the list contains "+part.String())
			continue
		}
		key, isBucket := rbBucketKey(part.X)
		el := part.Parts[0]
		if !isBucket || el.K != symElem || el.X.String() != part.X.String() {
			why = append(why, "the list contains "+part.String()+", which is not `every element of a level bucket`")
			continue
		}
		covered[key]++
	}
	for _, l := range c03Levels {
		if covered[l] != 1 {
			why = append(why, fmt.Sprintf("the %s bucket contributes %d time(s)", l, covered[l]))
		}
	}
	return why
}

func c03ReportBuilder(c *Ctx) {
	r, p := c.R, c.P
	m, err := loadReportBuilder(p)
	if err != nil {
		r.Unknown("C03.L4", "builder", "", err.Error())
		return
	}
	build, stores := m.build, m.stores
	bucketKey := rbBucketKey

	// conforms
	if len(stores["conforms"]) == 0 {
		r.Unknown("C03.L4", "conforms", p.Pos(build.Pos()), "no value stored under the report node's conforms key was found")
	}
	for _, st := range stores["conforms"] {
		x, ok, empty := symCond{Cond: st.val}.Emptiness()
		key, isBucket := bucketKey(x)
		okc := ok && empty && isBucket && key == "violation"
		why := "conforms is not computed as `the violation bucket is empty`: " + st.val.String()
		if ok && isBucket && key != "violation" {
			why = fmt.Sprintf("conforms is computed from the %q bucket, not from the violation bucket: warnings or infos change conforms, or violations do not", key)
		}
		r.Check(okc, "C03.L4", "conforms", p.Pos(st.pos), "conforms := len(<bucket read under \"violation\">) == 0", why)
	}

	// severity: every store of resultSeverity tags an element of bucket K with shacl# + Title(K)
	tagged := map[string]bool{}
	for _, st := range stores["resultSeverity"] {
		key, isBucket := "", false
		if st.target != nil && st.target.K == symElem {
			key, isBucket = bucketKey(st.target.X)
		}
		if !isBucket {
			r.Unknown("C03.L4", "bucket:?", p.Pos(st.pos), "resultSeverity is stored into "+st.target.String()+", which is not an element of a level bucket")
			continue
		}
		tagged[key] = true
		lvl := ""
		okSev := false
		if st.val.K == symConcat && len(st.val.Parts) == 2 {
			ns, _ := st.val.Parts[0].ConstString()
			t := st.val.Parts[1]
			if ns == "http://www.w3.org/ns/shacl#" && t.K == symCall && t.Fn == "strings.Title" && len(t.Parts) == 1 {
				lvl, okSev = t.Parts[0].ConstString()
			}
		} else if full, ok := st.val.ConstString(); ok && strings.HasPrefix(full, "http://www.w3.org/ns/shacl#") {
			lvl, okSev = strings.ToLower(strings.TrimPrefix(full, "http://www.w3.org/ns/shacl#")), true
			if strings.Title(lvl) != strings.TrimPrefix(full, "http://www.w3.org/ns/shacl#") {
				okSev = false
			}
		}
		if !okSev {
			r.Bad("C03.L4", "bucket:"+key, p.Pos(st.pos), "the severity of results read under \""+key+"\" is "+st.val.String()+", not the SHACL namespace followed by the capitalised level")
			continue
		}
		r.Check(lvl == key, "C03.L4", "bucket:"+key, p.Pos(st.pos), fmt.Sprintf("results read under %q are tagged shacl#%s", key, strings.Title(lvl)), fmt.Sprintf("results read under %q are tagged with severity %q", key, lvl))
	}
	for _, l := range c03Levels {
		if !tagged[l] {
			r.Unknown("C03.L4", "bucket:"+l, p.Pos(build.Pos()), "no store of resultSeverity into the elements of the "+l+" bucket was recognised")
		}
	}
	r.OK("C03.L4", "severity-iri", "", "resultSeverity = shacl# + Title(level), evaluated per bucket")

	// the result list: every element of every bucket, tagged, and nothing else
	if len(stores["result"]) == 0 {
		r.Unknown("C03.L4", "result-list", p.Pos(build.Pos()), "no value stored under the report node's result key was found")
	}
	for _, st := range stores["result"] {
		why := m.resultListProblems(st)
		r.Check(len(why) == 0, "C03.L4", "result-list", p.Pos(st.pos), "the result list is every element of the violation, warning and info buckets, each once", strings.Join(why, "; ")+": results are lost, duplicated or invented between the evaluation and the report")
	}
}

// c03FlowsToConforms: the variable is passed to a module function at a parameter named conforms or of type bool that
// ends up under the "conforms" key. Approximated: the variable is passed as an argument to the function that builds
// the map with a "conforms" key, at the position of the parameter stored under that key.
func c03FlowsToConforms(info *types.Info, fd *ast.FuncDecl, o types.Object) bool {
	if v, ok := o.(*types.Var); !ok || !types.Identical(v.Type(), types.Typ[types.Bool]) {
		return false
	}
	used := false
	ast.Inspect(fd.Body, func(n ast.Node) bool {
		call, ok := n.(*ast.CallExpr)
		if !ok {
			return true
		}
		for _, a := range call.Args {
			if id, ok := ast.Unparen(a).(*ast.Ident); ok && info.Uses[id] == o {
				used = true
			}
		}
		return true
	})
	return used
}

// ---- L5
func c03ReportNode(c *Ctx) {
	r, p := c.R, c.P
	m, err := loadReportBuilder(p)
	if err != nil {
		r.Unknown("C03.L5", "report-node", "", err.Error())
		return
	}
	// conditions every store of the report shares (the guards under which a report is built at all, e.g. a non-empty
	// evaluation result) are not conditions of an individual key
	var common []string
	first := true
	for _, sts := range m.stores {
		for _, st := range sts {
			var cs []string
			for _, cnd := range st.conds {
				cs = append(cs, cnd.String())
			}
			if first {
				common, first = cs, false
				continue
			}
			n := 0
			for n < len(common) && n < len(cs) && common[n] == cs[n] {
				n++
			}
			common = common[:n]
		}
	}
	nonConst := func(cs []symCond) []symCond {
		var out []symCond
		if len(cs) >= len(common) {
			match := true
			for i := range common {
				if cs[i].String() != common[i] {
					match = false
				}
			}
			if match {
				cs = cs[len(common):]
			}
		}
		for _, cnd := range cs {
			if _, isConst := cnd.Cond.ConstBool(); isConst {
				continue
			}
			out = append(out, cnd)
		}
		return out
	}
	unwrapMaybe := func(v *Sym) *Sym {
		if v != nil && v.K == symCall && v.Fn == "maybe" && len(v.Parts) == 1 {
			return v.Parts[0]
		}
		return v
	}
	// profileName and conforms: unconditional, values from the evaluation result
	for _, key := range []string{"profileName", "conforms"} {
		if len(m.stores[key]) == 0 {
			r.Unknown("C03.L5", "node:"+key, p.Pos(m.build.Pos()), "no store of "+key+" into the report node was found")
			continue
		}
		for _, st := range m.stores[key] {
			uncond := len(nonConst(st.conds)) == 0
			okv := true
			why := ""
			if key == "profileName" {
				okv = st.val.K == symIndex && func() bool { k, _ := st.val.Y.ConstString(); return k == "profile" }()
				why = "profileName is " + st.val.String() + `, not the value the evaluation reports under "profile"`
			}
			if !uncond {
				okv = false
				why = key + " is stored only under the condition " + condsText(st.conds)
			}
			r.Check(okv, "C03.L5", "node:"+key, p.Pos(st.pos), key+" is stored unconditionally, unchanged", why)
		}
	}
	// result: stored exactly when the list is not empty, and it is that list
	if len(m.stores["result"]) == 0 {
		r.Unknown("C03.L5", "node:result", p.Pos(m.build.Pos()), "no conditional store of result was recognised")
	}
	for _, st := range m.stores["result"] {
		cs := nonConst(st.conds)
		val := unwrapMaybe(st.val)
		okc := false
		why := "the result key is stored under the condition `" + condsText(cs) + "`, not exactly when the result list is non-empty"
		if len(cs) == 0 {
			why = "result is stored unconditionally in the report node: an empty list is printed instead of omitting the key"
		}
		if len(cs) == 1 {
			if x, ok, empty := cs[0].Emptiness(); ok && !empty && x.String() == val.String() {
				okc = true
			}
		}
		r.Check(okc, "C03.L5", "node:result", p.Pos(st.pos), "result is stored exactly when the result list is not empty, and is that list", why)
	}
	// dateCreated: exactly when the configuration asks, value = configured clock with a zone-preserving layout
	if len(m.stores["dateCreated"]) == 0 {
		r.Unknown("C03.L5", "node:dateCreated", p.Pos(m.build.Pos()), "no conditional store of dateCreated was recognised")
	}
	for _, st := range m.stores["dateCreated"] {
		cs := nonConst(st.conds)
		okc := len(cs) == 1 && !cs[0].Neg && cs[0].Cond.K == symField && cs[0].Cond.Name == "IncludeReportCreationTime"
		why := "dateCreated is stored under the condition `" + condsText(cs) + "`"
		if len(cs) == 0 {
			why = "dateCreated is stored unconditionally in the report node"
		}
		r.Check(okc, "C03.L5", "node:dateCreated", p.Pos(st.pos), "dateCreated is stored exactly when the report configuration asks for it", why)
		val := unwrapMaybe(st.val)
		okv, whyv := false, "the value is not the configured clock formatted with a zone-preserving layout: "+val.String()
		if val.K == symCall && val.Fn == "(time.Time).Format" && len(val.Parts) == 1 && val.X != nil {
			layout, lok := val.Parts[0].ConstString()
			recv := val.X
			utc := false
			if recv.K == symCall && recv.Fn == "(time.Time).UTC" && recv.X != nil {
				utc, recv = true, recv.X
			}
			clock := recv.K == symCall && strings.HasSuffix(recv.Fn, ".ReportCreationTime")
			zone := lok && (strings.Contains(layout, "Z07") || strings.Contains(layout, "-07") || strings.Contains(layout, "MST"))
			if clock && lok && (zone || (utc && strings.HasSuffix(layout, "Z"))) {
				okv = true
			} else if clock && lok {
				whyv = fmt.Sprintf("the configured time is formatted with the layout %q, which drops the zone offset: the printed instant differs from the configured one outside UTC", layout)
			}
		}
		r.Check(okv, "C03.L5", "node:dateCreated-value", p.Pos(st.pos), "dateCreated = configured clock, RFC 3339 with zone offset", whyv)
	}
	// profileName originates from report["profile"], which the generator defines from Profile.Name only
	gen := p.Pkg("internal/generator")
	if gen != nil {
		okName, seenTpl := false, false
		proto := &symWalker{Inline: samePkgInline(gen)}
		proto.OnText = func(w *symWalker, at ast.Expr, text *Sym) {
			if !strings.HasPrefix(text.Template(), `report["profile"]`) {
				return
			}
			seenTpl = true
			isName := func(s *Sym) bool {
				if s == nil || s.K != symField || s.Name != "Name" || s.X == nil {
					return false
				}
				t := s.X.Type
				if t == nil && s.X.Obj != nil {
					t = s.X.Obj.Type()
				}
				nt := namedOf(t)
				return nt != nil && nt.Obj().Name() == "Profile"
			}
			// the text after the constant head is the name itself, quoted by the escaping helper and by nothing else: any
			// other function on the way (TrimSpace, ToLower, a "display" form) makes the reported name differ from the profile's
			found := false
			holes := 0
			parts := []*Sym{text}
			if text.K == symConcat {
				parts = text.Parts
			}
			for _, part := range parts {
				if _, isConst := part.ConstString(); isConst {
					continue
				}
				holes++
				if isName(part) {
					found = true
				} else if part.K == symCall && strings.HasSuffix(part.Fn, "misc.RegoString") && len(part.Parts) == 1 && isName(part.Parts[0]) {
					found = true
				}
			}
			okName = found && holes == 1
		}
		for _, fd := range symRoots(gen) {
			p.SymWalk(gen, fd, proto, nil)
		}
		if seenTpl {
			r.Check(okName, "C03.L5", "profile-name-source", "", `report["profile"] is generated from Profile.Name`, `the report["profile"] rule is not generated from Profile.Name as it is (quoted by the escaping helper only): the profileName of the report differs from the profile's name for some names`)
		} else {
			r.Unknown("C03.L5", "profile-name-source", "", `no template defining report["profile"] found in the generator`)
		}
	}
}

// ---- L6
func c03ConfigCensus(c *Ctx) {
	r, p := c.R, c.P
	cfg := p.Pkg("pkg/config")
	if cfg == nil {
		r.Unknown("C03.L6", "pkg/config", "", "package not found")
		return
	}
	var rc *types.Named
	for _, n := range cfg.Types.Scope().Names() {
		if tn, ok := cfg.Types.Scope().Lookup(n).(*types.TypeName); ok {
			if st, ok := tn.Type().Underlying().(*types.Struct); ok && st.NumFields() >= 2 {
				for i := 0; i < st.NumFields(); i++ {
					if st.Field(i).Name() == "IncludeReportCreationTime" {
						rc, _ = tn.Type().(*types.Named)
					}
				}
			}
		}
	}
	if rc == nil {
		r.Unknown("C03.L6", "ReportConfiguration", "", "the report configuration struct was not found")
		return
	}
	reads := map[string][]string{}
	for _, pk := range p.modPkgsSorted() {
		if relOf(pk) == "js" || relOf(pk) == "pkg/config" {
			continue
		}
		forEachFieldRead(pk, rc, func(field, fn string, pos token.Pos) {
			reads[field] = append(reads[field], relOf(pk)+"."+fn)
		})
	}
	st := rc.Underlying().(*types.Struct)
	for i := 0; i < st.NumFields(); i++ {
		f := st.Field(i).Name()
		where := reads[f]
		sort.Strings(where)
		allowed := true
		for _, w := range where {
			switch {
			case f == "IncludeReportCreationTime" && strings.HasPrefix(w, "internal/validator."):
			case f != "IncludeReportCreationTime" && strings.HasPrefix(w, "internal/validator/contexts."):
			default:
				allowed = false
			}
		}
		// IncludeReportCreationTime must be read in exactly one function (the report node builder)
		if f == "IncludeReportCreationTime" {
			uniq := map[string]bool{}
			for _, w := range where {
				uniq[w] = true
			}
			if len(uniq) != 1 {
				allowed = false
			}
		}
		r.Check(allowed && len(where) > 0, "C03.L6", "ReportConfiguration."+f, "", "read only in "+strings.Join(where, ", "), fmt.Sprintf("the report configuration field %s is read in [%s]: the configuration influences more than the creation time / the context's schema IRIs (or is not read at all)", f, strings.Join(where, ", ")))
	}
}

func forEachFieldRead(pk *packages.Package, owner *types.Named, f func(field, fn string, pos token.Pos)) {
	for _, file := range pk.Syntax {
		ast.Inspect(file, func(n ast.Node) bool {
			sel, ok := n.(*ast.SelectorExpr)
			if !ok {
				return true
			}
			s := pk.TypesInfo.Selections[sel]
			if s == nil || s.Kind() != types.FieldVal {
				return true
			}
			if namedOf(s.Recv()) == owner {
				f(sel.Sel.Name, enclosingFuncName(pk, sel.Pos()), sel.Pos())
			}
			return true
		})
	}
}

var _ = constant.MakeBool

// fromFreshName: the identifier is a local variable whose only definition is a call to a string-returning function of
// the profile parser package (the fresh-name generator).
func fromFreshName(pk *packages.Package, id *ast.Ident) bool {
	obj := pk.TypesInfo.Uses[id]
	if obj == nil {
		return false
	}
	found := false
	for _, f := range pk.Syntax {
		ast.Inspect(f, func(n ast.Node) bool {
			as, ok := n.(*ast.AssignStmt)
			if !ok || len(as.Lhs) != len(as.Rhs) {
				return true
			}
			for i, lhs := range as.Lhs {
				lid, ok := lhs.(*ast.Ident)
				if !ok || (pk.TypesInfo.Defs[lid] != obj && pk.TypesInfo.Uses[lid] != obj) {
					continue
				}
				if call, ok := ast.Unparen(as.Rhs[i]).(*ast.CallExpr); ok {
					if fn, ok := calleeOf(pk.TypesInfo, call).(*types.Func); ok && fn.Pkg() != nil && strings.HasSuffix(fn.Pkg().Path(), "/internal/parser/profile") {
						found = true
					}
				}
			}
			return true
		})
	}
	return found
}

// paramReachesFieldSym: evaluated from pkg.fn with its helpers interpreted (E-sym), every struct literal of type typ that
// is built has its field `field` equal to parameter idx of fn itself — however the value travels there (forwarded
// parameters, a parameter object, locals) — and at least one such literal is built.
func paramReachesFieldSym(p *Prog, rel, fn string, idx int, typ, field string) bool {
	fd, pk := p.FuncDecl(rel, fn)
	if fd == nil || fd.Body == nil {
		return false
	}
	var prm types.Object
	n := 0
	for _, f := range fd.Type.Params.List {
		for _, name := range f.Names {
			if n == idx {
				prm = pk.TypesInfo.Defs[name]
			}
			n++
		}
	}
	if prm == nil {
		return false
	}
	built, ok := 0, true
	proto := &symWalker{Inline: samePkgInline(pk)}
	proto.OnStruct = func(w *symWalker, lit *ast.CompositeLit, val *Sym) {
		if val.Type == nil || typeName(val.Type) != typ {
			return
		}
		v, has := val.Fields[field]
		if !has {
			return
		}
		built++
		if v == nil || v.K != symVar || v.Obj != prm {
			ok = false
		}
	}
	p.SymWalk(pk, fd, proto, nil)
	return ok && built > 0
}
