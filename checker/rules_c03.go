package main

import (
	"fmt"
	"go/ast"
	"go/constant"
	"go/token"
	"go/types"
	"sort"
	"strings"

	rast "github.com/open-policy-agent/opa/ast"
	"golang.org/x/tools/go/packages"
)

func init() { register("C03", checkC03) }

var c03Levels = []string{"violation", "warning", "info"}

func checkC03(c *Ctx) {
	r := c.R
	r.Explanation = "Follows the severity word through the four tables it passes and requires agreement at each hop, for all three levels. (L1) Profile parser: the constant passed to the level parser is the lower-cased name of the Profile field that receives the rules, and that same parameter reaches the Level field of every top-level expression unchanged. (L2) Generator: the head of every generated constraint rule is strings.ToLower of that Level field; each `default X = []` line is emitted under the guard len(profile.<field X>) == 0 for the same X. (L3) Embedded Rego: each report[level] rule reads the rule named by the very string it assigns to level, and the three names are the three levels. (L4) Report builder: each bucket read from the result object under key K is tagged with severity K and ids prefixed K_; the severity IRI is the SHACL namespace plus the capitalised level; conforms is len(x) == 0 for the slice read under \"violation\" and nothing else. (L5) Report node: `result` is stored exactly when len(results) != 0, `dateCreated` exactly when IncludeReportCreationTime is set, its value is the configured clock formatted with a layout that keeps the zone offset, profileName and conforms are the parameters unchanged, and profileName is what the policy exports under report[\"profile\"], which the generator builds from the profile's name alone. (L6) The report configuration is read only for the creation-time switch and the two schema IRIs of the JSON-LD context."
	r.Declines = []string{"OPA's conversion of the violation/warning/info sets into arrays", "that a level's results are the ones its rules produce (C01)"}
	r.Trusted = []string{"strings.ToLower / strings.Title behave as documented on the three ASCII level words"}
	r.Rule("C03.L1", "profile parser: level literal == lower-cased receiving field; the level reaches TopLevelExpression.Level unchanged", 4)
	r.Rule("C03.L2", "generator: rule head = ToLower(Level); default X = [] guarded by the emptiness of field X", 4)
	r.Rule("C03.L3", "preamble: report[level] rules read the rule they name; exactly the three levels", 3)
	r.Rule("C03.L4", "report builder: bucket key == severity == id prefix; conforms from the violation bucket only", 5)
	r.Rule("C03.L5", "report node: conditional keys and pass-through values", 5)
	r.Rule("C03.L6", "report configuration fields are read only where the property allows", 3)

	c03Parser(c)
	c03Generator(c)
	c03Preamble(c)
	c03ReportBuilder(c)
	c03ReportNode(c)
	c03ConfigCensus(c)
}

// ---- L1
func c03Parser(c *Ctx) {
	r, p := c.R, c.P
	pk := p.Pkg("internal/parser/profile")
	if pk == nil {
		r.Unknown("C03.L1", "package", "", "internal/parser/profile not found")
		return
	}
	info := pk.TypesInfo
	// the level parser: a function whose first parameter is a string and that is called with a constant level word
	found := 0
	for _, file := range pk.Syntax {
		for _, d := range file.Decls {
			fd, ok := d.(*ast.FuncDecl)
			if !ok || fd.Body == nil {
				continue
			}
			// map: local var -> level literal it was produced with
			produced := map[types.Object]string{}
			ast.Inspect(fd.Body, func(n ast.Node) bool {
				as, ok := n.(*ast.AssignStmt)
				if !ok || len(as.Rhs) != 1 {
					return true
				}
				call, ok := as.Rhs[0].(*ast.CallExpr)
				if !ok || len(call.Args) == 0 {
					return true
				}
				lit, ok := constString(info, call.Args[0])
				if !ok || !isLevelWord(lit) {
					return true
				}
				if id, ok := as.Lhs[0].(*ast.Ident); ok {
					if o := info.Defs[id]; o != nil {
						produced[o] = lit
					} else if o := info.Uses[id]; o != nil {
						produced[o] = lit
					}
				}
				return true
			})
			if len(produced) == 0 {
				continue
			}
			// for _, rule := range X { profile.F = append(profile.F, rule) }
			ast.Inspect(fd.Body, func(n ast.Node) bool {
				rs, ok := n.(*ast.RangeStmt)
				if !ok {
					return true
				}
				id, ok := ast.Unparen(rs.X).(*ast.Ident)
				if !ok {
					return true
				}
				lit, ok := produced[info.Uses[id]]
				if !ok {
					return true
				}
				ast.Inspect(rs.Body, func(m ast.Node) bool {
					as, ok := m.(*ast.AssignStmt)
					if !ok || len(as.Lhs) != 1 {
						return true
					}
					sel, ok := as.Lhs[0].(*ast.SelectorExpr)
					if !ok {
						return true
					}
					found++
					k := relOf(pk) + "." + fd.Name.Name + "#level:" + lit
					r.Check(strings.ToLower(sel.Sel.Name) == lit, "C03.L1", k, p.Pos(as.Pos()), "rules parsed for level "+lit+" are stored in Profile."+sel.Sel.Name, "rules parsed for level "+lit+" are stored in Profile."+sel.Sel.Name+": the validations listed under one level are reported with another severity")
					return true
				})
				return true
			})
		}
	}
	if found == 0 {
		r.Unknown("C03.L1", "level-dispatch", "", "no `x := parse(\"<level>\", ...)` / `profile.<Field> = append(...)` pairs found in the profile parser")
	}
	// the level parameter reaches TopLevelExpression.Level unchanged: follow parameters through direct calls
	reaches := paramReachesField(p, "internal/parser/profile", "parseValidationLevel", 0, "TopLevelExpression", "Level", 4)
	if fn := p.Func("internal/parser/profile", "parseValidationLevel"); fn == nil {
		// resolve structurally: the function called with the level literal
		r.Unknown("C03.L1", "level-flow", "", "the level parser function was not found by name; flow not checked")
	} else {
		r.Check(reaches, "C03.L1", "level-flow", p.Pos(fn.Pos()), "the level word flows unchanged from the level parser into TopLevelExpression.Level", "the level word does not reach TopLevelExpression.Level unchanged (it is transformed or replaced on the way)")
	}
}

func isLevelWord(s string) bool {
	for _, l := range c03Levels {
		if s == l {
			return true
		}
	}
	return false
}

// paramReachesField: parameter idx of pkg.fn is passed, unchanged, through direct calls (depth-limited) into a
// composite literal or assignment of field `field` of struct type `typ`.
func paramReachesField(p *Prog, rel, fn string, idx int, typ, field string, depth int) bool {
	fd, pk := p.FuncDecl(rel, fn)
	if fd == nil || depth == 0 {
		return false
	}
	info := pk.TypesInfo
	var prm types.Object
	n := 0
	for _, f := range fd.Type.Params.List {
		for _, name := range f.Names {
			if n == idx {
				prm = info.Defs[name]
			}
			n++
		}
	}
	if prm == nil {
		return false
	}
	ok := false
	ast.Inspect(fd.Body, func(node ast.Node) bool {
		switch x := node.(type) {
		case *ast.CompositeLit:
			if tv, has := info.Types[x]; has {
				if nt := namedOf(tv.Type); nt != nil && nt.Obj().Name() == typ {
					if v := compositeField(x, field); v != nil {
						if id, isID := ast.Unparen(v).(*ast.Ident); isID && info.Uses[id] == prm {
							ok = true
						}
					}
				}
			}
		case *ast.CallExpr:
			callee, isFn := calleeOf(info, x).(*types.Func)
			if !isFn || callee.Pkg() == nil || !strings.HasPrefix(callee.Pkg().Path(), ModulePath) {
				return true
			}
			for i, a := range x.Args {
				if id, isID := ast.Unparen(a).(*ast.Ident); isID && info.Uses[id] == prm {
					crel := strings.TrimPrefix(strings.TrimPrefix(callee.Pkg().Path(), ModulePath), "/")
					name := callee.Name()
					if rt := recvTypeName(callee); rt != "" {
						name = rt + "." + name
					}
					if paramReachesField(p, crel, name, i, typ, field, depth-1) {
						ok = true
					}
				}
			}
		}
		return true
	})
	return ok
}

// ---- L2
func c03Generator(c *Ctx) {
	r, p := c.R, c.P
	pk := p.Pkg("internal/generator")
	if pk == nil {
		r.Unknown("C03.L2", "package", "", "internal/generator not found")
		return
	}
	info := pk.TypesInfo
	heads, defaults := 0, 0
	for _, file := range pk.Syntax {
		ast.Inspect(file, func(n ast.Node) bool {
			switch x := n.(type) {
			case *ast.CallExpr:
				if funcFullName(calleeOf(info, x)) != "fmt.Sprintf" || len(x.Args) < 2 {
					return true
				}
				format, ok := constString(info, x.Args[0])
				if !ok || !strings.HasPrefix(format, "%s[") || !strings.HasSuffix(strings.TrimSpace(format), "{") {
					return true
				}
				// helper rules named by the fresh-name generator (path rules) are not level rules: skip heads whose name
				// is a local assigned from a call into the profile package (Genvar)
				if id, isID := ast.Unparen(x.Args[1]).(*ast.Ident); isID {
					if fromFreshName(pk, id) {
						return true
					}
				}
				// a rule head template: `%s[matches] {`
				heads++
				k := relOf(pk) + "." + enclosingFuncName(pk, x.Pos()) + "#rule-head"
				arg := ast.Unparen(x.Args[1])
				okHead := false
				if call, isCall := arg.(*ast.CallExpr); isCall && funcFullName(calleeOf(info, call)) == "strings.ToLower" && len(call.Args) == 1 {
					if sel, isSel := ast.Unparen(call.Args[0]).(*ast.SelectorExpr); isSel && sel.Sel.Name == "Level" {
						okHead = true
					}
				}
				r.Check(okHead, "C03.L2", k, p.Pos(x.Pos()), "the rule head is strings.ToLower(<expr>.Level)", "the head of the generated constraint rule is not strings.ToLower of the expression's Level ("+types.ExprString(arg)+"): results may land in another level's bucket")
			case *ast.IfStmt:
				// if len(profile.F) == 0 { acc = append(acc, "default X = []") }
				be, ok := ast.Unparen(x.Cond).(*ast.BinaryExpr)
				if !ok || be.Op != token.EQL {
					return true
				}
				lenCall, ok := ast.Unparen(be.X).(*ast.CallExpr)
				if !ok || len(lenCall.Args) != 1 {
					return true
				}
				if id, ok := lenCall.Fun.(*ast.Ident); !ok || id.Name != "len" {
					return true
				}
				sel, ok := ast.Unparen(lenCall.Args[0]).(*ast.SelectorExpr)
				if !ok {
					return true
				}
				var lit string
				ast.Inspect(x.Body, func(m ast.Node) bool {
					if bl, ok := m.(ast.Expr); ok {
						if s, ok := constString(info, bl); ok && strings.HasPrefix(s, "default ") {
							lit = s
						}
					}
					return true
				})
				if lit == "" {
					return true
				}
				defaults++
				word := strings.Fields(strings.TrimPrefix(lit, "default "))[0]
				k := relOf(pk) + "." + enclosingFuncName(pk, x.Pos()) + "#default:" + word
				okv := strings.ToLower(sel.Sel.Name) == word && isLevelWord(word) && strings.HasSuffix(strings.ReplaceAll(lit, " ", ""), "=[]")
				r.Check(okv, "C03.L2", k, p.Pos(x.Pos()), fmt.Sprintf("%q is emitted exactly when Profile.%s is empty", lit, sel.Sel.Name), fmt.Sprintf("%q is emitted when Profile.%s is empty: an empty level has no default (evaluation fails) or a non-empty level is overridden", lit, sel.Sel.Name))
			}
			return true
		})
	}
	if heads == 0 {
		r.Unknown("C03.L2", "rule-head", "", "no `%s[...] {` rule head template found in the generator")
	}
	if defaults != 3 {
		r.Unknown("C03.L2", "defaults", "", fmt.Sprintf("%d `default <level> = []` guards found, expected 3", defaults))
	}
}

// ---- L3
func c03Preamble(c *Ctx) {
	r := c.R
	rp, err := loadPreamble(c.P)
	if err != nil {
		r.Unknown("C03.L3", "preamble", "", err.Error())
		return
	}
	seen := map[string]bool{}
	for _, rule := range rp.rulesNamed("report") {
		// report[level] = matches { vs = <R>; level := "<L>"; matches := vs }
		as := bodyAssignments(rule.Body)
		val := map[string]*rast.Term{}
		for _, a := range as {
			val[a.Var] = a.Term
		}
		keyVar, valVar := "", ""
		if rule.Head.Key != nil {
			keyVar = refHeadName(rule.Head.Key)
		}
		if rule.Head.Value != nil {
			valVar = refHeadName(rule.Head.Value)
		}
		lvlTerm := val[keyVar]
		lvl := ""
		if lvlTerm != nil {
			if s, ok := lvlTerm.Value.(rast.String); ok {
				lvl = string(s)
			}
		}
		// resolve the value variable through var-to-var assignments down to a rule reference
		src := valVar
		for i := 0; i < 5; i++ {
			t, ok := val[src]
			if !ok {
				break
			}
			src = refHeadName(t)
		}
		k := "report:" + lvl
		seen[lvl] = true
		r.Check(lvl != "" && src == lvl, "C03.L3", k, fmt.Sprintf("preamble line %d", rule.Location.Row-1), fmt.Sprintf("report[%q] yields the rule %s", lvl, src), fmt.Sprintf("report[%q] yields the rule %q: that level's results are reported under another severity", lvl, src))
	}
	for _, l := range c03Levels {
		if !seen[l] {
			r.Bad("C03.L3", "report:"+l, "", "the preamble has no report[level] rule for level "+l)
		}
	}
	for l := range seen {
		if !isLevelWord(l) {
			r.Bad("C03.L3", "report-extra:"+l, "", "the preamble reports an unknown level "+l)
		}
	}
}

// ---- L4
func c03ReportBuilder(c *Ctx) {
	r, p := c.R, c.P
	pk := p.Pkg("internal/validator")
	if pk == nil {
		r.Unknown("C03.L4", "package", "", "internal/validator not found")
		return
	}
	info := pk.TypesInfo
	// the builder: the function with a *rego.ResultSet parameter
	var build *ast.FuncDecl
	for _, f := range pk.Syntax {
		for _, d := range f.Decls {
			fd, ok := d.(*ast.FuncDecl)
			if !ok || fd.Body == nil || fd.Type.Params == nil {
				continue
			}
			for _, prm := range fd.Type.Params.List {
				if tv, ok := info.Types[prm.Type]; ok && strings.HasSuffix(tv.Type.String(), "rego.ResultSet") {
					// choose the one that indexes the result by string keys
					hasKey := false
					ast.Inspect(fd.Body, func(n ast.Node) bool {
						if ix, ok := n.(*ast.IndexExpr); ok {
							if s, ok := constString(info, ix.Index); ok && isLevelWord(s) {
								hasKey = true
							}
						}
						return true
					})
					if hasKey {
						build = fd
					}
				}
			}
		}
	}
	if build == nil {
		r.Unknown("C03.L4", "builder", "", "the function that reads the level buckets from the evaluation result was not found")
		return
	}
	// bucket variables: v := m["K"].([]any)
	bucket := map[types.Object]string{}
	ast.Inspect(build.Body, func(n ast.Node) bool {
		as, ok := n.(*ast.AssignStmt)
		if !ok || len(as.Lhs) != 1 || len(as.Rhs) != 1 {
			return true
		}
		var key string
		ast.Inspect(as.Rhs[0], func(m ast.Node) bool {
			if ix, ok := m.(*ast.IndexExpr); ok {
				if s, ok := constString(info, ix.Index); ok && (isLevelWord(s)) {
					key = s
				}
			}
			return true
		})
		if key != "" {
			if id, ok := as.Lhs[0].(*ast.Ident); ok {
				bucket[info.Defs[id]] = key
			}
		}
		return true
	})
	keys := []string{}
	for _, k := range bucket {
		keys = append(keys, k)
	}
	sort.Strings(keys)
	if strings.Join(keys, ",") != "info,violation,warning" {
		r.Unknown("C03.L4", "buckets", p.Pos(build.Pos()), "the buckets read from the result object are ["+strings.Join(keys, ",")+"], expected one variable per level")
		return
	}
	// conforms
	conformsSeen := false
	ast.Inspect(build.Body, func(n ast.Node) bool {
		as, ok := n.(*ast.AssignStmt)
		if !ok || len(as.Lhs) != 1 || len(as.Rhs) != 1 {
			return true
		}
		id, ok := as.Lhs[0].(*ast.Ident)
		if !ok {
			return true
		}
		o := info.Defs[id]
		if o == nil {
			o = info.Uses[id]
		}
		if o == nil || !c03FlowsToConforms(info, build, o) {
			return true
		}
		conformsSeen = true
		be, ok := ast.Unparen(as.Rhs[0]).(*ast.BinaryExpr)
		okc := false
		why := "conforms is not computed as len(<violation bucket>) == 0: " + types.ExprString(as.Rhs[0])
		if ok && be.Op == token.EQL {
			if call, ok := ast.Unparen(be.X).(*ast.CallExpr); ok && len(call.Args) == 1 {
				if fid, ok := call.Fun.(*ast.Ident); ok && fid.Name == "len" {
					if aid, ok := ast.Unparen(call.Args[0]).(*ast.Ident); ok {
						if v, isZero := constInt(info, be.Y); isZero && v == 0 {
							if bucket[info.Uses[aid]] == "violation" {
								okc = true
							} else {
								why = fmt.Sprintf("conforms is computed from %s (bucket %q), not from the violation bucket: warnings or infos change conforms, or violations do not", aid.Name, bucket[info.Uses[aid]])
							}
						}
					}
				}
			}
		}
		r.Check(okc, "C03.L4", "conforms", p.Pos(as.Pos()), "conforms := len(<bucket read under \"violation\">) == 0", why)
		return true
	})
	if !conformsSeen {
		r.Unknown("C03.L4", "conforms", p.Pos(build.Pos()), "no variable flowing into the report node's conforms parameter was found")
	}
	// the call that tags the buckets: argument i of the callee receives bucket K_i; inside, loops call the tagger with constant level
	var tagCall *ast.CallExpr
	ast.Inspect(build.Body, func(n ast.Node) bool {
		call, ok := n.(*ast.CallExpr)
		if !ok {
			return true
		}
		cnt := 0
		for _, a := range call.Args {
			if id, ok := ast.Unparen(a).(*ast.Ident); ok && bucket[info.Uses[id]] != "" {
				cnt++
			}
		}
		if cnt == 3 {
			tagCall = call
		}
		return true
	})
	if tagCall == nil {
		r.Unknown("C03.L4", "tagging", p.Pos(build.Pos()), "no call receiving the three level buckets was found")
		return
	}
	calleeObj, _ := calleeOf(info, tagCall).(*types.Func)
	var tagger *ast.FuncDecl
	if calleeObj != nil {
		tagger, _ = p.FuncDecl("internal/validator", calleeObj.Name())
	}
	if tagger == nil {
		r.Unknown("C03.L4", "tagging", p.Pos(tagCall.Pos()), "the function that tags the buckets could not be resolved")
		return
	}
	paramBucket := map[types.Object]string{}
	i := 0
	for _, f := range tagger.Type.Params.List {
		for _, name := range f.Names {
			if i < len(tagCall.Args) {
				if id, ok := ast.Unparen(tagCall.Args[i]).(*ast.Ident); ok {
					paramBucket[info.Defs[name]] = bucket[info.Uses[id]]
				}
			}
			i++
		}
	}
	tagged := map[string]bool{}
	ast.Inspect(tagger.Body, func(n ast.Node) bool {
		rs, ok := n.(*ast.RangeStmt)
		if !ok {
			return true
		}
		id, ok := ast.Unparen(rs.X).(*ast.Ident)
		if !ok {
			return true
		}
		key := paramBucket[info.Uses[id]]
		if key == "" {
			return true
		}
		// calls in the body with constant string arguments
		ast.Inspect(rs.Body, func(m ast.Node) bool {
			call, ok := m.(*ast.CallExpr)
			if !ok || len(call.Args) < 2 {
				return true
			}
			callee, ok := calleeOf(info, call).(*types.Func)
			if !ok || callee.Pkg() == nil || !strings.HasPrefix(callee.Pkg().Path(), ModulePath) {
				return true
			}
			lvl, ok1 := constString(info, call.Args[0])
			if !ok1 {
				return true
			}
			prefix := ""
			ast.Inspect(call.Args[1], func(q ast.Node) bool {
				if e, ok := q.(ast.Expr); ok {
					if s, ok := constString(info, e); ok && prefix == "" {
						prefix = s
					}
				}
				return true
			})
			tagged[key] = true
			r.Check(lvl == key && prefix == key+"_", "C03.L4", "bucket:"+key, p.Pos(call.Pos()), fmt.Sprintf("results read under %q are tagged %q with ids %q+i", key, lvl, prefix), fmt.Sprintf("results read under %q are tagged with severity %q and id prefix %q", key, lvl, prefix))
			return true
		})
		return true
	})
	for _, l := range c03Levels {
		if !tagged[l] {
			r.Unknown("C03.L4", "bucket:"+l, p.Pos(tagger.Pos()), "no loop tagging the "+l+" bucket with a constant level was recognised")
		}
	}
	// severity IRI: the function that stores "resultSeverity" builds it from its level parameter
	sevOK, sevSeen := false, false
	for _, f := range pk.Syntax {
		ast.Inspect(f, func(n ast.Node) bool {
			as, ok := n.(*ast.AssignStmt)
			if !ok || len(as.Lhs) != 1 || len(as.Rhs) != 1 {
				return true
			}
			ix, ok := as.Lhs[0].(*ast.IndexExpr)
			if !ok {
				return true
			}
			if s, ok := constString(info, ix.Index); !ok || s != "resultSeverity" {
				return true
			}
			sevSeen = true
			be, ok := ast.Unparen(as.Rhs[0]).(*ast.BinaryExpr)
			if !ok || be.Op != token.ADD {
				return true
			}
			ns, ok1 := constString(info, be.X)
			call, ok2 := ast.Unparen(be.Y).(*ast.CallExpr)
			if ok1 && ok2 && ns == "http://www.w3.org/ns/shacl#" && (funcFullName(calleeOf(info, call)) == "strings.Title") && len(call.Args) == 1 {
				if id, ok := ast.Unparen(call.Args[0]).(*ast.Ident); ok {
					if _, isParam := info.Uses[id].(*types.Var); isParam {
						sevOK = true
					}
				}
			}
			return true
		})
	}
	if sevSeen {
		r.Check(sevOK, "C03.L4", "severity-iri", "", "resultSeverity = shacl# + Title(level parameter)", "resultSeverity is not the SHACL namespace followed by the capitalised level parameter")
	} else {
		r.Unknown("C03.L4", "severity-iri", "", "no assignment of resultSeverity found")
	}
}

// c03FlowsToConforms: the variable is passed to a module function at a parameter named conforms or of type bool that
// ends up under the "conforms" key. Approximated: the variable is passed as an argument to the function that builds
// the map with a "conforms" key, at the position of the parameter stored under that key.
func c03FlowsToConforms(info *types.Info, fd *ast.FuncDecl, o types.Object) bool {
	if v, ok := o.(*types.Var); !ok || !types.Identical(v.Type(), types.Typ[types.Bool]) {
		return false
	}
	used := false
	ast.Inspect(fd.Body, func(n ast.Node) bool {
		call, ok := n.(*ast.CallExpr)
		if !ok {
			return true
		}
		for _, a := range call.Args {
			if id, ok := ast.Unparen(a).(*ast.Ident); ok && info.Uses[id] == o {
				used = true
			}
		}
		return true
	})
	return used
}

// ---- L5
func c03ReportNode(c *Ctx) {
	r, p := c.R, c.P
	pk := p.Pkg("internal/validator")
	if pk == nil {
		return
	}
	info := pk.TypesInfo
	// the node builder: the function containing a composite literal with keys "conforms" and "profileName"
	var node *ast.FuncDecl
	var lit *ast.CompositeLit
	for _, f := range pk.Syntax {
		for _, d := range f.Decls {
			fd, ok := d.(*ast.FuncDecl)
			if !ok || fd.Body == nil {
				continue
			}
			ast.Inspect(fd.Body, func(n ast.Node) bool {
				cl, ok := n.(*ast.CompositeLit)
				if !ok {
					return true
				}
				keys := map[string]bool{}
				for _, el := range cl.Elts {
					if kv, ok := el.(*ast.KeyValueExpr); ok {
						if s, ok := constString(info, kv.Key); ok {
							keys[s] = true
						}
					}
				}
				if keys["conforms"] && keys["profileName"] {
					node, lit = fd, cl
				}
				return true
			})
		}
	}
	if node == nil {
		r.Unknown("C03.L5", "report-node", "", "no map literal with the keys conforms and profileName found")
		return
	}
	params := map[types.Object]bool{}
	for _, f := range node.Type.Params.List {
		for _, n := range f.Names {
			params[info.Defs[n]] = true
		}
	}
	for _, el := range lit.Elts {
		kv := el.(*ast.KeyValueExpr)
		key, _ := constString(info, kv.Key)
		if key != "conforms" && key != "profileName" {
			continue
		}
		id, ok := ast.Unparen(kv.Value).(*ast.Ident)
		r.Check(ok && params[info.Uses[id]], "C03.L5", "node:"+key, p.Pos(kv.Pos()), key+" is the parameter unchanged", key+" is not the function's parameter passed through unchanged: "+types.ExprString(kv.Value))
	}
	// conditional keys
	condKeys := map[string]bool{}
	ast.Inspect(node.Body, func(n ast.Node) bool {
		ifs, ok := n.(*ast.IfStmt)
		if !ok {
			return true
		}
		for _, st := range ifs.Body.List {
			as, ok := st.(*ast.AssignStmt)
			if !ok || len(as.Lhs) != 1 {
				continue
			}
			ix, ok := as.Lhs[0].(*ast.IndexExpr)
			if !ok {
				continue
			}
			key, ok := constString(info, ix.Index)
			if !ok {
				continue
			}
			condKeys[key] = true
			cond := types.ExprString(ifs.Cond)
			switch key {
			case "result":
				okc := false
				if be, ok := ast.Unparen(ifs.Cond).(*ast.BinaryExpr); ok && (be.Op == token.NEQ || be.Op == token.GTR) {
					if call, ok := ast.Unparen(be.X).(*ast.CallExpr); ok && len(call.Args) == 1 {
						if fid, ok := call.Fun.(*ast.Ident); ok && fid.Name == "len" {
							if v, ok := constInt(info, be.Y); ok && v == 0 {
								// and the stored value is the same slice
								if aid, ok := ast.Unparen(call.Args[0]).(*ast.Ident); ok {
									if vid, ok := ast.Unparen(as.Rhs[0]).(*ast.Ident); ok && info.Uses[aid] == info.Uses[vid] && params[info.Uses[vid]] {
										okc = true
									}
								}
							}
						}
					}
				}
				r.Check(okc, "C03.L5", "node:result", p.Pos(ifs.Pos()), "result is stored exactly when len(results) != 0, and is the results parameter", "the result key is stored under the condition `"+cond+"`, not exactly when the result list is non-empty")
			case "dateCreated":
				okc := false
				if sel, ok := ast.Unparen(ifs.Cond).(*ast.SelectorExpr); ok && sel.Sel.Name == "IncludeReportCreationTime" {
					okc = true
				}
				r.Check(okc, "C03.L5", "node:dateCreated", p.Pos(ifs.Pos()), "dateCreated is stored exactly when the report configuration asks for it", "dateCreated is stored under the condition `"+cond+"`")
				// value: <config>.ReportCreationTime().Format(layout with zone)
				okv, why := false, "the value is not the configured clock formatted with a zone-preserving layout: "+types.ExprString(as.Rhs[0])
				if call, ok := ast.Unparen(as.Rhs[0]).(*ast.CallExpr); ok && funcFullName(calleeOf(info, call)) == "(time.Time).Format" && len(call.Args) == 1 {
					layout, lok := constString(info, call.Args[0])
					recv := call.Fun.(*ast.SelectorExpr).X
					utc := false
					if rc, ok := ast.Unparen(recv).(*ast.CallExpr); ok && funcFullName(calleeOf(info, rc)) == "(time.Time).UTC" {
						utc = true
						recv = rc.Fun.(*ast.SelectorExpr).X
					}
					clock := false
					if rc, ok := ast.Unparen(recv).(*ast.CallExpr); ok {
						if f, ok := calleeOf(info, rc).(*types.Func); ok && f.Name() == "ReportCreationTime" {
							clock = true
						}
					}
					zone := lok && (strings.Contains(layout, "Z07") || strings.Contains(layout, "-07") || strings.Contains(layout, "MST"))
					if clock && lok && (zone || (utc && strings.HasSuffix(layout, "Z"))) {
						okv = true
					} else if clock && lok {
						why = fmt.Sprintf("the configured time is formatted with the layout %q, which drops the zone offset: the printed instant differs from the configured one outside UTC", layout)
					}
				}
				r.Check(okv, "C03.L5", "node:dateCreated-value", p.Pos(as.Pos()), "dateCreated = configured clock, RFC 3339 with zone offset", why)
			}
		}
		return true
	})
	for _, k := range []string{"result", "dateCreated"} {
		if !condKeys[k] {
			// stored unconditionally?
			uncond := false
			for _, el := range lit.Elts {
				if kv, ok := el.(*ast.KeyValueExpr); ok {
					if s, _ := constString(info, kv.Key); s == k {
						uncond = true
					}
				}
			}
			if uncond {
				r.Bad("C03.L5", "node:"+k, p.Pos(lit.Pos()), k+" is stored unconditionally in the report node")
			} else {
				r.Unknown("C03.L5", "node:"+k, p.Pos(node.Pos()), "no conditional store of "+k+" was recognised")
			}
		}
	}
	// profileName originates from report["profile"], which the generator defines from Profile.Name only
	gen := p.Pkg("internal/generator")
	if gen != nil {
		okName, seenTpl := false, false
		for _, f := range gen.Syntax {
			ast.Inspect(f, func(n ast.Node) bool {
				call, ok := n.(*ast.CallExpr)
				if !ok || funcFullName(calleeOf(gen.TypesInfo, call)) != "fmt.Sprintf" || len(call.Args) != 2 {
					return true
				}
				format, ok := constString(gen.TypesInfo, call.Args[0])
				if !ok || !strings.HasPrefix(format, `report["profile"]`) {
					return true
				}
				seenTpl = true
				found := false
				ast.Inspect(call.Args[1], func(m ast.Node) bool {
					if sel, ok := m.(*ast.SelectorExpr); ok && sel.Sel.Name == "Name" {
						if s := gen.TypesInfo.Selections[sel]; s != nil {
							if nt := namedOf(s.Recv()); nt != nil && nt.Obj().Name() == "Profile" {
								found = true
							}
						}
					}
					return true
				})
				okName = found
				return true
			})
		}
		if seenTpl {
			r.Check(okName, "C03.L5", "profile-name-source", "", `report["profile"] is generated from Profile.Name`, `the report["profile"] rule is not generated from Profile.Name`)
		} else {
			r.Unknown("C03.L5", "profile-name-source", "", `no template defining report["profile"] found in the generator`)
		}
	}
}

// ---- L6
func c03ConfigCensus(c *Ctx) {
	r, p := c.R, c.P
	cfg := p.Pkg("pkg/config")
	if cfg == nil {
		r.Unknown("C03.L6", "pkg/config", "", "package not found")
		return
	}
	var rc *types.Named
	for _, n := range cfg.Types.Scope().Names() {
		if tn, ok := cfg.Types.Scope().Lookup(n).(*types.TypeName); ok {
			if st, ok := tn.Type().Underlying().(*types.Struct); ok && st.NumFields() >= 2 {
				for i := 0; i < st.NumFields(); i++ {
					if st.Field(i).Name() == "IncludeReportCreationTime" {
						rc, _ = tn.Type().(*types.Named)
					}
				}
			}
		}
	}
	if rc == nil {
		r.Unknown("C03.L6", "ReportConfiguration", "", "the report configuration struct was not found")
		return
	}
	reads := map[string][]string{}
	for _, pk := range p.modPkgsSorted() {
		if relOf(pk) == "js" || relOf(pk) == "pkg/config" {
			continue
		}
		forEachFieldRead(pk, rc, func(field, fn string, pos token.Pos) {
			reads[field] = append(reads[field], relOf(pk)+"."+fn)
		})
	}
	st := rc.Underlying().(*types.Struct)
	for i := 0; i < st.NumFields(); i++ {
		f := st.Field(i).Name()
		where := reads[f]
		sort.Strings(where)
		allowed := true
		for _, w := range where {
			switch {
			case f == "IncludeReportCreationTime" && strings.HasPrefix(w, "internal/validator."):
			case f != "IncludeReportCreationTime" && strings.HasPrefix(w, "internal/validator/contexts."):
			default:
				allowed = false
			}
		}
		// IncludeReportCreationTime must be read in exactly one function (the report node builder)
		if f == "IncludeReportCreationTime" {
			uniq := map[string]bool{}
			for _, w := range where {
				uniq[w] = true
			}
			if len(uniq) != 1 {
				allowed = false
			}
		}
		r.Check(allowed && len(where) > 0, "C03.L6", "ReportConfiguration."+f, "", "read only in "+strings.Join(where, ", "), fmt.Sprintf("the report configuration field %s is read in [%s]: the configuration influences more than the creation time / the context's schema IRIs (or is not read at all)", f, strings.Join(where, ", ")))
	}
}

func forEachFieldRead(pk *packages.Package, owner *types.Named, f func(field, fn string, pos token.Pos)) {
	for _, file := range pk.Syntax {
		ast.Inspect(file, func(n ast.Node) bool {
			sel, ok := n.(*ast.SelectorExpr)
			if !ok {
				return true
			}
			s := pk.TypesInfo.Selections[sel]
			if s == nil || s.Kind() != types.FieldVal {
				return true
			}
			if namedOf(s.Recv()) == owner {
				f(sel.Sel.Name, enclosingFuncName(pk, sel.Pos()), sel.Pos())
			}
			return true
		})
	}
}

var _ = constant.MakeBool

// fromFreshName: the identifier is a local variable whose only definition is a call to a string-returning function of
// the profile parser package (the fresh-name generator).
func fromFreshName(pk *packages.Package, id *ast.Ident) bool {
	obj := pk.TypesInfo.Uses[id]
	if obj == nil {
		return false
	}
	found := false
	for _, f := range pk.Syntax {
		ast.Inspect(f, func(n ast.Node) bool {
			as, ok := n.(*ast.AssignStmt)
			if !ok || len(as.Lhs) != len(as.Rhs) {
				return true
			}
			for i, lhs := range as.Lhs {
				lid, ok := lhs.(*ast.Ident)
				if !ok || (pk.TypesInfo.Defs[lid] != obj && pk.TypesInfo.Uses[lid] != obj) {
					continue
				}
				if call, ok := ast.Unparen(as.Rhs[i]).(*ast.CallExpr); ok {
					if fn, ok := calleeOf(pk.TypesInfo, call).(*types.Func); ok && fn.Pkg() != nil && strings.HasSuffix(fn.Pkg().Path(), "/internal/parser/profile") {
						found = true
					}
				}
			}
			return true
		})
	}
	return found
}
