package main

import (
	"fmt"
	"go/ast"
	"go/token"
	"go/types"
	"sort"
	"strconv"
	"strings"

	"golang.org/x/tools/go/ssa"
)

func init() { register("C13", checkC13) }

// fields through which the texts the property names travel
var c13Fields = []string{"Profile.Name", "BaseStatement.Name", "Message.Expression", "ScalarSetRule.Argument", "PatternRule.Argument", "TopLevelExpression.Message"}

// user-supplied Rego is code by design
var codeFields = []string{"RegoRule.Argument", "Profile.CustomRego"}

func hasAny(t *taintVal, fields []string) bool {
	for _, f := range fields {
		if t.sources[f] {
			return true
		}
	}
	return false
}

// generatorSinks: formatting sites of the generator package and of the module functions whose results it pastes.
func generatorSinks(p *Prog, te *taintEngine) ([]sink, []*ssa.Function) {
	var funcs []*ssa.Function
	in := map[*ssa.Function]bool{}
	for _, fn := range te.funcs {
		if RelPkg(fn) == "internal/generator" {
			funcs = append(funcs, fn)
			in[fn] = true
		}
	}
	// helper functions outside the generator whose string results are operands of generator sinks
	for changed := true; changed; {
		changed = false
		for _, s := range collectSinks(funcs) {
			if call, ok := s.Operand.(*ssa.Call); ok {
				if f := call.Call.StaticCallee(); f != nil && IsModuleFunc(f) && !in[f] && f.Blocks != nil && te.sanFn[f] == "" && !strings.HasSuffix(FuncKey(f), ".Expand") {
					if RelPkg(f) == "internal/parser/profile" || RelPkg(f) == "internal/misc" {
						in[f] = true
						funcs = append(funcs, f)
						changed = true
					}
				}
			}
		}
	}
	return collectSinks(funcs), funcs
}

func checkC13(c *Ctx) {
	r, p := c.R, c.P
	r.Explanation = "A context-sensitive taint analysis over the generator. Sources are the YAML wrapper's scalar accessors; taint is propagated through SSA values, struct fields (keyed by the struct the access is rooted in), containers and calls, recording which fields the text travelled through and which neutralising steps every path applied (JSON string encoding, identifier reduction, double-quote replacement, whitespace collapsing, IRI expansion). Every formatting or concatenation site of the generator is a sink; the format string is lexed as Rego to obtain the lexical context of each verb (code, inside \"…\", inside `…`, in a # comment). (Q1) For every sink that a text named by the property reaches (profile name, validation name, message, in/containsAll/containsSome values, pattern) the sanitisers applied must be adequate for the context; a raw-string context is accepted only when the formatted text is used exclusively on the branch where strings.Contains(text, \"`\") is false. (Q2) No format string of the generator ends inside a string literal. (Q3) Placeholders: the message parser replaces each {{p.q}} by %v and records p.q in the same order, doubles literal % signs exactly when at least one placeholder was found, and the generator uses sprintf exactly when the message has variables, each fetched with object.get(<focus>, Expand(p.q), \"null\"). (Q4) Template placeholders of embedded Rego ($message, $result, $node, $traceNode) are substituted only in text that is user Rego, never in lines that contain other profile text."
	r.Declines = []string{"what the report shows for a given string (runtime)", "IRIs and path text are outside this property's list of sources (their sinks are listed in the evidence and judged by C07)"}
	r.Trusted = []string{"encoding/json produces valid JSON string literals, which are valid Rego string literals", "OPA's sprintf treats %% as a literal percent sign"}
	r.Rule("C13.Q1", "every profile text named by the property is adequately neutralised for the lexical context it is pasted into", 8)
	r.Rule("C13.Q2", "no generator format string ends inside a string literal", 20)
	r.Rule("C13.Q3", "placeholders: %v per {{p.q}}, % doubled exactly when placeholders exist, sprintf exactly when variables exist", 3)
	r.Rule("C13.Q4", "embedded-Rego placeholders are substituted only in user Rego text", 1)

	te := newTaintEngine(p)
	te.Run()
	sanNames := map[string]string{}
	for f, k := range te.sanFn {
		sanNames[FuncKey(f)] = k
	}
	r.Analysed["sanitiser_functions"] = sanNames
	tf := []string{}
	for k, v := range te.fields {
		if v != nil && v.tainted {
			tf = append(tf, k.root+":"+k.typ+"."+k.field)
		}
	}
	sort.Strings(tf)
	r.Analysed["tainted_fields"] = tf
	if len(sanNames) == 0 {
		r.Unknown("C13.Q1", "sanitisers", "", "no JSON string-literal helper was recognised in the module")
	}

	sinks, funcs := generatorSinks(p, te)
	r.Analysed["generator_functions"] = len(funcs)
	r.Analysed["formatting_sites"] = len(sinks)
	ord := ordinal{}
	taintedSinks, other := 0, []string{}
	for _, s := range sinks {
		t := te.get(s.Operand)
		if t == nil || !t.tainted {
			continue
		}
		if hasAny(t, codeFields) && !hasAny(t, c13Fields) {
			continue
		}
		key := ord.next(FuncKey(s.Fn) + "#" + shortFormat(s.Format))
		if !hasAny(t, c13Fields) {
			ok, why := adequate(t, s.Hole)
			other = append(other, fmt.Sprintf("%s [%s] sources=%s sanitised=%s adequate=%v (%s)", key, s.Hole.Ctx, t.srcList(), t.sanList(), ok, why))
			continue
		}
		taintedSinks++
		ok, why := adequate(t, s.Hole)
		if !ok && s.Hole.Ctx == ctxRaw {
			if g, gw := rawStringGuarded(s); g {
				ok, why = true, gw
			}
		}
		// a template result that already went through an adequate sink may be pasted as code
		pos := p.Pos(s.Instr.Pos())
		if ok {
			r.OK("C13.Q1", key, pos, fmt.Sprintf("%s: text from %s, %s", describeSink(p, s), t.srcList(), why))
		} else {
			r.Bad("C13.Q1", key, pos, fmt.Sprintf("%s: text from %s (sanitisers on every path: [%s]): %s", describeSink(p, s), t.srcList(), t.sanList(), why))
		}
	}
	r.Analysed["sinks_reached_by_property_sources"] = taintedSinks
	r.Analysed["sinks_reached_by_other_profile_text"] = other

	// ---- Q2
	seenFmt := map[string]bool{}
	for _, s := range sinks {
		if s.Kind != "sprintf" || seenFmt[FuncKey(s.Fn)+s.Format] {
			continue
		}
		seenFmt[FuncKey(s.Fn)+s.Format] = true
		_, end := scanFormat(s.Format, ctxCode)
		k := FuncKey(s.Fn) + "#" + shortFormat(s.Format)
		r.Check(end == ctxCode || end == ctxComment, "C13.Q2", k, p.Pos(s.Instr.Pos()), "the template ends outside string literals", "the template ends "+end.String()+": the next fragment is swallowed by an unterminated string")
	}

	// ---- Q3
	c13Placeholders(c, te)

	// ---- Q5: the printed form of a rule (String()) is lossy: list values are joined with "," without quotes, the embedded
	// Rego is not printed at all. It may order operands (sorting is total on the text) but must never decide identity:
	// comparing two printed forms for equality, or using one as a map key, lets a character inside a value (a comma)
	// merge or drop constraints.
	r.Rule("C13.Q5", "the lossy printed form of a rule never decides equality (no ==, != or map key on Rule.String())", 1)
	q5 := 0
	uses := 0
	isRuleString := func(v ssa.Value) bool {
		call, ok := v.(*ssa.Call)
		if !ok {
			return false
		}
		cc := call.Call
		if cc.IsInvoke() {
			return cc.Method.Name() == "String" && strings.Contains(cc.Value.Type().String(), "/parser/profile.")
		}
		if f := cc.StaticCallee(); f != nil && f.Name() == "String" && f.Signature.Recv() != nil {
			return strings.Contains(f.Signature.Recv().Type().String(), "/parser/profile.")
		}
		return false
	}
	for _, fn := range p.ModuleFuncs() {
		rel := RelPkg(fn)
		if rel != "internal/generator" && rel != "internal/validator" && rel != "internal/parser/profile" {
			continue
		}
		if strings.HasSuffix(p.Fset.Position(fn.Pos()).Filename, "_test.go") || strings.HasSuffix(p.Fset.Position(fn.Pos()).Filename, "test_utils.go") {
			continue
		}
		// the ordering itself (Less / Compare methods) compares printed forms with < and >: allowed
		for _, b := range fn.Blocks {
			for _, ins := range b.Instrs {
				switch x := ins.(type) {
				case *ssa.BinOp:
					if x.Op != token.EQL && x.Op != token.NEQ {
						continue
					}
					if isRuleString(x.X) || isRuleString(x.Y) {
						uses++
						q5++
						r.Bad("C13.Q5", FuncKey(fn)+"#string-equality", p.Pos(x.Pos()), "two rules are compared through their printed form: the form joins list values with commas and omits embedded Rego, so different constraints can print alike and be taken for the same")
					}
				case *ssa.MapUpdate:
					if isRuleString(x.Key) {
						uses++
						q5++
						r.Bad("C13.Q5", FuncKey(fn)+"#string-key", p.Pos(x.Pos()), "the printed form of a rule is used as a map key: different constraints that print alike collapse into one entry")
					}
				case *ssa.Lookup:
					if isRuleString(x.Index) {
						uses++
						q5++
						r.Bad("C13.Q5", FuncKey(fn)+"#string-key", p.Pos(x.Pos()), "the printed form of a rule is used as a map key: different constraints that print alike collapse into one entry")
					}
				}
			}
		}
	}
	if q5 == 0 {
		r.OK("C13.Q5", "census", "", "no equality test or map key on the printed form of a rule in the parser, generator or validator")
	}

	// ---- Q4: placeholder substitution on tainted text
	n4 := 0
	for _, fn := range funcs {
		ord4 := ordinal{}
		for _, b := range fn.Blocks {
			for _, ins := range b.Instrs {
				call, ok := ins.(*ssa.Call)
				if !ok {
					continue
				}
				name := funcFullName(ssaCalleeObj(call))
				if name != "strings.Contains" && name != "strings.ReplaceAll" && name != "strings.Replace" {
					continue
				}
				needle, ok := constStringOf(call.Call.Args[1])
				if !ok || !strings.HasPrefix(needle, "$") {
					continue
				}
				n4++
				t := te.get(call.Call.Args[0])
				k := ord4.next(FuncKey(fn) + "#" + needle)
				if t == nil || !t.tainted {
					r.OK("C13.Q4", k, p.Pos(ins.Pos()), "applied to text without profile data")
					continue
				}
				var foreign []string
				for src := range t.sources {
					isCode := false
					for _, cf := range codeFields {
						if src == cf {
							isCode = true
						}
					}
					if textual, known := fieldTextual[src]; known && !textual {
						continue // a container the rule travelled through (rule lists, yaml nodes), not text
					}
					if !isCode && src != "yaml-scalar" && src != "yaml-key" && src != "SimpleRegoResult.Rego" && src != "AtomicStatement.Path" && src != "AtomicStatement.Variable" {
						foreign = append(foreign, src)
					}
				}
				sort.Strings(foreign)
				r.Check(len(foreign) == 0, "C13.Q4", k, p.Pos(ins.Pos()), "applied to user Rego text only", "the placeholder "+needle+" is searched/substituted in lines that also carry other profile text ("+strings.Join(foreign, ", ")+"): a list value or message containing "+needle+" changes the generated code")
			}
		}
	}
	if n4 == 0 {
		r.OK("C13.Q4", "no-placeholder-substitution", "", "the generator performs no $placeholder substitution")
	}
}

func shortFormat(f string) string {
	f = strings.ReplaceAll(f, "\n", "\\n")
	if len(f) > 48 {
		f = f[:45] + "..."
	}
	return f
}

// rawStringGuarded: the text formatted between backticks is only used through phi edges that leave the false branch
// of `if strings.Contains(<same operand>, "`")`.
func rawStringGuarded(s sink) (bool, string) {
	res, ok := s.Instr.(ssa.Value)
	if !ok {
		return false, ""
	}
	refs := nonDebugRefs(res)
	// the literal may be completed by further concatenations (the closing delimiter): follow them to the finished text
	for depth := 0; depth < 4 && len(refs) == 1; depth++ {
		bo, ok := refs[0].(*ssa.BinOp)
		if !ok || bo.Op != token.ADD {
			break
		}
		res = bo
		refs = nonDebugRefs(res)
	}
	if len(refs) == 0 {
		return false, ""
	}
	for _, ref := range refs {
		phi, ok := ref.(*ssa.Phi)
		if !ok {
			return false, ""
		}
		for i, e := range phi.Edges {
			if e != res {
				continue
			}
			pred := phi.Block().Preds[i]
			iff, ok := pred.Instrs[len(pred.Instrs)-1].(*ssa.If)
			if !ok {
				return false, ""
			}
			call, ok := iff.Cond.(*ssa.Call)
			if !ok || funcFullName(ssaCalleeObj(call)) != "strings.Contains" {
				return false, ""
			}
			needle, _ := constStringOf(call.Call.Args[1])
			if needle != "`" || !sameStringSource(call.Call.Args[0], s.Operand) {
				return false, ""
			}
			// the phi is reached from pred through the false successor
			if pred.Succs[1] != phi.Block() {
				return false, ""
			}
		}
	}
	return true, "used only where strings.Contains(text, \"`\") is false: the raw string cannot be terminated early"
}

func sameStringSource(a, b ssa.Value) bool {
	a, b = stripIface(a), stripIface(b)
	if a == b {
		return true
	}
	return fieldPath(a) != "" && fieldPath(a) == fieldPath(b)
}

// fieldPath names a read of a (nested) field of a parameter or local: "pattern.Argument".
func fieldPath(v ssa.Value) string {
	switch x := v.(type) {
	case *ssa.Field:
		if base := fieldPath(x.X); base != "" {
			return base + "." + fmt.Sprint(x.Field)
		}
	case *ssa.FieldAddr:
		if base := fieldPath(x.X); base != "" {
			return base + "." + fmt.Sprint(x.Field)
		}
	case *ssa.UnOp:
		if x.Op == token.MUL {
			return fieldPath(x.X)
		}
	case *ssa.Parameter:
		return x.Name()
	case *ssa.Alloc:
		return "&" + x.Comment
	}
	return ""
}

// c13Placeholders: rule Q3.
func c13Placeholders(c *Ctx, te *taintEngine) {
	r := c.R
	// the message parser: the function of the profile package that returns a struct with Expression and Variables
	var parser *ssa.Function
	for _, fn := range te.funcs {
		if RelPkg(fn) != "internal/parser/profile" || fn.Signature.Results().Len() != 1 {
			continue
		}
		if typeName(fn.Signature.Results().At(0).Type()) == "Message" && fn.Signature.Params().Len() == 1 && isStringType(fn.Signature.Params().At(0).Type()) {
			parser = fn
		}
	}
	if parser == nil {
		r.Unknown("C13.Q3", "message-parser", "", "the function that parses message expressions was not found")
		return
	}
	key := FuncKey(parser)
	c13MessageParserShape(c, parser, key)
	c13MessageFormatterShape(c)
}

// c13MessageParserShape (Q3, parser side), decided on the value the message parser returns (E-sym), however its loops
// and tests are written.  With M the list of placeholder matches (FindAllStringSubmatch on the raw text):
//   - Variables is [for every match m of M: m[1]] — every occurrence recorded, in order, unconditionally;
//   - when M is not empty, Expression is the raw text with % doubled first and then, for every match m of M, m[0]
//     replaced by %v (a fold over M whose step is ReplaceAll(acc, m[0], "%v"));
//   - when M is empty, Expression is the raw text unchanged (it is not used as a format then).
func c13MessageParserShape(c *Ctx, parser *ssa.Function, key string) {
	r, p := c.R, c.P
	fd, _ := parser.Syntax().(*ast.FuncDecl)
	pk := p.Pkg("internal/parser/profile")
	if fd == nil || fd.Body == nil || pk == nil {
		r.Unknown("C13.Q3", key+"#shape", p.Pos(parser.Pos()), "no syntax for the message parser")
		return
	}
	raw := firstParamObj(pk.TypesInfo, fd)
	type ret struct {
		conds []symCond
		val   *Sym
	}
	var rets []ret
	proto := &symWalker{Inline: samePkgInline(pk)}
	proto.OnReturn = func(w *symWalker, rs *ast.ReturnStmt, results []*Sym) {
		if w.depth == 0 && len(results) == 1 {
			rets = append(rets, ret{w.Conds(), results[0]})
		}
	}
	p.SymWalk(pk, fd, proto, nil)
	if len(rets) == 0 || raw == nil {
		r.Unknown("C13.Q3", key+"#shape", p.Pos(parser.Pos()), "the value returned by the message parser could not be evaluated")
		return
	}
	isRaw := func(s *Sym) bool { return s != nil && s.K == symVar && s.Obj == raw }
	// M: the matches
	var M *Sym
	for _, rt := range rets {
		rt.val.Walk(func(q *Sym) {
			if M == nil && q.K == symCall && strings.HasSuffix(q.Fn, ".FindAllStringSubmatch") && len(q.Parts) == 2 && isRaw(q.Parts[0]) {
				M = q
			}
		})
	}
	if M == nil {
		r.Unknown("C13.Q3", key+"#shape", p.Pos(parser.Pos()), "the list of placeholder matches (FindAllStringSubmatch on the message text) does not appear in the returned value: "+shortFormat(rets[0].val.String()))
		return
	}
	ms := M.String()
	group := func(s *Sym, k int64) bool {
		// M[*][k]
		if s == nil || s.K != symIndex || s.X == nil || s.X.K != symElem || s.X.X == nil || s.X.X.String() != ms {
			return false
		}
		i, ok := s.Y.ConstInt()
		return ok && i == k
	}
	replaceAll := func(s *Sym) ([]*Sym, bool) {
		if s != nil && s.K == symCall && s.Fn == "strings.ReplaceAll" && len(s.Parts) == 3 {
			return s.Parts, true
		}
		return nil, false
	}
	var pctWhy, occWhy, wholeWhy []string
	worlds := 0
	for _, rt := range rets {
		for _, empty := range []bool{false, true} {
			// is this return possible in this world?
			feasible := true
			for _, cd := range rt.conds {
				if x, ok, isEmpty := cd.Emptiness(); ok && x != nil && x.String() == ms && isEmpty != empty {
					feasible = false
				}
			}
			if !feasible {
				continue
			}
			worlds++
			v := rt.val.ResolveEmptiness(ms, empty)
			expr, okE := v.FieldDeep("Expression")
			vars, okV := v.FieldDeep("Variables")
			if !okE || !okV {
				occWhy = append(occWhy, "the returned value has no Expression / Variables: "+shortFormat(v.String()))
				continue
			}
			if empty {
				// no placeholders: the text is not a format; it must come back unchanged
				e := expr
				if e.K == symCall && e.Fn == "fold" && len(e.Parts) == 2 && e.X != nil && e.X.String() == ms {
					e = e.Parts[0] // a fold over no matches is its initial value
				}
				if !isRaw(e) {
					pctWhy = append(pctWhy, "without placeholders the text is not returned as written ("+shortFormat(e.String())+"): it is not used as a sprintf format then, so a doubled % would be printed twice")
				}
				continue
			}
			// Variables
			okVars := vars.K == symList && len(vars.Parts) == 1 && vars.Parts[0].K == symRepeat && vars.Parts[0].X != nil && vars.Parts[0].X.String() == ms && len(vars.Parts[0].Parts) == 1 && group(vars.Parts[0].Parts[0], 1)
			if !okVars {
				occWhy = append(occWhy, "the recorded variables are "+shortFormat(vars.String())+", not `the capture of every match, in order`: the text replacement puts one %v per occurrence, so a placeholder that is skipped, filtered or recorded once leaves later verbs without their argument (shifted values, %!v(MISSING))")
			}
			// Expression
			if expr.K != symCall || expr.Fn != "fold" || len(expr.Parts) != 2 || expr.X == nil || expr.X.String() != ms {
				occWhy = append(occWhy, "the format text is "+shortFormat(expr.String())+", not the result of replacing every match in turn")
				continue
			}
			init, step := expr.Parts[0], expr.Parts[1]
			if sp, ok := replaceAll(step); !ok || sp[0].K != symAcc {
				occWhy = append(occWhy, "one iteration turns the text into "+shortFormat(step.String())+", not into `the text so far with this match replaced`")
			} else {
				if to, ok := sp[2].ConstString(); !ok || to != "%v" {
					wholeWhy = append(wholeWhy, "a match is replaced by "+shortFormat(sp[2].String())+", not by %v")
				}
				if !group(sp[1], 0) {
					wholeWhy = append(wholeWhy, "the text replaced by %v is "+shortFormat(sp[1].String())+", not the whole placeholder match")
				}
			}
			if ip, ok := replaceAll(init); ok && isRaw(ip[0]) {
				from, _ := ip[1].ConstString()
				to, _ := ip[2].ConstString()
				if from != "%" || to != "%%" {
					pctWhy = append(pctWhy, "before the placeholders are replaced the text is rewritten "+strconv.Quote(from)+" -> "+strconv.Quote(to)+", not % -> %%")
				}
			} else {
				pctWhy = append(pctWhy, "with placeholders the replacement starts from "+shortFormat(init.String())+", not from the text with every % doubled: a literal % in the message is interpreted by sprintf (or the inserted %v is doubled, when the doubling happens afterwards)")
			}
		}
	}
	if worlds == 0 {
		r.Unknown("C13.Q3", key+"#shape", p.Pos(parser.Pos()), "no return of the message parser could be related to the list of matches")
		return
	}
	r.Check(len(pctWhy) == 0, "C13.Q3", key+"#percent", p.Pos(parser.Pos()), "% is doubled exactly when placeholders were found, before they are replaced", strings.Join(pctWhy, "; "))
	r.Check(len(occWhy) == 0, "C13.Q3", key+"#every-occurrence", p.Pos(parser.Pos()), "every match is replaced by %v and recorded as a variable, unconditionally", strings.Join(occWhy, "; "))
	r.Check(len(wholeWhy) == 0, "C13.Q3", key+"#replace-whole-match", p.Pos(parser.Pos()), "each whole {{…}} match is replaced by one %v", strings.Join(wholeWhy, "; "))
}

// c13MessageFormatterShape (Q3, generator side), decided on the lines the message-formatting function returns (E-sym).
// With V the Variables of the message it is given:
//   - one line `<name> := object.get(<focus>, "<iri>", "null")` is emitted for every element of V, unconditionally, and
//     <name> is made from the element's position (the same property may occur twice, and each name is declared with :=);
//   - `message := sprintf("<format>", message_vars)` is emitted exactly when there are variables, the plain
//     `message := "<text>"` otherwise, and message_vars lists exactly those names, one per element of V, in order.
func c13MessageFormatterShape(c *Ctx) {
	r, p := c.R, c.P
	gen := p.Pkg("internal/generator")
	if gen == nil {
		r.Unknown("C13.Q3", "sprintf-template", "", "package internal/generator not found")
		return
	}
	inl := samePkgInline(gen)
	inline := func(fn *types.Func) bool {
		sig, ok := fn.Type().(*types.Signature)
		return ok && inl(fn) && !returnsText(sig)
	}
	type found struct {
		text   *Sym
		whens  []*Sym
		colls  []*Sym
		inList *Sym
	}
	formatters := 0
	for _, f := range gen.Syntax {
		for _, d := range f.Decls {
			fd, ok := d.(*ast.FuncDecl)
			if !ok || fd.Body == nil || fd.Type.Params == nil {
				continue
			}
			var msgPrm types.Object
			for _, fl := range fd.Type.Params.List {
				for _, nm := range fl.Names {
					if o := gen.TypesInfo.Defs[nm]; o != nil && typeName(o.Type()) == "Message" {
						msgPrm = o
					}
				}
			}
			if msgPrm == nil {
				continue
			}
			var lists []*Sym
			proto := &symWalker{Inline: inline}
			proto.OnReturn = func(w *symWalker, ret *ast.ReturnStmt, results []*Sym) {
				if w.depth == 0 {
					for _, res := range results {
						if res.K == symList {
							lists = append(lists, res)
						}
					}
				}
			}
			p.SymWalk(gen, fd, proto, nil)
			isV := func(s *Sym) bool {
				return s != nil && s.K == symField && s.Name == "Variables" && s.X != nil && s.X.K == symVar && s.X.Obj == msgPrm
			}
			var sprintfs, plains, gets, argLists []found
			var walk func(parts []*Sym, whens, colls []*Sym)
			walk = func(parts []*Sym, whens, colls []*Sym) {
				for _, part := range parts {
					switch part.K {
					case symRepeat:
						walk(part.Parts, whens, append(append([]*Sym{}, colls...), part))
					case symWhen:
						walk(part.Parts, append(append([]*Sym{}, whens...), part), colls)
					default:
						tpl := part.Template()
						fnd := found{text: part, whens: whens, colls: colls}
						switch {
						case strings.Contains(tpl, "message := sprintf("):
							sprintfs = append(sprintfs, fnd)
						case strings.Contains(tpl, "message := \""):
							plains = append(plains, fnd)
						case strings.Contains(tpl, ":= object.get("):
							gets = append(gets, fnd)
						case strings.Contains(tpl, "message_vars := ["):
							argLists = append(argLists, fnd)
						}
					}
				}
			}
			for _, l := range lists {
				walk(l.Parts, nil, nil)
			}
			if len(sprintfs) == 0 {
				continue
			}
			formatters++
			key := relOf(gen) + "." + fd.Name.Name
			pos := p.Pos(fd.Pos())
			// the collection an emptiness test speaks about counts the variables: V itself or [one entry per element of V]
			countsV := func(x *Sym) bool {
				if isV(x) {
					return true
				}
				return x != nil && x.K == symList && len(x.Parts) == 1 && x.Parts[0].K == symRepeat && isV(x.Parts[0].X) && len(x.Parts[0].Parts) == 1
			}
			guard := func(fnd found) (nonEmpty, empty bool) {
				for _, wh := range fnd.whens {
					if wh.X == nil {
						continue
					}
					if x, ok, isEmpty := (symCond{Cond: wh.X}).Emptiness(); ok && countsV(x) {
						if isEmpty {
							empty = true
						} else {
							nonEmpty = true
						}
					}
				}
				return
			}
			okS := true
			why := ""
			for _, sf := range sprintfs {
				if ne, _ := guard(sf); !ne {
					okS, why = false, "the sprintf line is not emitted under `the message has variables` (a count of its Variables, or of a list with one entry per variable, being non-zero): a message without placeholders would be used as a format, or one with placeholders printed raw"
				}
			}
			if len(plains) == 0 {
				okS, why = false, "no plain `message := \"…\"` line is emitted for messages without variables"
			}
			for _, pl := range plains {
				if _, e := guard(pl); !e {
					okS, why = false, "the plain message line is not emitted under `the message has no variables`"
				}
			}
			r.Check(okS, "C13.Q3", key+"#sprintf-iff-variables", pos, "the message is formatted with sprintf exactly when it has variables", why)
			// object.get(..., "null") once per variable
			okGet, okOne := false, true
			whyOne := ""
			nameTpl := ""
			for _, g := range gets {
				tpl := g.text.Template()
				if !strings.Contains(tpl, "\"null\")") {
					continue
				}
				okGet = true
				if len(g.colls) != 1 || !isV(g.colls[0].X) {
					okOne, whyOne = false, "the object.get line is not emitted once for every element of the message's Variables"
					continue
				}
				rep := g.colls[0]
				if len(rep.Parts) != 1 || rep.Parts[0] != g.text {
					okOne, whyOne = false, "the loop over the message's variables emits "+shortFormat(rep.String())+", not exactly one binding per element (skipped, filtered or merged elements shift or starve the %v verbs)"
					continue
				}
				// the bound name: what precedes ` := object.get(`
				nameTpl = strings.TrimSpace(tpl[:strings.Index(tpl, ":= object.get(")])
				positional := false
				g.text.Walk(func(q *Sym) {
					if q.K == symIdx && isV(q.X) {
						positional = true
					}
					if q.K == symCall && strings.Contains(q.Fn, "Genvar") {
						positional = true
					}
				})
				if !positional || !strings.Contains(nameTpl, "‹#") && !strings.Contains(nameTpl, "Genvar") {
					okOne, whyOne = false, "the variable bound for each placeholder ("+shortFormat(nameTpl)+") is not named after the element's position: the same property can occur twice in a message, and a name declared twice with := does not compile"
				}
			}
			r.Check(okGet, "C13.Q3", key+"#variables-default-null", pos, "each variable is fetched with object.get(<focus>, <iri>, \"null\")", "message variables are not fetched with object.get(…, \"null\")")
			// the argument list
			if len(argLists) == 0 {
				okOne, whyOne = false, "no `message_vars := [...]` line is emitted"
			}
			for _, al := range argLists {
				var reps []*Sym
				al.text.Walk(func(q *Sym) {
					if q.K == symRepeat {
						reps = append(reps, q)
					}
				})
				if len(reps) != 1 || !isV(reps[0].X) || len(reps[0].Parts) != 1 {
					okOne, whyOne = false, "the sprintf arguments are "+shortFormat(al.text.String())+", not one name per element of the message's Variables, in order"
					continue
				}
				if nameTpl != "" && strings.TrimSpace(reps[0].Parts[0].Template()) != nameTpl {
					okOne, whyOne = false, "the sprintf arguments name "+shortFormat(reps[0].Parts[0].Template())+" but the bindings declare "+shortFormat(nameTpl)
				}
			}
			if len(gets) == 0 {
				okOne, whyOne = false, "no binding line is emitted for the message's variables"
			}
			r.Check(okOne, "C13.Q3", key+"#one-binding-per-variable", pos, "every element of Message.Variables is bound under a positional name and listed among the sprintf arguments, unconditionally and in order", whyOne)
		}
	}
	if formatters == 0 {
		r.Unknown("C13.Q3", "sprintf-template", "", "no function of the generator that is handed a Message returns a `message := sprintf(...)` line")
	}
}
