package main

import (
	"bufio"
	"encoding/json"
	"fmt"
	"os"
	"path/filepath"
	"sort"
	"strings"
	"time"
)

type Verdict string

const (
	Discharged Verdict = "discharged"
	Violated   Verdict = "violated"
	Undecided  Verdict = "undecided"
)

// Obligation is one instance of a rule. It is keyed by rule + construct; line numbers appear only in Pos.
type Obligation struct {
	Rule      string  `json:"rule"`
	Construct string  `json:"construct"`
	Verdict   Verdict `json:"verdict"`
	Pos       string  `json:"pos,omitempty"`
	Detail    string  `json:"detail,omitempty"`
}

// Report collects the obligations of one property check.
type Report struct {
	Property    string
	Tier        string
	Seed        int
	Start       time.Time
	Obls        []Obligation
	floors      map[string]int
	ruleDocs    map[string]string
	Analysed    map[string]any
	Explanation string
	Declines    []string
	Assumptions []string
	Trusted     []string
}

func NewReport(property, tier string, seed int) *Report {
	return &Report{Property: property, Tier: tier, Seed: seed, Start: time.Now(), floors: map[string]int{}, ruleDocs: map[string]string{}, Analysed: map[string]any{}}
}

// Rule declares a rule with its documentation and the minimum number of instances confirmed by hand on the tree.
func (r *Report) Rule(id, doc string, floor int) {
	r.ruleDocs[id] = doc
	r.floors[id] = floor
}

func (r *Report) Add(rule, construct string, v Verdict, pos, detail string) {
	r.Obls = append(r.Obls, Obligation{Rule: rule, Construct: construct, Verdict: v, Pos: pos, Detail: detail})
}

func (r *Report) OK(rule, construct, pos, detail string) {
	r.Add(rule, construct, Discharged, pos, detail)
}
func (r *Report) Bad(rule, construct, pos, detail string) {
	r.Add(rule, construct, Violated, pos, detail)
}
func (r *Report) Unknown(rule, construct, pos, detail string) {
	r.Add(rule, construct, Undecided, pos, detail)
}

// Check adds a discharged or violated obligation depending on cond.
func (r *Report) Check(cond bool, rule, construct, pos, okDetail, badDetail string) bool {
	if cond {
		r.OK(rule, construct, pos, okDetail)
	} else {
		r.Bad(rule, construct, pos, badDetail)
	}
	return cond
}

type knownFinding struct{ property, rule, construct, text string }

func loadKnownFindings(path string) ([]knownFinding, error) {
	f, err := os.Open(path)
	if err != nil {
		if os.IsNotExist(err) {
			return nil, nil
		}
		return nil, err
	}
	defer f.Close()
	var out []knownFinding
	sc := bufio.NewScanner(f)
	for sc.Scan() {
		line := strings.TrimSpace(sc.Text())
		if !strings.HasPrefix(line, "finding:") {
			continue // comments, blank lines and "fixed:" entries suppress nothing
		}
		fields := strings.Fields(strings.TrimPrefix(line, "finding:"))
		kf := knownFinding{}
		rest := []string{}
		for _, fld := range fields {
			switch {
			case strings.HasPrefix(fld, "property=") && kf.property == "":
				kf.property = strings.TrimPrefix(fld, "property=")
			case strings.HasPrefix(fld, "rule=") && kf.rule == "":
				kf.rule = strings.TrimPrefix(fld, "rule=")
			case strings.HasPrefix(fld, "construct=") && kf.construct == "":
				kf.construct = strings.TrimPrefix(fld, "construct=")
			default:
				rest = append(rest, fld)
			}
		}
		kf.text = strings.Join(rest, " ")
		if kf.property != "" && kf.rule != "" && kf.construct != "" {
			out = append(out, kf)
		}
	}
	return out, sc.Err()
}

// Finish applies floors, matches known findings, writes the evidence file and replay files, prints the verdict lines
// and returns the process exit code.
func (r *Report) Finish(verifDir string) int {
	// floors: a rule that matches fewer instances than were confirmed by hand has lost its anchor
	counts := map[string]int{}
	for _, o := range r.Obls {
		counts[o.Rule]++
	}
	ruleIDs := make([]string, 0, len(r.floors))
	for id := range r.floors {
		ruleIDs = append(ruleIDs, id)
	}
	sort.Strings(ruleIDs)
	for _, id := range ruleIDs {
		if counts[id] < r.floors[id] {
			r.Unknown(id, "floor", "", fmt.Sprintf("anchor unresolved: the rule matched %d instance(s), at least %d were confirmed by hand on the pinned tree", counts[id], r.floors[id]))
		}
	}
	sort.SliceStable(r.Obls, func(i, j int) bool {
		if r.Obls[i].Rule != r.Obls[j].Rule {
			return r.Obls[i].Rule < r.Obls[j].Rule
		}
		return r.Obls[i].Construct < r.Obls[j].Construct
	})

	known, kerr := loadKnownFindings(filepath.Join(verifDir, "known_findings.txt"))
	if kerr != nil {
		fmt.Printf("error: cannot read known_findings.txt: %v\n", kerr)
	}
	isKnown := func(o Obligation) (knownFinding, bool) {
		for _, k := range known {
			if k.property == r.Property && k.rule == o.Rule && k.construct == o.Construct {
				return k, true
			}
		}
		return knownFinding{}, false
	}

	if r.Assumptions == nil {
		r.Assumptions = append([]string{}, r.Trusted...)
	}
	if r.Declines == nil {
		r.Declines = []string{}
	}
	if r.Trusted == nil {
		r.Trusted = []string{}
	}
	evDir := filepath.Join(verifDir, "evidence")
	replayDir := filepath.Join(evDir, "replay")
	os.MkdirAll(replayDir, 0o755)
	// remove stale replay files of this property
	if old, _ := filepath.Glob(filepath.Join(replayDir, r.Property+"-*.json")); old != nil {
		for _, f := range old {
			os.Remove(f)
		}
	}

	nDis, nViol, nUnd, nKnown := 0, 0, 0, 0
	exit := 0
	type failing struct {
		Obligation
		Known bool `json:"known_finding"`
	}
	var failures []failing
	n := 0
	for _, o := range r.Obls {
		switch o.Verdict {
		case Discharged:
			nDis++
			continue
		case Violated:
			if k, ok := isKnown(o); ok && o.Verdict == Violated {
				nKnown++
				fmt.Printf("KNOWN-FINDING: property=%s %s %s %s\n", r.Property, o.Rule, o.Construct, k.text)
				failures = append(failures, failing{o, true})
				continue
			}
			nViol++
		case Undecided:
			nUnd++
		}
		n++
		replay := filepath.Join(replayDir, fmt.Sprintf("%s-%d.json", r.Property, n))
		b, _ := json.MarshalIndent(map[string]any{"property": r.Property, "tier": r.Tier, "obligation": o, "rule_doc": r.ruleDocs[o.Rule]}, "", "  ")
		os.WriteFile(replay, append(b, '\n'), 0o644)
		rel, _ := filepath.Rel(verifDir, replay)
		fmt.Printf("%s %s %s at %s: %s\n", strings.ToUpper(string(o.Verdict)), o.Rule, o.Construct, o.Pos, o.Detail)
		fmt.Printf("VIOLATION property=%s replay=%s\n", r.Property, rel)
		failures = append(failures, failing{o, false})
		exit = 1
	}

	// evidence
	perRule := map[string]map[string]int{}
	for _, o := range r.Obls {
		m := perRule[o.Rule]
		if m == nil {
			m = map[string]int{}
			perRule[o.Rule] = m
		}
		m[string(o.Verdict)]++
		m["instances"]++
	}
	rules := []map[string]any{}
	ids := []string{}
	for id := range perRule {
		ids = append(ids, id)
	}
	sort.Strings(ids)
	for _, id := range ids {
		rules = append(rules, map[string]any{"rule": id, "doc": r.ruleDocs[id], "floor": r.floors[id], "counts": perRule[id]})
	}
	samples := []any{}
	seenRule := map[string]int{}
	for _, o := range r.Obls {
		if seenRule[o.Rule] < 2 {
			seenRule[o.Rule]++
			samples = append(samples, o)
		}
	}
	distinct := map[string]bool{}
	for _, o := range r.Obls {
		distinct[o.Rule+"\x00"+o.Construct] = true
	}
	cov := map[string]any{
		"explanation":         r.Explanation,
		"obligations":         len(r.Obls),
		"discharged":          nDis,
		"violated":            nViol,
		"undecided":           nUnd,
		"known_findings":      nKnown,
		"evaluations":         len(r.Obls),
		"distinct_nontrivial": len(distinct),
		"rule":                "one obligation per (rule, construct) instance found in /repo's current source; all instances are enumerated, none sampled; an instance is distinct by its rule id and construct key",
		"exhaustive":          true,
		"samples":             samples,
		"rules":               rules,
		"all_obligations":     r.Obls,
		"failing":             failures,
		"analysed":            r.Analysed,
		"declines":            r.Declines,
		"trusted_base":        r.Trusted,
		"checker_cmd":         fmt.Sprintf("bin/acvlint check -property %s -tier %s", r.Property, r.Tier),
	}
	ev := map[string]any{
		"property_id": r.Property,
		"tier":        r.Tier,
		"seed":        r.Seed,
		"level":       "other",
		"coverage":    cov,
		"assumptions": r.Assumptions,
		"wall_s":      time.Since(r.Start).Seconds(),
		"violations":  nViol + nUnd,
	}
	b, _ := json.MarshalIndent(ev, "", " ")
	if err := os.WriteFile(filepath.Join(evDir, r.Property+".json"), append(b, '\n'), 0o644); err != nil {
		fmt.Printf("error: cannot write evidence: %v\n", err)
		return 2
	}
	fmt.Printf("%s %s: %d obligations, %d discharged, %d violated, %d undecided, %d known findings (%.1fs)\n", r.Property, r.Tier, len(r.Obls), nDis, nViol, nUnd, nKnown, time.Since(r.Start).Seconds())
	return exit
}
